#!/bin/bash
# MANIFEST.setup_cmd: build the Lean library and the model driver from files on disk only.
set -e
HERE="$(cd "$(dirname "${BASH_SOURCE[0]}")" && pwd)"
cd "$HERE"
export PYTHONPATH="/repo:$HERE"
/venv/bin/python - <<'PY'
from harness import core
core.regen_root()
PY
cd lean
DRV=$(ls OV/Drivers/C*.lean 2>/dev/null | sed -E 's#.*/C([0-9]+)\.lean#drv_c\1#')
lake build OV $DRV 2>&1 | tail -5
for d in $DRV; do test -x .lake/build/bin/$d; done
