#!/bin/bash
# MANIFEST.setup_cmd: build the Lean library and the model driver from files on disk only.
set -e
HERE="$(cd "$(dirname "${BASH_SOURCE[0]}")" && pwd)"
cd "$HERE"
export PYTHONPATH="/repo:$HERE"
/venv/bin/python - <<'PY'
from harness import core
core.regen_root()
PY
cd lean
lake build OV ovdriver 2>&1 | tail -5
test -x .lake/build/bin/ovdriver
