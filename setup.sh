#!/bin/bash
# MANIFEST.setup_cmd: regenerate the translator tables from /repo, then build the Lean library and
# the model drivers from files on disk only.  A property whose modules fail to build here is
# reported by that property's own check (which rebuilds them); setup itself only fails when the
# toolchain does not work at all.
HERE="$(cd "$(dirname "${BASH_SOURCE[0]}")" && pwd)"
cd "$HERE" || exit 2
export VERIF_REPO="${VERIF_REPO:-/repo}"
export PYTHONPATH="$VERIF_REPO:$HERE"
export PYTHONWARNINGS=ignore
/venv/bin/python -c "from harness import core; core.regen_root()" || exit 2
/venv/bin/python -m harness.pregen 2>&1 | grep -v "conda.cli.condarc" | tail -40
cd lean || exit 2
fail=0
for f in OV/Props/C*.lean; do
  m="OV.Props.$(basename "$f" .lean)"
  d="drv_$(basename "$f" .lean | tr 'A-Z' 'a-z')"
  targets="$m"
  [ -f "OV/Drivers/$(basename "$f")" ] && targets="$targets $d"
  if ! lake build $targets > /tmp/ov_setup_build.log 2>&1; then
    echo "[setup] WARNING: $targets did not build (its check will report):"; grep -E "error" /tmp/ov_setup_build.log | head -5
    fail=$((fail+1))
  else
    echo "[setup] built $targets"
  fi
done
lake build OV.Props.C11 drv_c11 > /dev/null 2>&1 || { echo "[setup] toolchain broken: cannot build the pilot"; exit 1; }
echo "[setup] done ($fail property build(s) with warnings)"
exit 0
