"""Shared plumbing for every check (see DESIGN.md section 2.1).

A check module `harness/cXX.py` defines `main(run: Run)`; `./check CXX --tier quick` calls it.
Everything random derives from `run.rng` (one `random.Random(VERIF_SEED)`).

Exit codes: 0 property held on everything explored (KNOWN-FINDING lines allowed),
1 VIOLATION line printed, 2 infrastructure failure / timeout (never a violation).
"""
from __future__ import annotations

import contextlib
import fcntl
import hashlib
import json
import os
import random
import re
import subprocess
import sys
import time
import traceback
from pathlib import Path
from typing import Any, Callable, Iterable, Sequence

VERIF = Path(__file__).resolve().parent.parent
LEAN = VERIF / "lean"
REPO = Path(os.environ.get("VERIF_REPO", "/repo"))
EVIDENCE = Path(os.environ.get("VERIF_EVIDENCE_DIR") or (VERIF / "evidence"))
REPLAYS = VERIF / "replays"
ALLOWED_AXIOMS = {"propext", "Classical.choice", "Quot.sound"}
FORBIDDEN_RE = re.compile(
    r"\bsorry\b|\badmit\b|^\s*axiom\s|native_decide|bv_decide|implemented_by|\bunsafe\s|maxHeartbeats\s+0\b"
)

TRUSTED_BASE = [
    "Lean 4.33.0 kernel",
    "axioms: propext, Classical.choice, Quot.sound only (audited by #print axioms on every run)",
    "statements in lean/OV/Props/*.lean read against properties.jsonl",
    "harness (generators, canonicalisation, diff) tying the Lean model to /repo's working tree",
]


class Infra(Exception):
    """Infrastructure failure: exit 2, never a violation."""


# --------------------------------------------------------------------------- lean side


@contextlib.contextmanager
def lake_lock():
    LEAN.joinpath(".lake").mkdir(exist_ok=True)
    with open(LEAN / ".lake" / "verif.lock", "w") as fh:
        fcntl.flock(fh, fcntl.LOCK_EX)
        try:
            yield
        finally:
            fcntl.flock(fh, fcntl.LOCK_UN)


def regen_root() -> None:
    """OV.lean imports every module under OV/ (except generated audits)."""
    mods = []
    for p in sorted((LEAN / "OV").rglob("*.lean")):
        rel = p.relative_to(LEAN).with_suffix("")
        if rel.parts[1] == "Audit":
            continue
        if rel.parts[1] == "Drivers" and rel.parts[-1] != "Loop":
            continue  # each driver file has its own `main`; built as its own executable
        mods.append(".".join(rel.parts))
    text = "".join(f"import {m}\n" for m in mods)
    root = LEAN / "OV.lean"
    if not root.exists() or root.read_text() != text:
        root.write_text(text)


def lake_build(targets: Sequence[str], timeout: int = 1800) -> tuple[bool, str]:
    """Build targets (module names or `ovdriver`). Returns (ok, output)."""
    with lake_lock():
        regen_root()
        try:
            p = subprocess.run(
                ["lake", "build", *targets],
                cwd=LEAN,
                capture_output=True,
                text=True,
                timeout=timeout,
            )
        except subprocess.TimeoutExpired as e:
            raise Infra(f"lake build timed out: {targets}") from e
        except FileNotFoundError as e:
            raise Infra("lake not found") from e
    return p.returncode == 0, p.stdout + p.stderr


def strip_comments(src: str) -> str:
    # remove nested /- -/ block comments and -- line comments
    out = []
    i = 0
    depth = 0
    n = len(src)
    while i < n:
        if src.startswith("/-", i):
            depth += 1
            i += 2
        elif depth and src.startswith("-/", i):
            depth -= 1
            i += 2
        elif depth:
            if src[i] == "\n":
                out.append("\n")
            i += 1
        elif src.startswith("--", i):
            while i < n and src[i] != "\n":
                i += 1
        else:
            out.append(src[i])
            i += 1
    return "".join(out)


THEOREM_RE = re.compile(r"^\s*(?:@\[[^\]]*\]\s*)?(?:private\s+|protected\s+)?theorem\s+([A-Za-z_][\w.']*)", re.M)
NAMESPACE_RE = re.compile(r"^\s*(namespace|end)\s+([\w.]+)\s*$", re.M)


def theorems_of(path: Path) -> list[str]:
    """Fully-qualified theorem names declared in a Lean file (tracks `namespace … end`)."""
    src = strip_comments(path.read_text())
    names: list[str] = []
    ns: list[str] = []
    for line in src.splitlines():
        m = NAMESPACE_RE.match(line)
        if m:
            if m.group(1) == "namespace":
                ns.append(m.group(2))
            elif ns and ns[-1] == m.group(2):
                ns.pop()
            continue
        m = THEOREM_RE.match(line)
        if m:
            names.append(".".join(ns + [m.group(1)]))
    return names


def forbidden_tokens(paths: Iterable[Path]) -> list[str]:
    hits = []
    for p in paths:
        for ln, line in enumerate(strip_comments(p.read_text()).splitlines(), 1):
            if FORBIDDEN_RE.search(line):
                hits.append(f"{p.relative_to(LEAN)}:{ln}: {line.strip()[:120]}")
    return hits


def imports_closure(mod: str) -> list[Path]:
    """Local (OV.*) source files reachable from module `mod`."""
    seen: dict[str, Path] = {}
    todo = [mod]
    while todo:
        m = todo.pop()
        if m in seen:
            continue
        p = LEAN / (m.replace(".", "/") + ".lean")
        if not p.exists():
            continue
        seen[m] = p
        for mm in re.findall(r"^import\s+(OV[\w.]*)", p.read_text(), re.M):
            todo.append(mm)
    return list(seen.values())


def lean_audit(prop_modules: Sequence[str], timeout: int = 1800) -> dict:
    """Build the property modules and audit them.

    Returns {ok, obligations, discharged, theorems:{name:[axioms]}, problems:[...], build_log}.
    A theorem counts as discharged only if `#print axioms` reports it with allowed axioms.
    """
    problems: list[str] = []
    ok, log = lake_build(list(prop_modules), timeout=timeout)
    theorems: list[str] = []
    files: list[Path] = []
    for m in prop_modules:
        p = LEAN / (m.replace(".", "/") + ".lean")
        theorems += theorems_of(p)
        files += imports_closure(m)
    files = sorted(set(files))
    bad = forbidden_tokens(files)
    problems += [f"forbidden token: {b}" for b in bad]
    result: dict[str, Any] = {
        "ok": False,
        "obligations": len(theorems),
        "discharged": 0,
        "theorems": {},
        "problems": problems,
        "build_log": log[-4000:],
        "modules": list(prop_modules),
    }
    if not ok:
        problems.append("lake build failed")
        return result
    audit_dir = LEAN / "OV" / "Audit"
    audit_dir.mkdir(exist_ok=True)
    tag = hashlib.sha1("|".join(prop_modules).encode()).hexdigest()[:10]
    af = audit_dir / f"A{tag}.lean"
    af.write_text(
        "".join(f"import {m}\n" for m in prop_modules)
        + "".join(f"#print axioms {t}\n" for t in theorems)
    )
    with lake_lock():
        try:
            p = subprocess.run(
                ["lake", "env", "lean", str(af.relative_to(LEAN))],
                cwd=LEAN,
                capture_output=True,
                text=True,
                timeout=timeout,
            )
        except subprocess.TimeoutExpired as e:
            raise Infra("axiom audit timed out") from e
    out = p.stdout + p.stderr
    # "'name' depends on axioms: [a, b]" or "'name' does not depend on any axioms"
    for m in re.finditer(r"'([^']+)' depends on axioms: \[([^\]]*)\]", out.replace("\n", " ")):
        result["theorems"][m.group(1)] = [a.strip() for a in m.group(2).split(",") if a.strip()]
    for m in re.finditer(r"'([^']+)' does not depend on any axioms", out):
        result["theorems"][m.group(1)] = []
    discharged = 0
    for t in theorems:
        ax = result["theorems"].get(t)
        if ax is None:
            problems.append(f"theorem not reported by #print axioms: {t}")
        elif not set(ax) <= ALLOWED_AXIOMS:
            problems.append(f"theorem {t} uses axioms {ax}")
        else:
            discharged += 1
    result["discharged"] = discharged
    result["ok"] = not problems and discharged == len(theorems) and len(theorems) > 0
    return result


def leanchecker(prop_modules: Sequence[str], timeout: int = 3600) -> tuple[bool, str]:
    with lake_lock():
        try:
            p = subprocess.run(
                ["lake", "env", "leanchecker", *prop_modules],
                cwd=LEAN,
                capture_output=True,
                text=True,
                timeout=timeout,
            )
        except subprocess.TimeoutExpired:
            return False, "leanchecker timed out"
    return p.returncode == 0, (p.stdout + p.stderr)[-2000:]


class Driver:
    """Pipe to the compiled Lean model driver (line protocol, one line in, one line out)."""

    def __init__(self, prop: str) -> None:
        self.prop = prop.upper()
        exe = f"drv_{prop.lower()}"
        self.path = LEAN / ".lake" / "build" / "bin" / exe
        ok, log = lake_build([exe])
        if not ok or not self.path.exists():
            raise Infra(f"cannot build {exe}:\n" + log[-3000:])
        self.lines = 0

    def ask(self, lines: Sequence[str], timeout: int = 600) -> list[str]:
        if not lines:
            return []
        for ln in lines:
            if "\n" in ln:
                raise Infra("newline inside a driver line")
        try:
            p = subprocess.run(
                [str(self.path)],
                input="".join(f"{self.prop} {ln}\n" for ln in lines),
                capture_output=True,
                text=True,
                timeout=timeout,
            )
        except subprocess.TimeoutExpired as e:
            raise Infra("model driver timed out") from e
        out = p.stdout.split("\n")
        if out and out[-1] == "":
            out.pop()
        if p.returncode != 0 or len(out) != len(lines):
            raise Infra(
                f"model driver failed rc={p.returncode} got {len(out)} lines for {len(lines)}: {p.stderr[-500:]}"
            )
        self.lines += len(lines)
        return out


# --------------------------------------------------------------------------- run object


def load_known_findings() -> list[dict]:
    """Open entries of known_findings.json — the single committed known-findings file, generated from
    the per-property source fragments known_findings.d/*.json by harness/mkfindings.py.  Fragment
    entries whose id is not (yet) in the merged file are read as well, so that a fragment edited during
    development is honoured before the next merge; after a merge the fragments add nothing."""
    out: list[dict] = []
    seen: set[str] = set()
    p = VERIF / "known_findings.json"
    srcs = ([p] if p.exists() else []) + sorted((VERIF / "known_findings.d").glob("*.json"))
    for f in srcs:
        for attempt in range(5):  # a fragment may be mid-rewrite by its owner during development
            try:
                d = json.loads(f.read_text())
                break
            except (json.JSONDecodeError, FileNotFoundError):
                if attempt == 4:
                    raise
                time.sleep(0.5)
        for e in d.get("findings", []):
            if e.get("id") not in seen:
                seen.add(e.get("id"))
                out.append(e)
    return out


class Run:
    def __init__(self, prop: str, tier: str, seed: int, replay: str | None = None):
        self.prop = prop
        self.tier = tier
        self.seed = seed
        self.replay_path = replay
        self.rng = random.Random(seed)
        self.t0 = time.time()
        self.coverage: dict[str, Any] = {}
        self.assumptions: list[str] = []
        self.violations: list[str] = []
        self.known_hits: list[str] = []
        self.samples: list[Any] = []
        self.level = "proof"
        self.findings = [f for f in load_known_findings() if prop in f.get("properties", [f.get("property")])]
        self.budget_s = float(os.environ.get("VERIF_BUDGET_S", "0")) or None

    # -- sizes
    def size(self, quick: int, thorough: int) -> int:
        return quick if self.tier == "quick" else thorough

    def elapsed(self) -> float:
        return time.time() - self.t0

    # -- reporting
    def sample(self, obj: Any, limit: int = 8) -> None:
        if len(self.samples) < limit:
            self.samples.append(obj)

    def open_findings(self) -> list[dict]:
        return [f for f in self.findings if f.get("status") == "open"]

    def known(self, finding_id: str, what: str) -> None:
        line = f"KNOWN-FINDING: property={self.prop} {finding_id}: {what}"
        if line not in self.known_hits:
            self.known_hits.append(line)
            print(line, flush=True)

    def violation(self, case: dict, what: str, no_input: bool = False) -> str:
        REPLAYS.mkdir(exist_ok=True)
        body = {
            "property": self.prop,
            "seed": self.seed,
            "tier": self.tier,
            "what": what,
            "no_failing_input_found": no_input,
            "case": case,
        }
        h = hashlib.sha1(json.dumps(body, sort_keys=True, default=str).encode()).hexdigest()[:12]
        path = REPLAYS / f"{self.prop}_{h}.json"
        path.write_text(json.dumps(body, indent=1, sort_keys=True, default=str))
        line = f"VIOLATION property={self.prop} replay={path}" + (" no-failing-input-found" if no_input else "")
        self.violations.append(line)
        print(line, flush=True)
        print(f"  {what}", flush=True)
        return str(path)

    # -- proof obligations
    def prove(self, modules: Sequence[str], thorough_checker: bool = True) -> dict:
        a = lean_audit(modules)
        cov = self.coverage
        cov["obligations"] = cov.get("obligations", 0) + a["obligations"]
        cov["discharged"] = cov.get("discharged", 0) + a["discharged"]
        cov.setdefault("theorems", {}).update(a["theorems"])
        cov["checker_cmd"] = (
            f"cd lean && lake build {' '.join(modules)} && lake env lean OV/Audit/<generated>.lean  (#print axioms on every theorem of the property files; grep for sorry/admit/axiom/native_decide)"
        )
        cov["trusted_base"] = list(TRUSTED_BASE)
        if a["problems"]:
            cov.setdefault("proof_problems", []).extend(a["problems"])
        if self.tier == "thorough" and thorough_checker and a["ok"]:
            ok, out = leanchecker(modules)
            cov["leanchecker"] = {"ok": ok, "tail": out[-300:]}
            if not ok:
                a["ok"] = False
                a["problems"].append("leanchecker rejected the compiled modules")
        return a

    def write_evidence(self) -> None:
        EVIDENCE.mkdir(parents=True, exist_ok=True)
        cov = dict(self.coverage)
        cov.setdefault("samples", self.samples or cov.get("samples") or [])
        if not cov["samples"]:
            cov["samples"] = ["(no case recorded)"]
        ev = {
            "property_id": self.prop,
            "tier": self.tier,
            "seed": self.seed,
            "level": self.level,
            "coverage": cov,
            "assumptions": self.assumptions,
            "wall_s": round(self.elapsed(), 2),
            "violations": len(self.violations),
            "known_findings_reproduced": self.known_hits,
        }
        (EVIDENCE / f"{self.prop}.json").write_text(json.dumps(ev, indent=1, default=str))


def shrink_list(items: list, still_fails: Callable[[list], bool], max_steps: int = 200) -> list:
    """Greedy delta-debugging on a list."""
    cur = list(items)
    steps = 0
    chunk = max(1, len(cur) // 2)
    while chunk >= 1 and steps < max_steps:
        i = 0
        changed = False
        while i < len(cur) and steps < max_steps:
            cand = cur[:i] + cur[i + chunk :]
            steps += 1
            if cand and still_fails(cand):
                cur = cand
                changed = True
            else:
                i += chunk
        if not changed:
            chunk //= 2
    return cur


def source_fingerprint(rel_path: str, qualnames: Sequence[str]) -> dict[str, str]:
    """Normalised `ast.dump` hash of functions in a /repo file: drift escalates sample sizes."""
    import ast

    src = (REPO / rel_path).read_text()
    tree = ast.parse(src)
    out: dict[str, str] = {}

    def visit(node, prefix):
        for ch in ast.iter_child_nodes(node):
            if isinstance(ch, (ast.FunctionDef, ast.AsyncFunctionDef, ast.ClassDef)):
                q = f"{prefix}{ch.name}"
                if q in qualnames:
                    out[q] = hashlib.sha1(ast.dump(ch, include_attributes=False).encode()).hexdigest()[:16]
                visit(ch, q + ".")

    visit(tree, "")
    return out


def fingerprint_drift(prop: str, rel_path: str, qualnames: Sequence[str]) -> list[str]:
    """Names whose fingerprint differs from harness/fingerprints.json (missing file = no drift)."""
    fp_file = VERIF / "harness" / "fingerprints.json"
    cur = source_fingerprint(rel_path, qualnames)
    if not fp_file.exists():
        return []
    rec = json.loads(fp_file.read_text()).get(prop, {}).get(rel_path, {})
    return [q for q in qualnames if rec.get(q) is not None and rec.get(q) != cur.get(q)]


def run_check(prop: str, main: Callable[[Run], None]) -> int:
    import argparse

    ap = argparse.ArgumentParser()
    ap.add_argument("--tier", default=os.environ.get("VERIF_TIER", "quick"), choices=["quick", "thorough"])
    ap.add_argument("--replay", default=None)
    args = ap.parse_args(sys.argv[2:] if len(sys.argv) > 1 and sys.argv[1] == prop else sys.argv[1:])
    seed = int(os.environ.get("VERIF_SEED", "0") or 0)
    run = Run(prop, args.tier, seed, args.replay)
    code = 0
    try:
        main(run)
        code = 1 if run.violations else 0
    except Infra as e:
        print(f"INFRA property={prop}: {e}", flush=True)
        run.coverage.setdefault("infra_error", str(e))
        code = 2
    except Exception:  # harness bug: infrastructure, not a violation
        traceback.print_exc()
        run.coverage.setdefault("infra_error", traceback.format_exc()[-1500:])
        code = 2
    finally:
        try:
            run.write_evidence()
        except Exception:
            traceback.print_exc()
            code = code or 2
    print(f"[{prop}] tier={run.tier} seed={seed} wall={run.elapsed():.1f}s exit={code}", flush=True)
    return code
