"""C01/C02 shared: typed grammar generator of @script programs, near-miss mutations, the
independent NumPy interpreter of the source (the property's "plain Python" reading), input
generation, and the predicates of the known findings (regions the generator stays out of).

Types used by the generator
    T   float32 tensor of the program's shape (rank 0-3, dims may be 0 or 1)
    S   float32 scalar           B  bool scalar           I  int64 scalar
    M   bool tensor of the program's shape (mask; only from Dropout / comparisons)
"""
from __future__ import annotations

import ast
import copy

import numpy as np

SHAPES = [(), (1,), (3,), (0,), (2, 3), (1, 0), (2, 1, 3), (0, 2), (4,), (1, 1)]

HELPERS_SRC = '''
@script(default_opset=op)
def helper_axpy(x, y):
    return op.Add(op.Mul(x, 2.0), y)

@script(default_opset=op)
def helper_neg(x):
    return op.Neg(x)

@script(default_opset=op)
def helper_inner(x):
    return op.Abs(x)

@script(default_opset=op)
def helper_inner2(x):
    return op.Mul(x, 0.5)

@script(default_opset=op)
def helper_nested(x):
    # other script functions called ONLY inside a branch / a loop body of a callee (never at top level, never by
    # the caller itself): a model built from a caller of this one must still carry both of them
    if (op.ReduceSum(x, keepdims=0) > 0.0):
        y = helper_inner(x)
    else:
        y = op.Neg(x)
    for i in range(2):
        y = op.Add(y, helper_inner2(y))
    return y
'''
HELPER_PARAMS = {"helper_axpy": ["x", "y"], "helper_neg": ["x"], "helper_inner": ["x"], "helper_inner2": ["x"],
                 "helper_nested": ["x"]}


# =========================================================================== generator


class Prog:
    """A generated program: source text + interface description."""

    def __init__(self):
        self.name = "f"
        self.shape: tuple = ()
        self.params: list[tuple[str, str]] = []  # (name, type T/S/B/I)
        self.attrs: list[tuple[str, str, object]] = []  # (name, kind float/int/bool, default or None)
        self.body: list = []  # statement tree
        self.rets: list[tuple[str, str]] = []  # (expr source, type)
        self.annot_ret = False
        self.features: set[str] = set()


def ann_of(ty: str, shape) -> str:
    if ty == "T":
        return "FLOAT[" + ",".join(map(str, shape)) + "]" if shape else "FLOAT"
    if ty == "M":
        return "BOOL[" + ",".join(map(str, shape)) + "]" if shape else "BOOL"
    if ty == "N":
        return "INT64[" + ",".join(map(str, shape)) + "]" if shape else "INT64"
    return {"S": "FLOAT", "B": "BOOL", "I": "INT64"}[ty]


FLOAT_LITS = ["0.0", "1.0", "2.0", "0.5", "1.5", "3.0", "0.25"]
INT_LITS = ["0", "1", "2", "3"]


class Gen:
    def __init__(self, rng, max_depth=2, subscripts=False):
        self.rng = rng
        self.max_depth = max_depth
        self.subscripts = subscripts
        self.fresh = {
            "T": ["x", "y", "z", "u", "v", "w"],
            "S": ["p", "q", "r"],
            "B": ["b", "e", "g"],
            "I": ["j", "h"],
            "M": ["mk", "mm"],
            "N": ["ka", "kb"],
        }
        self.loopvars = ["i", "ii", "iii"]
        self.p = Prog()
        self.must_use: list[str] = []
        self.castable_consts: dict[str, str] = {}  # top-level literal variables (never reassigned)
        self.counter_id = 0
        self.last_result = None

    # ---- expression generation -------------------------------------------------------
    def vars_of(self, env, ty):
        return [v for v, t in env.items() if t == ty]

    def pick_var(self, env, ty):
        cands = self.vars_of(env, ty)
        pref = [v for v in cands if v in self.must_use]
        if pref and self.rng.random() < 0.6:
            return self.rng.choice(pref)
        return self.rng.choice(cands) if cands else None

    def use(self, v):
        if v in self.must_use:
            self.must_use.remove(v)
        return v

    def lit_f(self):
        s = self.rng.choice(FLOAT_LITS)
        if self.rng.random() < 0.2:
            s = "-" + s
        return s

    def operand(self, env, ty, depth, allow_lit=True):
        """An operand of type `ty` for an operator that has a sibling of tensor kind."""
        r = self.rng.random()
        if allow_lit and r < 0.25 and ty in ("T", "S", "I"):
            self.p.features.add("literal-operand")
            if ty == "I":
                return self.rng.choice(INT_LITS)
            if self.rng.random() < 0.3:
                self.p.features.add("int-literal-beside-float")
                return self.rng.choice(INT_LITS)
            return self.lit_f()
        if allow_lit and r < 0.32 and ty in ("T", "S"):
            fl = [a for a, k, _ in self.p.attrs if k == "float"]
            if fl:
                self.p.features.add("attr-promoted")
                return self.rng.choice(fl)
        if allow_lit and r < 0.36 and ty in ("T", "S") and self.castable_consts:
            self.p.features.add("castable-var-operand")
            return self.rng.choice(list(self.castable_consts))
        return self.expr(env, ty, depth)

    def expr(self, env, ty, depth=0):
        rng = self.rng
        leaf = depth >= 2 or rng.random() < 0.35
        if ty == "T":
            v = self.pick_var(env, "T")
            if leaf and v:
                return self.use(v)
            k = rng.random()
            a = self.expr(env, "T", depth + 1)
            if k < 0.30:
                opn = rng.choice(["Add", "Sub", "Mul"])
                b = self.operand(env, rng.choice(["T", "T", "S"]), depth + 1)
                if rng.random() < 0.5:
                    a, b = (b, a) if not _is_lit(b) or rng.random() < 0.5 else (a, b)
                self.p.features.add("op-call")
                return f"op.{opn}({a}, {b})"
            if k < 0.50:
                sym = rng.choice(["+", "-", "*"])
                b = self.operand(env, rng.choice(["T", "T", "S"]), depth + 1)
                if rng.random() < 0.4:
                    a, b = b, a
                if _is_lit(a) and _is_lit(b):
                    b = self.expr(env, "T", 2)
                self.p.features.add("binop")
                return f"({a} {sym} {b})"
            if k < 0.56:
                # the remaining Python operators of primop_map, tensor on the left
                form = rng.choice(["div", "div-int", "mod-f", "pow-i", "pow-f", "op-div", "op-pow", "cast-n"])
                self.p.features.add("arith-" + form)
                if form == "div":
                    return f"({a} / {rng.choice(['2.0', '0.5', '-4.0'])})"
                if form == "div-int":
                    return f"({a} / {rng.choice(['2', '4', '-2'])})"
                if form == "mod-f":
                    return f"({a} % {rng.choice(['2.0', '1.5', '-2.0'])})"
                if form == "pow-i":
                    return f"({a} ** {rng.choice(['2', '3'])})"
                if form == "pow-f":
                    return f"({a} ** 2.0)"
                if form == "op-div":
                    return f"op.Div({a}, {rng.choice(['2.0', '4', '-0.5'])})"
                if form == "op-pow":
                    return f"op.Pow({a}, {rng.choice(['2.0', '2'])})"
                nv = self.pick_var(env, "N")
                if nv:
                    return f"op.Add({a}, op.Cast({self.expr(env, 'N', depth + 1)}, to=1))"
                return f"({a} / 2.0)"
            if k < 0.62:
                self.p.features.add("unary-op-call")
                return f"op.{rng.choice(['Neg', 'Abs', 'Relu', 'Identity'])}({a})"
            if k < 0.66:
                self.p.features.add("unary-minus")
                return f"(-{a})"
            if k < 0.74:
                c1 = self.expr(env, "T", depth + 1)
                b = self.operand(env, "T", depth + 1)
                self.p.features.add("where")
                cmpo = rng.choice(["<", ">"])
                return f"op.Where({c1} {cmpo} {self.operand(env, 'T', 2)}, {a}, {b})"
            if k < 0.80:
                self.p.features.add("subfunction-call")
                r2 = rng.random()
                if r2 < 0.4:
                    return f"helper_axpy({a}, {self.expr(env, 'T', depth + 1)})"
                if r2 < 0.7:
                    return f"helper_neg({a})"
                self.p.features.add("callee-calls-inside-control-flow")
                return f"helper_nested({a})"
            if k < 0.86:
                fl = [n for n, kk, _ in self.p.attrs if kk == "float"]
                if fl:
                    self.p.features.add("attr-ref")
                    return f"op.LeakyRelu({a}, alpha={rng.choice(fl)})"
                return f"op.LeakyRelu({a}, alpha=0.5)"
            if k < 0.92:
                self.p.features.add("variadic-op")
                return f"op.Sum({a}, {self.expr(env, 'T', depth + 1)}, {self.operand(env, 'T', depth + 1)})"
            if k < 0.96:
                self.p.features.add("optional-literal-inputs")
                return f"op.Clip({a}, {self.lit_f()}, {rng.choice(['2.0', '3.0', '5'])})"
            m = self.pick_var(env, "M")
            if m:
                return f"op.Where({m}, {a}, {self.operand(env, 'T', depth + 1)})"
            return f"op.Abs({a})"
        if ty == "S":
            v = self.pick_var(env, "S")
            if leaf and v:
                return self.use(v)
            k = rng.random()
            shp = self.p.shape
            if self.subscripts and shp and rng.random() < 0.45:
                # constant subscripts (structure only; index semantics are C11's): the same few integers recur in
                # every scope, so a cache of index constants that outlives one expression would be visible
                base = self.pick_var(env, "T") or "A"
                forms = ["[0]", "[1:3]", "[0:1]", "[::2]", "[1:]", "[:2]", "[-1]", "[2:0:-1]", "[:]"]
                if len(shp) >= 2:
                    forms += ["[:, 0]", "[0, 0]", "[0:1, 1]", "[1, 0:2]", "[:, 1:2]", "[:, :]", "[-1, 0]", "[1:, -1]", "[-1, -1]"]
                self.p.features.add("subscript")
                return f"op.ReduceSum({base}{rng.choice(forms)}, keepdims=0)"
            if len(shp) == 1 and shp[0] > 0 and rng.random() < 0.15:
                self.p.features.add("matmul")
                return f"({self.expr(env, 'T', depth + 1)} @ {self.expr(env, 'T', depth + 1)})"
            if k < 0.5 or not v:
                self.p.features.add("reduce")
                return f"op.ReduceSum({self.expr(env, 'T', depth + 1)}, keepdims=0)"
            if k < 0.8:
                return f"({self.use(v)} {rng.choice(['+', '*', '-'])} {self.operand(env, 'S', depth + 1)})"
            return f"op.Abs({self.use(v)})"
        if ty == "B":
            v = self.pick_var(env, "B")
            if leaf and v:
                return self.use(v)
            k = rng.random()
            if k < 0.55:
                self.p.features.add("compare")
                o = rng.choice(["<", ">", "<=", ">=", "==", "!="])
                if o == "!=":
                    self.p.features.add("noteq")
                return f"({self.expr(env, 'S', depth + 1)} {o} {self.operand(env, 'S', depth + 1)})"
            if k < 0.7 and self.vars_of(env, "I"):
                o = rng.choice(["<", ">", "=="])
                return f"({self.pick_var(env, 'I')} {o} {self.operand(env, 'I', depth + 1)})"
            if k < 0.8 and v:
                self.p.features.add("not")
                return f"op.Not({self.use(v)})"
            if v:
                self.p.features.add("bitand-or")
                return f"({self.use(v)} {rng.choice(['&', '|'])} {self.expr(env, 'B', depth + 1)})"
            return f"({self.expr(env, 'S', depth + 1)} < {self.lit_f()})"
        if ty == "N":
            v = self.pick_var(env, "N")
            if v is None:
                raise IndexError("no int tensor")
            if leaf:
                return self.use(v)
            a = self.expr(env, "N", depth + 1)
            form = rng.choice(["mod", "mod", "mod-neg", "add", "mul", "sub", "neg", "abs", "pow"])
            self.p.features.add("int-" + form)
            if form == "mod":
                return f"({a} % {rng.choice(['2', '3', '5'])})"
            if form == "mod-neg":
                return f"({a} % {rng.choice(['-3', '-2'])})"
            if form == "add":
                return f"({a} + {rng.choice(['1', '-2', '7'])})"
            if form == "mul":
                return f"({a} * {rng.choice(['2', '-3'])})"
            if form == "sub":
                return f"({a} - {self.expr(env, 'N', depth + 1)})"
            if form == "neg":
                return f"(-{a})"
            if form == "abs":
                return f"op.Abs({a})"
            return f"({a} ** 2)"
        if ty == "I":
            v = self.pick_var(env, "I")
            if v and (leaf or rng.random() < 0.6):
                return self.use(v)
            if v:
                return f"({v} + {rng.choice(INT_LITS)})"
            return f"op.Constant(value_int={rng.choice(INT_LITS)})"
        raise ValueError(ty)

    # ---- statements ---------------------------------------------------------------------
    def target(self, env, ty, allow_new=True, avoid=()):
        """Assignment target of type ty: an existing variable (not a parameter, not a must-use one)
        or a new name."""
        params = {n for n, _ in self.p.params} | {a for a, _, _ in self.p.attrs} | set(self.castable_consts)
        ex = [v for v in self.vars_of(env, ty) if v not in params and v not in self.must_use and v not in avoid
              and v not in self.loopvars_in_scope]
        new = [v for v in self.fresh[ty] if v not in env and v not in avoid]
        if ex and (not allow_new or not new or self.rng.random() < 0.55):
            return self.rng.choice(ex)
        if new and allow_new:
            return new[0]
        return self.rng.choice(ex) if ex else None

    def gen_assign(self, env, depth):
        ty = self.rng.choice(["T", "T", "T", "S", "B"])
        if ty == "B" and self.rng.random() < 0.5:
            ty = "T"
        if self.vars_of(env, "N") and self.rng.random() < 0.25:
            ty = "N"
        tgt = self.target(env, ty)
        if ty == "T" and depth == 0 and self.rng.random() < 0.06:
            # re-assign a tensor parameter (an alias of its incoming value may be returned: fixed by 3b56caa)
            tp = [n for n, t in self.p.params if t == "T"]
            tgt = self.rng.choice(tp)
            self.p.features.add("param-reassigned")
        if tgt is None:
            return None
        e = self.expr(env, ty, 0)
        if e == tgt:
            e = f"op.Identity({e})"
        if ast_is_name(e):
            self.p.features.add("alias-assign")
        env[tgt] = ty
        return ("assign", tgt, e)

    def gen_tuple(self, env):
        y = self.target(env, "T")
        m = self.target(env, "M", avoid=(y,))
        if not y or not m:
            return None
        e = self.expr(env, "T", 1)
        env[y] = "T"
        env[m] = "M"
        self.p.features.add("tuple-assign-multi-output")
        return ("tuple", [y, m], f"op.Dropout({e})")

    def gen_par(self, env):
        a = self.target(env, "T")
        b = self.target(env, "T", avoid=(a,))
        if not a or not b or a == b:
            return None
        # right-hand sides may read the targets (Python evaluates them all first; fixed by 87ad64d)
        if a in env and b in env and env[a] == env[b] == "T" and self.rng.random() < 0.4:
            self.p.features.add("parallel-swap")
            return ("par", [a, b], [b, a])
        e1 = self.expr(env, "T", 1)
        e2 = self.expr(env, "T", 1)
        if a in env or b in env:
            self.p.features.add("parallel-reads-targets")
        env[a] = "T"
        env[b] = "T"
        self.p.features.add("parallel-assign")
        return ("par", [a, b], [e1, e2])

    def gen_if(self, env, depth):
        cond = self.expr(env, "B", 1)
        if self.rng.random() < 0.25:
            fl = [a for a, k, _ in self.p.attrs if k == "bool"]
            if fl:
                cond = self.rng.choice(fl)
                self.p.features.add("bool-attr-condition")
        # result variable: assigned in both branches, or predefined and assigned in one
        ty = self.rng.choice(["T", "T", "S"])
        res = self.target(env, ty)
        if res is None:
            return None
        predefined = res in env
        mode = self.rng.choice(["both", "both", "then-only", "else-only"]) if predefined else "both"
        self.p.features.add("if-" + mode + ("-predefined" if predefined else "-new"))
        saved_must = list(self.must_use)
        envs = []
        blocks = []
        for side in ("then", "else"):
            e2 = dict(env)
            blk = self.gen_block(e2, depth + 1, self.rng.randint(0, 2))
            if mode == "both" or mode.startswith(side):
                rhs = self.expr(e2, ty, 1)
                if rhs == res:
                    rhs = f"op.Identity({rhs})"
                if ast_is_name(rhs):
                    self.p.features.add("branch-returns-outer-value")
                blk.append(("assign", res, rhs))
                e2[res] = ty
            if not blk:
                # Python needs a statement; assign a dead temporary
                t = self.target(e2, "T")
                if t is None or t == res:
                    return None
                blk.append(("assign", t, self.expr(e2, "T", 1)))
                e2[t] = "T"
            envs.append(e2)
            blocks.append(blk)
        for v in set(envs[0]) & set(envs[1]):
            if envs[0][v] == envs[1][v]:
                env[v] = envs[0][v]
        self.must_use = [m for m in saved_must if m in env]
        if res not in self.must_use:
            self.must_use.append(res)
        self.last_result = res
        return ("if", cond, blocks[0], blocks[1])

    def back_edge(self, env, e2, carried, cty, pre: list, body: list):
        """A variable consumed only across iterations: read at the top of the body, re-assigned inside an
        if/else further down (together with a second variable that is used right after the if), and read
        nowhere else.  Its liveness at the end of the if exists only through the loop's back edge."""
        if cty != "T" or "cr" in env or "cr" in e2 or "wv" in e2:
            return
        tp = [n for n, t in self.p.params if t == "T"]
        a = self.rng.choice(tp)
        pre.append(("assign", "cr", f"op.Mul({a}, {self.rng.choice(['0.5', '2.0'])})"))
        body.append(("assign", carried, f"op.Add({carried}, cr)"))
        cond = f"(op.ReduceSum({carried}, keepdims=0) > {self.rng.choice(['1.0', '0.0', '6.0'])})"
        body.append(("if", cond,
                     [("assign", "cr", f"op.Add({a}, 1.0)"), ("assign", "wv", f"op.Neg({a})")],
                     [("assign", "cr", f"op.Sub(cr, 1.0)"), ("assign", "wv", f"op.Abs({a})")]))
        body.append(("assign", carried, f"op.Add({carried}, wv)"))
        self.p.features.add("loop-back-edge-only-variable")

    def gen_for(self, env, depth):
        lv = next((v for v in self.loopvars if v not in env), None)
        if lv is None:
            return None
        bound_c = [n for n, t in self.p.params if t == "I"] + [a for a, k, _ in self.p.attrs if k == "int"]
        r = self.rng.random()
        if bound_c and r < 0.7:
            bound = self.rng.choice(bound_c)
            if bound in [a for a, _, _ in self.p.attrs]:
                self.p.features.add("int-attr-loop-bound")
        elif r < 0.9:
            bound = self.rng.choice(["0", "1", "2", "3", "-1"])   # range(-1): zero trips (hypothesis hNat of the theorems)
            self.p.features.add("literal-loop-bound")
            if bound == "-1":
                self.p.features.add("negative-literal-loop-bound")
        else:
            bound = f"({self.rng.choice(bound_c)} + 1)" if bound_c else "2"
        carried_c = [v for v in self.vars_of(env, "T") + self.vars_of(env, "S")
                     if v not in {n for n, _ in self.p.params} and v not in self.castable_consts
                     and v not in self.loopvars_in_scope]
        if not carried_c:
            return None
        carried = self.rng.choice(carried_c)
        cty = env[carried]
        e2 = dict(env)
        e2[lv] = "I"
        self.loopvars_in_scope.append(lv)
        saved_must = list(self.must_use)
        body = self.gen_block(e2, depth + 1, self.rng.randint(0, 2))
        self.pre_stmts = []
        if self.rng.random() < 0.3:
            self.back_edge(env, e2, carried, cty, self.pre_stmts, body)
        # carried update: reads itself
        upd = self.rng.random()
        if upd < 0.5:
            rhs = f"op.Add({carried}, {self.operand(e2, cty, 1)})"
        elif upd < 0.75:
            rhs = f"({carried} * {self.rng.choice(['0.5', '2.0', '1.5'])} + {self.expr(e2, cty, 1)})"
        else:
            self.p.features.add("loop-index-used")
            rhs = f"op.Add({carried}, op.Cast({lv}, to=1))"
        body.append(("assign", carried, rhs))
        if self.rng.random() < 0.3:
            # extra body statement after the update
            st = self.gen_assign(e2, depth + 1)
            if st:
                body.append(st)
        over = [v for v in carried_c if v != carried and env.get(v) == "T"]
        if over and self.rng.random() < 0.25:
            # pure overwrite of a variable that is live after the loop (zero-trip path matters: fixed by 4304e8f)
            ov = self.rng.choice(over)
            body.append(("assign", ov, f"op.Mul({self.rng.choice([n for n, t in self.p.params if t == 'T'])}, 2.0)"))
            self.p.features.add("loop-pure-overwrite")
            if ov not in saved_must:
                saved_must.append(ov)
        brk = None
        if self.rng.random() < 0.3:
            bv = next((v for v in self.fresh["B"] if v not in e2), None)
            if bv:
                src = carried if cty == "S" else f"op.ReduceSum({carried}, keepdims=0)"
                body.append(("assign", bv, f"({src} > {self.rng.choice(['4.0', '10.0', '0.0'])})"))
                body.append(("break", bv))
                self.p.features.add("for-break")
        self.loopvars_in_scope.pop()
        self.must_use = [m for m in saved_must if m in env]
        if carried not in self.must_use:
            self.must_use.append(carried)
        self.p.features.add("for")
        self.last_result = carried
        if self.pre_stmts:
            return ("seq", self.pre_stmts + [("for", lv, bound, body)])
        return ("for", lv, bound, body)

    def gen_while(self, env, depth):
        """Counter-driven while: `cnt = 0; c = cnt < n; while c: body; cnt = cnt + 1; c = cnt < n`."""
        bound_c = [n for n, t in self.p.params if t == "I"]
        if not bound_c:
            return None
        self.counter_id += 1
        cnt = ["cnt", "cntb", "cntc", "cntd"][min(self.counter_id - 1, 3)]
        cv = ["go", "gob", "goc", "god"][min(self.counter_id - 1, 3)]
        if cnt in env or cv in env:
            return None
        n = self.rng.choice(bound_c)
        carried_c = [v for v in self.vars_of(env, "T") + self.vars_of(env, "S")
                     if v not in {n for n, _ in self.p.params} and v not in self.castable_consts
                     and v not in self.loopvars_in_scope]
        if not carried_c:
            return None
        carried = self.rng.choice(carried_c)
        cty = env[carried]
        pre = [("assign", cnt, "op.Constant(value_int=0)"), ("assign", cv, f"({cnt} < {n})")]
        e2 = dict(env)
        e2[cnt] = "I"
        e2[cv] = "B"
        self.loopvars_in_scope += [cnt, cv]
        saved_must = list(self.must_use)
        body = self.gen_block(e2, depth + 1, self.rng.randint(0, 1))
        if self.rng.random() < 0.5:
            self.back_edge(env, e2, carried, cty, pre, body)
        body.append(("assign", carried, f"op.Add({carried}, {self.operand(e2, cty, 1)})"))
        body.append(("assign", cnt, f"({cnt} + 1)"))
        body.append(("assign", cv, f"({cnt} < {n})"))
        if self.rng.random() < 0.4:
            # trailing `if b: break` in a while loop: both exits (condition, break) stay reachable
            # (cond_out = And(c, Not(b)) since ddfea30; formerly finding C01-D27)
            bv = next((v for v in self.fresh["B"] if v not in e2), None)
            if bv:
                src = carried if cty == "S" else f"op.ReduceSum({carried}, keepdims=0)"
                body.append(("assign", bv, f"({src} > {self.rng.choice(['4.0', '10.0', '0.0'])})"))
                body.append(("break", bv))
                self.p.features.add("while-break")
        self.loopvars_in_scope = self.loopvars_in_scope[:-2]
        env[cnt] = "I"
        env[cv] = "B"
        self.must_use = [m for m in saved_must if m in env]
        if carried not in self.must_use:
            self.must_use.append(carried)
        self.p.features.add("while")
        self.last_result = carried
        return ("seq", pre + [("while", cv, body)])

    def gen_block(self, env, depth, n):
        out = []
        for _ in range(n):
            r = self.rng.random()
            st = None
            if depth < self.max_depth and r < 0.22:
                st = self.gen_if(env, depth)
            elif depth < self.max_depth and r < 0.36:
                st = self.gen_for(env, depth)
            elif depth < self.max_depth and r < 0.42:
                st = self.gen_while(env, depth)
            elif r < 0.48:
                st = self.gen_tuple(env)
            elif r < 0.53:
                st = self.gen_par(env)
            if st is None:
                st = self.gen_assign(env, depth)
            if st is None:
                continue
            if st[0] == "seq":
                out.extend(st[1])
            else:
                out.append(st)
            if st[0] in ("if", "for", "seq") and (depth > 0 or self.rng.random() < 0.3):
                # the value a control-flow statement produces must be read afterwards, or the converter
                # (rightly) refuses an `if` without live outputs; inside nested blocks read it at once
                res = self.last_result
                if res in env:
                    ty = env[res]
                    tgt = self.target(env, ty, avoid=(res,))
                    if tgt:
                        out.append(("assign", tgt, f"op.Add({self.use(res)}, {self.operand(env, ty, 1)})"))
                        env[tgt] = ty
        return out

    # ---- whole program --------------------------------------------------------------------
    def program(self, name: str) -> Prog:
        rng = self.rng
        p = self.p
        p.name = name
        p.shape = rng.choice(SHAPES)
        self.loopvars_in_scope: list[str] = []
        nt = rng.choice([1, 2, 2, 3])
        p.params = [(n, "T") for n in ["A", "B", "C"][:nt]]
        if rng.random() < 0.6:
            p.params.append(("n", "I"))
        if rng.random() < 0.5:
            p.params.append(("c", "B"))
        if rng.random() < 0.25:
            p.params.append(("s", "S"))
        if rng.random() < 0.4:
            p.params.append(("K", "N"))
        na = rng.choice([0, 0, 1, 1, 2])
        kinds = rng.sample(["float", "int", "bool", "float"], na)
        names = {"float": ["alpha", "beta"], "int": ["k"], "bool": ["flag"]}
        used = set()
        for kd in kinds:
            nm = next(x for x in names[kd] if x not in used)
            used.add(nm)
            default = None
            if rng.random() < 0.5:
                default = {"float": rng.choice([0.5, 2.0, -1.0]), "int": rng.choice([0, 1, 2, 3]),
                           "bool": rng.choice([True, False])}[kd]
            p.attrs.append((nm, kd, default))
        # attributes with defaults must follow those without (Python syntax)
        p.attrs.sort(key=lambda a: a[2] is not None)
        env = {n: t for n, t in p.params}
        body = []
        if rng.random() < 0.2:
            body.append(("doc", "generated"))
            p.features.add("docstring")
        if rng.random() < 0.25:
            cn = rng.choice(["two", "half"])
            self.castable_consts[cn] = "S"
            body.append(("assign", cn, rng.choice(["2.0", "0.5", "3", "-1.5"])))
            p.features.add("toplevel-literal-var")
        # one seed definition so that targets exist
        body.append(("assign", "x", self.expr(env, "T", 1) if rng.random() < 0.7 else "op.Identity(A)"))
        env["x"] = "T"
        body += self.gen_block(env, 0, rng.randint(1, 5))
        # returns
        nret = rng.choice([1, 1, 2, 3])
        rets = []
        for v in list(self.must_use)[:3]:
            if v in env and env[v] in ("T", "S"):
                rets.append((v, env[v]))
        while len(rets) < nret:
            ty = rng.choice(["T", "T", "S", "B"])
            if self.vars_of(env, "N") and rng.random() < 0.3:
                ty = "N"
            r = rng.random()
            if r < 0.12:
                rets.append((rng.choice([n for n, t in p.params if t == "T"]), "T"))
                p.features.add("return-input")
            elif r < 0.2 and rets:
                rets.append(rets[0])
                p.features.add("return-duplicate")
            else:
                rets.append((self.expr(env, ty, 1), ty))
        rng.shuffle(rets)
        p.rets = rets[:3] if len(rets) > 3 else rets
        # any must-use variable not returned is folded into the first T/S return
        rest = [v for v in self.must_use if v in env and all(v != r[0] for r in p.rets) and env[v] in ("T", "S")]
        for v in rest:
            for k, (src, ty) in enumerate(p.rets):
                if ty == "T" or (ty == "S" and env[v] == "S"):
                    p.rets[k] = (f"op.Add({src}, {v})", ty)
                    break
            else:
                p.rets.append((v, env[v]))
        p.annot_ret = rng.random() < 0.6
        p.body = body
        return p


def _is_lit(s: str) -> bool:
    try:
        float(s)
        return True
    except ValueError:
        return False


def ast_is_name(s: str) -> bool:
    return s.isidentifier()


# =========================================================================== source printer


def render_block(stmts, ind: int) -> list[str]:
    pad = "    " * ind
    out = []
    for st in stmts:
        k = st[0]
        if k == "assign":
            out.append(f"{pad}{st[1]} = {st[2]}")
        elif k == "doc":
            out.append(f'{pad}"""{st[1]}"""')
        elif k == "tuple":
            out.append(f"{pad}{', '.join(st[1])} = {st[2]}")
        elif k == "par":
            out.append(f"{pad}{', '.join(st[1])} = {', '.join(st[2])}")
        elif k == "if":
            out.append(f"{pad}if {st[1]}:")
            out += render_block(st[2], ind + 1)
            if st[3]:
                out.append(f"{pad}else:")
                out += render_block(st[3], ind + 1)
        elif k == "for":
            out.append(f"{pad}for {st[1]} in range({st[2]}):")
            out += render_block(st[3], ind + 1)
        elif k == "while":
            out.append(f"{pad}while {st[1]}:")
            out += render_block(st[2], ind + 1)
        elif k == "break":
            out.append(f"{pad}if {st[1]}:")
            out.append(f"{pad}    break")
        elif k == "raw":
            out += [pad + ln for ln in st[1]]
        elif k == "return":
            out.append(f"{pad}return {', '.join(st[1])}")
        else:
            raise ValueError(k)
    return out


def render(p: Prog) -> str:
    sig = [f"{n}: {ann_of(t, p.shape)}" for n, t in p.params]
    for n, k, d in p.attrs:
        sig.append(f"{n}: {k}" + (f" = {d!r}" if d is not None else ""))
    ret = ""
    if p.annot_ret:
        anns = [ann_of(t, p.shape) for _, t in p.rets]
        ret = " -> " + (anns[0] if len(anns) == 1 else "Tuple[" + ", ".join(anns) + "]")
    lines = ["@script(default_opset=op)", f"def {p.name}({', '.join(sig)}){ret}:"]
    lines += render_block(p.body, 1)
    lines.append("    return " + ", ".join(r for r, _ in p.rets))
    return "\n".join(lines) + "\n"


def generate(rng, name: str, subscripts: bool = False) -> Prog:
    for _ in range(50):
        g = Gen(rng, subscripts=subscripts)
        try:
            p = g.program(name)
        except (IndexError, StopIteration):
            continue
        p.src = render(p)
        try:
            ast.parse(p.src)
        except SyntaxError:
            continue
        if excluded_by_known_findings(p.src):
            continue
        return p
    raise RuntimeError("generator could not produce a program")


# =========================================================================== known-finding predicates
#
# Each predicate is a *syntactic* region of programs, computed from the source alone (never
# from /repo), in which a reproduced defect of the converter lives.  The generator stays out
# of these regions; the witnesses are replayed separately (harness/corpus_c01.jsonl).


def _names(e) -> set:
    return {n.id for n in ast.walk(e) if isinstance(n, ast.Name)}


def _assigned(stmts) -> set:
    out = set()
    for s in stmts:
        for n in ast.walk(s):
            if isinstance(n, ast.Assign):
                for t in n.targets:
                    out |= {x.id for x in ast.walk(t) if isinstance(x, ast.Name)}
            elif isinstance(n, ast.For) and isinstance(n.target, ast.Name):
                out.add(n.target.id)
    return out


def _is_break_if(s) -> bool:
    return isinstance(s, ast.If) and len(s.body) == 1 and isinstance(s.body[0], ast.Break)


def _is_castable_rhs(e, castable: set) -> bool:
    if isinstance(e, ast.Constant) and isinstance(e.value, (int, float, bool)):
        return True
    if isinstance(e, ast.UnaryOp) and isinstance(e.op, ast.USub) and isinstance(e.operand, ast.Constant):
        return True
    if isinstance(e, ast.Name) and e.id in castable:
        return True
    return False


def pred_d25(fn: ast.FunctionDef) -> bool:
    """parallel assignment `a, b = e1, e2` in which a later right-hand side reads an earlier target"""
    for n in ast.walk(fn):
        if isinstance(n, ast.Assign) and len(n.targets) == 1 and isinstance(n.targets[0], ast.Tuple) \
                and isinstance(n.value, ast.Tuple):
            tg = [t.id for t in n.targets[0].elts if isinstance(t, ast.Name)]
            for j, r in enumerate(n.value.elts):
                if _names(r) & set(tg[:j]):
                    return True
    return False


def pred_d27(fn: ast.FunctionDef) -> bool:
    """`while` loop whose body ends in `if b: break` (the emitted cond_out ignores the while condition)"""
    for n in ast.walk(fn):
        if isinstance(n, ast.While) and any(_is_break_if(s) for s in n.body):
            return True
    return False


def pred_d24(fn: ast.FunctionDef) -> bool:
    """a variable bound to a polymorphic constant (bare literal, negated literal, attribute parameter,
    or an alias of one) crosses a control-flow boundary: it is (re)assigned inside an if/for/while, or it
    is assigned at top level and also assigned inside a loop (carried)"""
    attrs = {a.arg for a in fn.args.args if a.annotation is not None and ast.unparse(a.annotation) in
             ("float", "int", "bool")}
    castable = set(attrs)
    inner_castable_assign = False

    def visit(stmts, inside: bool):
        nonlocal inner_castable_assign
        for s in stmts:
            if isinstance(s, ast.Assign) and len(s.targets) == 1 and isinstance(s.targets[0], ast.Name):
                if _is_castable_rhs(s.value, castable):
                    castable.add(s.targets[0].id)
                    if inside:
                        inner_castable_assign = True
            elif isinstance(s, ast.If):
                visit(s.body, True)
                visit(s.orelse, True)
            elif isinstance(s, (ast.For, ast.While)):
                visit(s.body, True)

    visit(fn.body, False)
    if inner_castable_assign:
        return True
    top_castable = castable - attrs
    for n in ast.walk(fn):
        if isinstance(n, (ast.For, ast.While, ast.If)):
            blocks = [n.body] + ([n.orelse] if isinstance(n, ast.If) else [])
            for b in blocks:
                if _assigned(b) & top_castable:
                    return True
    return False


def pred_d26(fn: ast.FunctionDef) -> bool:
    """a tensor parameter is re-assigned while an alias of its incoming value is returned"""
    params = {a.arg for a in fn.args.args}
    reassigned = _assigned(fn.body) & params
    if not reassigned:
        return False
    aliases = {}
    for n in ast.walk(fn):
        if isinstance(n, ast.Assign) and len(n.targets) == 1 and isinstance(n.targets[0], ast.Name) \
                and isinstance(n.value, ast.Name) and n.value.id in reassigned:
            aliases[n.targets[0].id] = n.value.id
    if not aliases:
        return False
    for n in ast.walk(fn):
        if isinstance(n, ast.Return) and n.value is not None and _names(n.value) & set(aliases):
            return True
    return False


# ---- C01-D23: liveness of loops ignores the zero-trip path and the loop bound.  The region is computed
# by running two liveness analyses written here (not imported from /repo): `pinned` restates the
# equations of analysis.py at the pinned commit, `exact` adds the zero-trip path and the loop bound.
# A program is inside the region when some If / Loop selects different outputs / state under the two.


def _uses(e) -> set:
    if e is None:
        return set()
    if isinstance(e, ast.Name):
        return {e.id}
    out = set()
    if isinstance(e, ast.Call):
        ch = list(e.args)
        for kw in e.keywords:
            if isinstance(kw.value, ast.Name):
                out.add(kw.value.id)
    else:
        ch = list(ast.iter_child_nodes(e))
    for c in ch:
        out |= _uses(c)
    return out


def _lhs(s) -> set:
    t = s.targets[0]
    return {x.id for x in (t.elts if isinstance(t, ast.Tuple) else [t]) if isinstance(x, ast.Name)}


def _live_in(s, lo: set, exact: bool, rec: dict) -> set:
    rec[id(s)] = set(lo)
    if isinstance(s, ast.Assign):
        return (lo - _lhs(s)) | _uses(s.value)
    if isinstance(s, ast.Return):
        return _uses(s.value)
    if isinstance(s, ast.If):
        return _live_block(s.body, lo, exact, rec) | _live_block(s.orelse, lo, exact, rec) | _uses(s.test)
    if isinstance(s, ast.For):
        iv = {s.target.id} if isinstance(s.target, ast.Name) else set()
        prev, curr = None, set(lo)
        while curr != prev:
            prev = curr
            curr = _live_block(s.body, prev, exact, rec) - iv
            if exact:
                curr = curr | lo | _uses(s.iter)
        return curr
    if isinstance(s, ast.While):
        cv = _uses(s.test)
        prev, curr = None, set(lo) | cv
        while curr != prev:
            prev = curr
            curr = _live_block(s.body, prev, exact, rec) | cv
            if exact:
                curr = curr | lo
        return curr
    return set(lo)


def _live_block(ss, lo: set, exact: bool, rec: dict) -> set:
    for s in reversed(ss):
        lo = _live_in(s, lo, exact, rec)
    return lo


def pred_d23(fn: ast.FunctionDef) -> bool:
    rec_p: dict = {}
    rec_e: dict = {}
    _live_block(fn.body, set(), False, rec_p)
    _live_block(fn.body, set(), True, rec_e)
    for n in ast.walk(fn):
        if isinstance(n, (ast.If, ast.For, ast.While)) and id(n) in rec_p and id(n) in rec_e:
            if isinstance(n, ast.If):
                defs = _assigned(n.body) | _assigned(n.orelse)
            else:
                defs = _assigned(n.body)
            if (rec_p[id(n)] & defs) != (rec_e[id(n)] & defs):
                return True
    return False


def pred_d28(fn: ast.FunctionDef) -> bool:
    """Python `not` applied to a tensor expression (eager mode yields a Python bool, the graph an ONNX Not)"""
    return any(isinstance(n, ast.UnaryOp) and isinstance(n.op, ast.Not) for n in ast.walk(fn))


def pred_d29(fn: ast.FunctionDef) -> bool:
    """another script function is called inside an if/for/while body but nowhere at the top level of the
    function body (the FunctionProto then lacks the opset import of the callee's domain)"""

    def calls(node) -> bool:
        return any(isinstance(n, ast.Call) and isinstance(n.func, ast.Name) and n.func.id in HELPER_PARAMS
                   for n in ast.walk(node))

    top = False
    inner = False
    for s in fn.body:
        if isinstance(s, (ast.If, ast.For, ast.While)):
            hdr = [s.test] if isinstance(s, (ast.If, ast.While)) else [s.iter]
            if any(calls(h) for h in hdr):
                top = True
            blocks = s.body + (s.orelse if hasattr(s, "orelse") else [])
            if any(calls(b) for b in blocks):
                inner = True
        elif calls(s):
            top = True
    return inner and not top


def pred_d30(fn: ast.FunctionDef) -> bool:
    """inside an if-branch or loop body, `z = x` (plain-name right-hand side) where `x` is itself assigned in
    that body: both Python variables are bound to one ONNX value, which the subgraph then lists twice as output"""
    for n in ast.walk(fn):
        if isinstance(n, (ast.If, ast.For, ast.While)):
            blocks = [n.body] + ([n.orelse] if isinstance(n, ast.If) else [])
            for b in blocks:
                assigned_here = _assigned(b)
                for s in b:
                    for a in ast.walk(s):
                        if isinstance(a, ast.Assign) and len(a.targets) == 1 and isinstance(a.value, ast.Name) \
                                and a.value.id in assigned_here:
                            return True
    return False


def pred_d31(fn: ast.FunctionDef) -> bool:
    """the target name of a `for` loop also occurs outside the bodies of the loops it is the target of (Python
    leaves the last index in it; the converter keeps the pre-loop binding)"""
    loops = [l for l in ast.walk(fn) if isinstance(l, ast.For) and isinstance(l.target, ast.Name)]
    for name in {l.target.id for l in loops}:
        covered = set()
        for l in loops:
            if l.target.id == name:
                covered.add(id(l.target))
                for b in l.body:
                    covered |= {id(n) for n in ast.walk(b)}
        if any(isinstance(n, ast.Name) and n.id == name and id(n) not in covered for n in ast.walk(fn)):
            return True
    return False


def pred_d33(fn: ast.FunctionDef) -> bool:
    """a top-level `return` that is not the last statement of the function body"""
    return any(isinstance(s, ast.Return) for s in fn.body[:-1])


def _int_names(fn: ast.FunctionDef) -> set:
    """names that (syntactically) hold integer tensors: INT64-annotated parameters and variables assigned
    from expressions built only from such names, integer literals and type-preserving operators"""
    ints = {a.arg for a in fn.args.args if a.annotation is not None and ast.unparse(a.annotation).startswith("INT64")}

    def is_int(e) -> bool:
        if isinstance(e, ast.Name):
            return e.id in ints
        if isinstance(e, ast.Constant):
            return isinstance(e.value, int) and not isinstance(e.value, bool)
        if isinstance(e, ast.UnaryOp):
            return is_int(e.operand)
        if isinstance(e, ast.BinOp):
            return is_int(e.left) and is_int(e.right) and not (isinstance(e.left, ast.Constant) and isinstance(e.right, ast.Constant))
        if isinstance(e, ast.Call) and isinstance(e.func, ast.Attribute) and e.func.attr in ("Abs", "Neg", "Identity"):
            return all(is_int(a) for a in e.args)
        return False

    for _ in range(3):
        for n in ast.walk(fn):
            if isinstance(n, ast.Assign) and len(n.targets) == 1 and isinstance(n.targets[0], ast.Name) and is_int(n.value):
                ints.add(n.targets[0].id)
    return ints, is_int


def pred_d36(fn: ast.FunctionDef) -> bool:
    """`x % <int literal>` where `x` is not an integer tensor expression (the literal is cast to float and
    ONNX Mod on floats needs fmod=1, which the converter only sets for a float literal)"""
    _, is_int = _int_names(fn)
    for n in ast.walk(fn):
        if isinstance(n, ast.BinOp) and isinstance(n.op, ast.Mod):
            r = n.right
            if isinstance(r, ast.UnaryOp):
                r = r.operand
            if isinstance(r, ast.Constant) and isinstance(r.value, int) and not isinstance(r.value, bool) \
                    and not is_int(n.left):
                return True
    return False


# C01-D23, D25, D26, D30 are fixed in /repo (4304e8f, 87ad64d, 3b56caa, cbb81e7): their regions are generated again
# (the predicates stay available as `FIXED_PREDICATES` for the evidence histogram).
def pred_d37(fn: ast.FunctionDef) -> bool:
    """C01-D37: a subscript whose every index is `:` (`A[:]`, `A[:, :]`)."""
    for n in ast.walk(fn):
        if isinstance(n, ast.Subscript) and isinstance(n.ctx, ast.Load):
            elts = n.slice.elts if isinstance(n.slice, ast.Tuple) else [n.slice]
            if elts and all(isinstance(e, ast.Slice) and e.lower is None and e.upper is None and e.step is None
                            for e in elts):
                return True
    return False


def _exposed(ss, lo: set) -> set:
    """`exposed_uses` of analysis.py, restated here (not imported from /repo)."""
    for s in reversed(ss):
        if isinstance(s, ast.Assign):
            lo = (lo - _lhs(s)) | _uses(s.value)
        elif isinstance(s, ast.Return):
            lo = _uses(s.value)
        elif isinstance(s, ast.If):
            if _is_break_if(s):
                lo = lo | _uses(s.test)
            else:
                lo = _exposed(s.body, lo) | _exposed(s.orelse, lo) | _uses(s.test)
        elif isinstance(s, ast.For):
            iv = {s.target.id} if isinstance(s.target, ast.Name) else set()
            lo = (_exposed(s.body, set()) - iv) | _uses(s.iter) | (lo - iv)
        elif isinstance(s, ast.While):
            lo = _exposed(s.body, set()) | _uses(s.test) | lo
    return lo


def pred_d38(fn: ast.FunctionDef) -> bool:
    """C01-D38: a for/while loop without any state variable — nothing assigned in its body is read before its
    assignment in the body (exposed) or live after the loop."""
    rec: dict = {}
    _live_block(fn.body, set(), True, rec)
    for n in ast.walk(fn):
        if isinstance(n, (ast.For, ast.While)) and id(n) in rec:
            if not (_assigned(n.body) & (_exposed(n.body, set()) | rec[id(n)])):
                return True
    return False


def pred_d39(fn: ast.FunctionDef) -> bool:
    """C01-D39: a variable named `infinite_loop` in a function with a `while` loop (the converter binds that name
    to the iteration counter inside the loop body)."""
    return any(isinstance(n, ast.While) for n in ast.walk(fn)) and any(
        isinstance(n, ast.Name) and n.id == "infinite_loop" for n in ast.walk(fn))


def pred_d41(fn: ast.FunctionDef) -> bool:
    """C01-D41: the function has attribute parameters and every one of them has a default (to_model_proto exports it,
    leaving references to the attribute parameters in the main graph)."""
    args = fn.args.args
    defaults = [None] * (len(args) - len(fn.args.defaults)) + list(fn.args.defaults)
    attrs = [(a, d) for a, d in zip(args, defaults)
             if a.annotation is not None and ast.unparse(a.annotation) in ("float", "int", "bool", "str")]
    return bool(attrs) and all(d is not None for _, d in attrs)


def _op_calls(fn: ast.FunctionDef):
    for n in ast.walk(fn):
        if isinstance(n, ast.Call) and isinstance(n.func, ast.Attribute) and isinstance(n.func.value, ast.Name):
            yield n


def pred_d43(fn: ast.FunctionDef) -> bool:
    """an operator input given by keyword after an omitted optional input (`op.Clip(x, max=hi)`)"""
    for c in _op_calls(fn):
        names = op_input_names(c.func.attr, OPSET_VERSION_OF.get(c.func.value.id, 18))
        have = set(range(len(c.args))) | {names.index(k.arg) for k in c.keywords if k.arg in names}
        if any(k.arg in names and any(j not in have for j in range(names.index(k.arg))) for k in c.keywords):
            return True
    return False


def pred_d44(fn: ast.FunctionDef) -> bool:
    """a loop body ending in `if b: break` with an else branch"""
    return any(isinstance(n, (ast.For, ast.While)) and n.body and _is_break_if(n.body[-1]) and n.body[-1].orelse
               for n in ast.walk(fn))


def pred_d45(fn: ast.FunctionDef, outer_names=()) -> bool:
    """`if p:` on a parameter whose name is also bound in the enclosing scopes"""
    params = {a.arg for a in fn.args.args}
    return any(isinstance(n, ast.If) and isinstance(n.test, ast.Name) and n.test.id in params
               and n.test.id in outer_names for n in ast.walk(fn))


MULTI_OUTPUT_OPS = {"Dropout", "MaxPool", "BatchNormalization", "LayerNormalization", "TopK", "Split", "Unique"}


def pred_d46(fn: ast.FunctionDef) -> bool:
    """a single target assigned from an operator with several outputs (`y = op.Dropout(x)`)"""
    return any(isinstance(n, ast.Assign) and isinstance(n.targets[0], ast.Name) and isinstance(n.value, ast.Call)
               and isinstance(n.value.func, ast.Attribute) and n.value.func.attr in MULTI_OUTPUT_OPS
               for n in ast.walk(fn))


def pred_d47(fn: ast.FunctionDef) -> bool:
    """a Python literal beside a tensor operand of an operator taken from an opset older than 15 (no CastLike)"""
    old = {a for a, v in OPSET_VERSION_OF.items() if v < 15}
    for c in _op_calls(fn):
        if c.func.value.id in old and any(isinstance(a, ast.Constant) or
                                          (isinstance(a, ast.UnaryOp) and isinstance(a.operand, ast.Constant))
                                          for a in c.args):
            return True
    return False


def pred_d48(fn: ast.FunctionDef) -> bool:
    """a comparison (or `not`) whose only variables are `for` loop indices: a Python bool in eager mode"""
    loopvars = {n.target.id for n in ast.walk(fn) if isinstance(n, ast.For) and isinstance(n.target, ast.Name)}
    for n in ast.walk(fn):
        if isinstance(n, ast.Compare):
            names = {x.id for x in ast.walk(n) if isinstance(x, ast.Name)}
            if names and names <= loopvars and not any(isinstance(x, ast.Call) for x in ast.walk(n)):
                return True
    return False


PREDICATES = {"C01-D24": pred_d24, "C01-D28": pred_d28, "C01-D36": pred_d36, "C01-D46": pred_d46, "C01-D48": pred_d48}
# a predicate that only explains failures of a particular kind (substring of the failure text)
FAILURE_FILTER: dict = {"C01-D48": ["eager fails (ERR TypeError: Unexpected type <class 'bool'>"]}
FIXED_PREDICATES = {"C01-D23": pred_d23, "C01-D25": pred_d25, "C01-D26": pred_d26, "C01-D30": pred_d30,
                    "C01-D27": pred_d27, "C01-D29": pred_d29, "C01-D37": pred_d37, "C01-D39": pred_d39,
                    "C01-D41": pred_d41, "C01-D43": pred_d43, "C01-D47": pred_d47}
# regions the converter REFUSES since 9b326d7 / 9f69276 / fc696f7 (formerly findings C01-D31 / C01-D33 / C01-D38): the
# generator of accepted programs stays out of them; they are exercised as near-miss kinds (`loop-var-read-after-loop`,
# `return-not-last`, `loop-without-state`) and by the corpus witnesses w_d31 / w_d33 / w_d38
REFUSED_REGIONS = {"C01-D31": pred_d31, "C01-D33": pred_d33, "C01-D38": pred_d38, "C01-D44": pred_d44}


def classify_known(src: str) -> list[str]:
    try:
        fn = next(n for n in ast.parse(src).body if isinstance(n, ast.FunctionDef))
    except Exception:
        return []
    return [k for k, pr in PREDICATES.items() if pr(fn)]


def excluded_by_known_findings(src: str) -> bool:
    if classify_known(src):
        return True
    try:
        fn = next(n for n in ast.parse(src).body if isinstance(n, ast.FunctionDef))
    except Exception:
        return False
    return any(pr(fn) for pr in REFUSED_REGIONS.values())


# =========================================================================== near-miss mutations (C02)


def near_misses(rng, p: Prog) -> list[tuple[str, str, str]]:
    """[(kind, expected exception class, source)] — each one grammar-violating edit of program p."""
    out = []
    base_sig = p.src.split("\n")[1]
    dec = "@script(default_opset=op)"
    T = [n for n, t in p.params if t == "T"]
    a = T[0]
    cond = next((n for n, t in p.params if t == "B"), None)
    condsrc = cond if cond else f"(op.ReduceSum({a}, keepdims=0) > 0.0)"
    nsrc = next((n for n, t in p.params if t == "I"), "2")
    hdr = f"{dec}\n{_strip_ret(base_sig)}\n"

    def mk(kind, cls, body):
        out.append((kind, cls, hdr + "".join("    " + ln + "\n" for ln in body)))

    mk("unbound-on-a-path", "TranslationError",
       [f"if {condsrc}:", f"    x = op.Neg({a})", "else:", f"    y = op.Abs({a})", "return op.Add(x, y)"])
    mk("unbound-name", "ValueError", [f"x = op.Add({a}, undefined_name)", "return x"])
    mk("return-inside-branch", "ValueError",
       [f"x = op.Neg({a})", f"if {condsrc}:", "    return x", "else:", f"    x = op.Abs({a})", "return x"])
    mk("return-inside-loop", "ValueError",
       [f"x = op.Neg({a})", f"for i in range({nsrc}):", "    x = op.Abs(x)", "    return x", "return x"])
    mk("multi-assignment", "TranslationError", [f"x = y = op.Neg({a})", "return x"])
    mk("non-range-loop", "TranslationError",
       [f"x = op.Neg({a})", f"for i in enumerate({nsrc}):", "    x = op.Abs(x)", "return x"])
    mk("range-two-args", "TranslationError",
       [f"x = op.Neg({a})", f"for i in range(0, {nsrc}):", "    x = op.Abs(x)", "return x"])
    mk("break-not-last", "TranslationError",
       [f"x = op.Neg({a})", f"for i in range({nsrc}):", "    b = op.ReduceSum(x, keepdims=0) > 1.0",
        "    if b:", "        break", "    x = op.Abs(x)", "return x"])
    mk("break-condition-not-name", "TranslationError",
       [f"x = op.Neg({a})", f"for i in range({nsrc}):", "    x = op.Abs(x)",
        "    if op.ReduceSum(x, keepdims=0) > 1.0:", "        break", "return x"])
    mk("tuple-arity", "TranslationError", [f"x, y = op.Neg({a}), op.Abs({a}), op.Relu({a})", "return x"])
    mk("tuple-into-single", "TranslationError", [f"x = op.Neg({a}), op.Abs({a})", "return x"])
    mk("unpack-non-call", "TranslationError", [f"x, y = {a}", "return x"])
    mk("augmented-assignment", "ValueError", [f"x = op.Neg({a})", f"x += {a}", "return x"])
    mk("pass-statement", "ValueError", [f"x = op.Neg({a})", "pass", "return x"])
    mk("while-non-name-condition", "TranslationError",
       [f"x = op.Neg({a})", "while op.ReduceSum(x, keepdims=0) < 1.0:", "    x = op.Abs(x)", "return x"])
    mk("boolop-expression", "ValueError", [f"x = op.Neg({a})", f"y = x and {a}", "return y"])
    mk("bare-return", "TranslationError", [f"x = op.Neg({a})", "return"])
    mk("if-without-live-output", "TranslationError",
       [f"x = op.Neg({a})", f"if {condsrc}:", f"    y = op.Abs({a})", "else:", f"    y = op.Relu({a})", "return x"])
    mk("while-condition-not-updated", "TranslationError",
       [f"x = op.Neg({a})", "go = op.ReduceSum(x, keepdims=0) < 1.0", "while go:", "    x = op.Abs(x)", "return x"])
    mk("loop-var-read-after-loop", "TranslationError",
       [f"x = op.Neg({a})", f"i = op.Abs({a})", f"for i in range({nsrc}):", "    x = op.Abs(x)", "return op.Add(x, i)"])
    mk("loop-without-state", "TranslationError",
       [f"x = op.Neg({a})", f"for i in range({nsrc}):", f"    x = op.Abs({a})", f"x = op.Relu({a})", "return x"])
    mk("return-not-last", "TranslationError", [f"x = op.Neg({a})", "return x", f"return op.Abs({a})"])
    mk("loop-var-first-defined-in-loop", "ValueError",
       [f"for i in range({nsrc}):", f"    y = op.Abs({a})", "return y"])
    # two versions of the default-domain opset in one function (default_opset is opset18)
    mk("mixed-opset-top-level", "TranslationError", [f"x = opset17.Abs({a})", "return op.Neg(x)"])
    mk("mixed-opset-in-branch", "TranslationError",
       [f"if {condsrc}:", f"    x = opset19.Abs({a})", "else:", f"    x = op.Neg({a})", "return x"])
    mk("mixed-opset-in-loop", "TranslationError",
       [f"x = op.Neg({a})", f"for i in range({nsrc}):", "    x = opset17.Relu(x)", "return x"])
    mk("mixed-opset-in-operand", "TranslationError", [f"x = op.Add({a}, opset20.Abs({a}))", "return x"])
    mk("tensor-as-attribute", "TranslationError", [f"x = op.LeakyRelu({a}, alpha={a})", "return x"])
    # annotation arity mismatch -> SyntaxError from check_num_outputs
    out.append(("return-arity-vs-annotation", "SyntaxError",
                f"{dec}\n{_strip_ret(base_sig)[:-1]} -> FLOAT:\n    x = op.Neg({a})\n    return x, x\n"))
    rng.shuffle(out)
    return out


def _strip_ret(sig_line: str) -> str:
    if ") ->" in sig_line:
        return sig_line[: sig_line.index(") ->") + 1] + ":"
    return sig_line


# =========================================================================== inputs


def gen_inputs(rng, p_params, p_attrs, shape, k: int):
    """k input sets: dict name->np.ndarray for tensors, dict for attributes."""
    sets = []
    for j in range(k):
        feeds = {}
        for n, t in p_params:
            if t == "T":
                size = int(np.prod(shape)) if shape else 1
                vals = [rng.choice([0.0, 1.0, -1.0, 2.0, 0.5, -2.5, 3.0, 7.0]) for _ in range(size)]
                feeds[n] = np.array(vals, dtype=np.float32).reshape(shape)
            elif t == "N":
                size = int(np.prod(shape)) if shape else 1
                vals = [rng.choice([-7, -3, -1, 0, 1, 2, 4, 9]) for _ in range(size)]
                feeds[n] = np.array(vals, dtype=np.int64).reshape(shape)
            elif t == "S":
                feeds[n] = np.array(rng.choice([0.0, 1.0, -1.5, 4.0]), dtype=np.float32)
            elif t == "B":
                feeds[n] = np.array(bool((j + rng.randint(0, 1)) % 2))
            elif t == "I":
                feeds[n] = np.array([0, 1, 2, 3][(j + rng.randint(0, 1)) % 4], dtype=np.int64)
        attrs = {}
        for n, kd, d in p_attrs:
            if d is not None and rng.random() < 0.4:
                continue  # use the default
            attrs[n] = {"float": rng.choice([0.5, 2.0, -1.0, 0.0]), "int": rng.choice([0, 1, 2, 3]),
                        "bool": rng.choice([True, False])}[kd]
        sets.append((feeds, attrs))
    return sets


# =========================================================================== NumPy interpreter of the source


OPSET_VERSION_OF = {"op": 18, "opset11": 11, "opset12": 12, "opset13": 13, "opset17": 17, "opset18": 18,
                    "opset19": 19, "opset20": 20, "opset21": 21}


_OP_INPUTS: dict = {}


def op_input_names(opname: str, ver: int = 18) -> list[str]:
    """Names of the formal inputs of an ONNX operator (installed onnx schemas)."""
    key = (opname, ver)
    if key not in _OP_INPUTS:
        try:
            import onnx

            _OP_INPUTS[key] = [i.name for i in onnx.defs.get_schema(opname, ver, "").inputs]
        except Exception:
            _OP_INPUTS[key] = []
    return _OP_INPUTS[key]


class Interp:
    """Reads the function's `ast` as ordinary Python control flow over NumPy arrays, every operator and
    op call denoting the ONNX operator it is documented to map to.  Python literals (and attribute
    parameters) stay Python scalars until an operator consumes them, where they take the dtype of the
    tensor sibling sharing their type variable (`promote`)."""

    class _Return(Exception):
        def __init__(self, v):
            self.v = v

    class _Break(Exception):
        pass

    def __init__(self, helpers: dict[str, ast.FunctionDef], free: dict | None = None):
        self.helpers = helpers
        # names the function reads from its surroundings (closure variables / module globals), already
        # resolved by Python's scoping rule
        self.free = dict(free or {})

    # ---- helpers
    @staticmethod
    def is_py(v):
        return isinstance(v, (bool, int, float))

    @staticmethod
    def default_tensor(v):
        if isinstance(v, bool):
            return np.array(v, dtype=np.bool_)
        if isinstance(v, int):
            return np.array(v, dtype=np.int64)
        if isinstance(v, float):
            return np.array(v, dtype=np.float32)
        return v

    def promote(self, vals, groups=None):
        """vals: list; groups: list of type-variable ids (same id = same type)."""
        groups = groups or [0] * len(vals)
        out = []
        for v, g in zip(vals, groups):
            if self.is_py(v):
                sib = [w for w, h in zip(vals, groups) if h == g and not self.is_py(w) and w is not None]
                out.append(np.array(v, dtype=sib[-1].dtype) if sib else self.default_tensor(v))
            else:
                out.append(v)
        return out

    def truth(self, v) -> bool:
        a = np.asarray(v)
        return bool(a.reshape(-1)[0]) if a.size == 1 else bool(a)

    # ---- operators
    def op(self, name, args, kw, ver: int = 18):
        f32 = np.float32
        if name in ("Softmax", "LogSoftmax"):
            # opset < 13: coerce to 2-D at `axis` (default 1); opset >= 13: along `axis` (default -1) only
            a = self.promote(args[:1])[0]
            if ver < 13:
                ax = int(kw.get("axis", 1))
                ax = ax + a.ndim if ax < 0 else ax
                flat = a.reshape(int(np.prod(a.shape[:ax], dtype=np.int64)), -1)
                red = 1
            else:
                ax = int(kw.get("axis", -1))
                flat, red = a, ax
            e = np.exp(flat - flat.max(axis=red, keepdims=True))
            r = e / e.sum(axis=red, keepdims=True)
            if name == "LogSoftmax":
                r = np.log(r)
            return r.reshape(a.shape).astype(a.dtype)
        if name in ("Add", "Sub", "Mul"):
            a, b = self.promote(args)
            fn = {"Add": np.add, "Sub": np.subtract, "Mul": np.multiply}[name]
            return fn(a, b).astype(a.dtype if a.dtype == b.dtype else np.result_type(a, b))
        if name == "Div":
            a, b = self.promote(args)
            if a.dtype.kind in "iu":
                return np.trunc(np.divide(a, b)).astype(a.dtype)  # ONNX integer division truncates
            return np.divide(a, b).astype(a.dtype)
        if name == "Mod":
            a, b = self.promote(args)
            if a.dtype.kind == "f" or int(kw.get("fmod", 0)) == 1:
                return np.fmod(a, b).astype(a.dtype)  # C fmod: sign of the dividend (required for floats)
            return np.mod(a, b).astype(a.dtype)  # integer Mod, fmod=0: sign of the divisor (Python's %)
        if name == "Pow":
            a, b = self.promote(args, [0, 1])
            return np.power(a, b).astype(a.dtype)
        if name == "MatMul":
            a, b = self.promote(args)
            return np.matmul(a, b).astype(a.dtype)
        if name in ("Less", "Greater", "LessOrEqual", "GreaterOrEqual", "Equal"):
            a, b = self.promote(args)
            fn = {"Less": np.less, "Greater": np.greater, "LessOrEqual": np.less_equal,
                  "GreaterOrEqual": np.greater_equal, "Equal": np.equal}[name]
            return fn(a, b)
        if name in ("And", "Or"):
            a, b = self.promote(args)
            return (np.logical_and if name == "And" else np.logical_or)(a, b)
        if name == "Not":
            return np.logical_not(self.promote(args)[0])
        if name == "Neg":
            return np.negative(self.promote(args)[0])
        if name == "Abs":
            return np.abs(self.promote(args)[0])
        if name == "Relu":
            a = self.promote(args)[0]
            return np.maximum(a, np.zeros((), a.dtype))
        if name == "Identity":
            return np.array(self.promote(args)[0], copy=True)
        if name == "Where":
            c, a, b = self.promote(args, [0, 1, 1])
            return np.where(c, a, b).astype(a.dtype)
        if name == "Sum":
            vs = self.promote(args)
            acc = vs[0]
            for v in vs[1:]:
                acc = np.add(acc, v)
            return acc
        if name == "Clip":
            vs = self.promote(args)
            a = vs[0]
            if len(vs) > 1 and vs[1] is not None:
                a = np.maximum(a, vs[1])
            if len(vs) > 2 and vs[2] is not None:
                a = np.minimum(a, vs[2])
            return a.astype(vs[0].dtype)
        if name == "LeakyRelu":
            a = self.promote(args)[0]
            alpha = f32(kw.get("alpha", 0.01))
            return np.where(a >= 0, a, (a * alpha).astype(a.dtype)).astype(a.dtype)
        if name == "ReduceSum":
            a = self.promote(args[:1])[0]
            kd = int(kw.get("keepdims", 1))
            return np.sum(a, axis=None, keepdims=bool(kd), dtype=a.dtype)
        if name == "Cast":
            a = self.promote(args)[0]
            to = int(kw["to"])
            return a.astype({1: np.float32, 7: np.int64, 9: np.bool_, 6: np.int32, 11: np.float64}[to])
        if name == "CastLike":
            a, b = self.promote(args, [0, 1])
            return a.astype(b.dtype)
        if name == "Dropout":
            a = self.promote(args[:1])[0]
            return (np.array(a, copy=True), np.ones(a.shape, dtype=np.bool_))
        if name == "Constant":
            if "value_int" in kw:
                return np.array(int(kw["value_int"]), dtype=np.int64)
            if "value_float" in kw:
                return np.array(kw["value_float"], dtype=np.float32)
        raise NotImplementedError(name)

    BIN = {ast.Add: "Add", ast.Sub: "Sub", ast.Mult: "Mul", ast.Div: "Div", ast.BitAnd: "And", ast.BitOr: "Or",
           ast.Mod: "Mod", ast.Pow: "Pow", ast.MatMult: "MatMul"}
    CMP = {ast.Lt: "Less", ast.Gt: "Greater", ast.LtE: "LessOrEqual", ast.GtE: "GreaterOrEqual", ast.Eq: "Equal"}

    # ---- expressions
    def ev(self, e, env):
        if isinstance(e, ast.Name):
            if e.id not in env:
                if e.id in self.free:
                    return self.free[e.id]
                raise NameError(e.id)
            return env[e.id]
        if isinstance(e, ast.Constant):
            return e.value
        if isinstance(e, ast.BinOp):
            a, b = self.ev(e.left, env), self.ev(e.right, env)
            return self.op(self.BIN[type(e.op)], [a, b], {})
        if isinstance(e, ast.UnaryOp):
            v = self.ev(e.operand, env)
            if isinstance(e.op, ast.USub):
                return -v if self.is_py(v) else self.op("Neg", [v], {})
            if isinstance(e.op, ast.Not):
                return self.op("Not", [v], {})
            raise NotImplementedError("unary")
        if isinstance(e, ast.Compare):
            a, b = self.ev(e.left, env), self.ev(e.comparators[0], env)
            o = type(e.ops[0])
            if o is ast.NotEq:
                return np.logical_not(self.op("Equal", [a, b], {}))
            return self.op(self.CMP[o], [a, b], {})
        if isinstance(e, ast.Call):
            args = [self.ev(a, env) for a in e.args]
            kw = {k.arg: self.ev(k.value, env) for k in e.keywords}
            f = e.func
            if isinstance(f, ast.Attribute):
                alias = f.value.id if isinstance(f.value, ast.Name) else "op"
                ver = OPSET_VERSION_OF.get(alias, 18)
                # an operator INPUT may be given by keyword (`op.Clip(x, max=hi)`): it goes to the position of the
                # formal of that name, omitted optional inputs before it staying absent
                names = op_input_names(f.attr, ver)
                given = [k for k in kw if k in names]
                if given:
                    full = list(args) + [None] * (len(names) - len(args))
                    for k in given:
                        full[names.index(k)] = kw.pop(k)
                    while full and full[-1] is None:
                        full.pop()
                    args = full
                return self.op(f.attr, args, kw, ver)
            if isinstance(f, ast.Name) and f.id in self.helpers:
                r = self.call(self.helpers[f.id], [self.default_tensor(a) for a in args], kw)
                return r[0] if len(r) == 1 else tuple(r)
            raise NotImplementedError("call")
        raise NotImplementedError(type(e).__name__)

    # ---- statements
    def run_block(self, ss, env):
        for s in ss:
            self.run(s, env)

    def run(self, s, env):
        if isinstance(s, ast.Assign):
            t = s.targets[0]
            if isinstance(t, ast.Tuple):
                if isinstance(s.value, ast.Tuple):
                    vals = [self.ev(x, env) for x in s.value.elts]  # Python: all right-hand sides first
                else:
                    vals = list(self.ev(s.value, env))
                for x, v in zip(t.elts, vals):
                    env[x.id] = v
            else:
                v = self.ev(s.value, env)
                if isinstance(v, tuple) and isinstance(s.value, ast.Call) and isinstance(s.value.func, ast.Attribute):
                    v = v[0]   # `y = op.Dropout(x)`: a single target names the operator's first output
                env[t.id] = v
        elif isinstance(s, ast.If):
            if len(s.body) == 1 and isinstance(s.body[0], ast.Break):
                if self.truth(self.ev(s.test, env)):
                    raise Interp._Break()
                self.run_block(s.orelse, env)   # `if b: break` / `else: …` is ordinary Python
            elif self.truth(self.ev(s.test, env)):
                self.run_block(s.body, env)
            else:
                self.run_block(s.orelse, env)
        elif isinstance(s, ast.For):
            n = self.ev(s.iter.args[0], env)
            n = int(np.asarray(n))
            for i in range(n):
                env[s.target.id] = np.array(i, dtype=np.int64)
                try:
                    self.run_block(s.body, env)
                except Interp._Break:
                    break
        elif isinstance(s, ast.While):
            guard = 0
            while self.truth(self.ev(s.test, env)):
                guard += 1
                if guard > 1000:
                    raise RuntimeError("diverging while")
                try:
                    self.run_block(s.body, env)
                except Interp._Break:
                    break
        elif isinstance(s, ast.Return):
            v = s.value
            vals = [self.ev(x, env) for x in v.elts] if isinstance(v, ast.Tuple) else [self.ev(v, env)]
            raise Interp._Return([self.default_tensor(x) for x in vals])
        elif isinstance(s, ast.Expr):
            pass
        else:
            raise NotImplementedError(type(s).__name__)

    def call(self, fn: ast.FunctionDef, args, attrs):
        env = {}
        names = [a.arg for a in fn.args.args]
        defaults = fn.args.defaults
        dstart = len(names) - len(defaults)
        pos = 0
        for i, n in enumerate(names):
            if n in attrs:
                env[n] = attrs[n]
            elif pos < len(args) and not _is_attr_param(fn.args.args[i]):
                env[n] = args[pos]
                pos += 1
            elif i >= dstart:
                env[n] = ast.literal_eval(defaults[i - dstart])
            else:
                raise TypeError("missing argument " + n)
        try:
            self.run_block(fn.body, env)
        except Interp._Return as r:
            return r.v
        return []


def _is_attr_param(a: ast.arg) -> bool:
    return a.annotation is not None and ast.unparse(a.annotation) in ("float", "int", "bool", "str")


def numpy_run(src: str, feeds: dict, attrs: dict, param_order: list[str], free: dict | None = None):
    """Outputs (list of np arrays) of reading `src` as plain Python over NumPy."""
    tree = ast.parse(src)
    fn = next(n for n in tree.body if isinstance(n, ast.FunctionDef))
    helpers = {n.name: n for n in ast.parse(HELPERS_SRC).body if isinstance(n, ast.FunctionDef)}
    it = Interp(helpers, free)
    with np.errstate(all="ignore"):
        return it.call(fn, [feeds[n] for n in param_order], dict(attrs))


# =========================================================================== script functions made by factories
#
# `script()` resolves the free names of a function in `module globals updated with closure nonlocals`.  These
# programs read Python constants from enclosing functions (one or two levels) and from the module, with and
# without a module global of the same name as a closure variable.


def py_value_repr(kind: str, v) -> str:
    if kind == "array":
        return f"np.array({list(v)!r}, dtype=np.float32)"
    return repr(v)


def free_value(kind: str, v):
    """The value as the NumPy reading of the source sees it."""
    if kind in ("array", "list"):
        return np.array(v, dtype=np.float32)
    return v


def closure_program(rng, name: str) -> dict:
    """A script function reading 1-3 names from its surroundings.  Returns the program's meta record."""
    pool = ["gain", "bias", "scale", "shift"]
    rng.shuffle(pool)
    nfree = rng.randint(1, 3)
    frees = []
    levels = 2 if rng.random() < 0.35 else 1
    for base in pool[:nfree]:
        nm = f"{base}_{name}"
        where = rng.choice(["closure", "shadow", "shadow", "global"] + (["outer", "outer-shadow"] if levels == 2 else []))
        kind = rng.choice(["float", "float", "int", "array", "list"])
        if kind == "float":
            v, other = rng.choice([3.0, 0.5, -1.5, 2.25]), rng.choice([10.0, -4.0, 7.5])
        elif kind == "int":
            v, other = rng.choice([2, 3, -1]), rng.choice([10, 5, -7])
        else:
            v, other = [1.0, 2.0, 3.0], [10.0, 20.0, 30.0]
        frees.append({"name": nm, "where": where, "kind": kind, "value": v, "other": other})
    ks = [f["name"] for f in frees]
    scalars = [f["name"] for f in frees if f["kind"] in ("float", "int")]
    k = lambda: rng.choice(ks)
    body = []
    feats = {"closure", "closure-levels-%d" % levels}
    if rng.random() < 0.2:
        # a name of the surroundings that the function also assigns is LOCAL everywhere in it (c2aeb08, was C01-D42):
        # assigned before every read here, so the program stays well-defined
        loc = rng.choice(ks)
        body.append(f"{loc} = {rng.choice(['op.Mul(A, 2.0)', 'op.Neg(B)', '(A + 1.0)'])}")
        feats.add("closure-name-also-local")
    body.append(f"x = {rng.choice([f'op.Mul(A, {k()})', f'(A * {k()})', f'op.Add(A, {k()})', f'(A - {k()})'])}")
    for _ in range(rng.randint(1, 3)):
        r = rng.random()
        if r < 0.4:
            body.append(f"x = {rng.choice([f'op.Add(x, {k()})', f'(x * {k()})', f'op.Sub(x, {k()})', f'(x + {k()})'])}")
        elif r < 0.7:
            thr = rng.choice(scalars) if scalars and rng.random() < 0.6 else rng.choice(["1.0", "4.0"])
            body += [f"if (op.ReduceSum(x, keepdims=0) > {thr}):", f"    x = op.Add(x, B)", "else:", f"    x = (x * {k()})"]
            feats.add("closure-in-branch")
        else:
            body += ["for i in range(2):", f"    x = {rng.choice([f'op.Add(x, {k()})', f'(x * {k()})'])}"]
            feats.add("closure-in-loop")
    for u in ks:  # every free name is read
        if not any(u in ln for ln in body):
            body.append(f"x = op.Add(x, {u})")
    body.append("return x")
    src = "@script(default_opset=op)\n" + f"def {name}(A: FLOAT[3], B: FLOAT[3]):\n" + "".join(f"    {ln}\n" for ln in body)
    for f in frees:
        feats.add("closure-" + f["where"])
        feats.add("closure-value-" + f["kind"])
    return {"name": name, "shape": [3], "params": [["A", "T"], ["B", "T"]], "attrs": [], "rets": [["x", "T"]],
            "src": src, "features": sorted(feats), "wrap": {"levels": levels, "free": frees}}


def wrapped_source(m: dict) -> str:
    """Source placed in the module for a program made by a factory (`m["wrap"]`), else `m["src"]`."""
    w = m.get("wrap")
    if not w:
        return m["src"]
    name = m["name"]
    lines = []
    inner_args, outer_args = [], []
    for f in w["free"]:
        if f["where"] in ("shadow", "outer-shadow"):
            lines.append(f"{f['name']} = {py_value_repr(f['kind'], f['other'])}")
        if f["where"] == "global":
            lines.append(f"{f['name']} = {py_value_repr(f['kind'], f['value'])}")
        if f["where"] in ("closure", "shadow"):
            inner_args.append(f)
        if f["where"] in ("outer", "outer-shadow"):
            outer_args.append(f)
    ind = "    "
    call_in = ", ".join(py_value_repr(f["kind"], f["value"]) for f in inner_args)
    call_out = ", ".join(py_value_repr(f["kind"], f["value"]) for f in outer_args)
    if w["levels"] == 1:
        lines.append(f"def _mk_{name}({', '.join(f['name'] for f in inner_args)}):")
        lines += [ind + ln for ln in m["src"].rstrip("\n").split("\n")]
        lines.append(f"{ind}return {name}")
        lines.append(f"{name} = _mk_{name}({call_in})")
    else:
        lines.append(f"def _mk_{name}({', '.join(f['name'] for f in outer_args)}):")
        lines.append(f"{ind}def _mk2_{name}({', '.join(f['name'] for f in inner_args)}):")
        lines += [ind * 2 + ln for ln in m["src"].rstrip("\n").split("\n")]
        lines.append(f"{ind * 2}return {name}")
        lines.append(f"{ind}return _mk2_{name}({call_in})")
        lines.append(f"{name} = _mk_{name}({call_out})")
    return "\n".join(lines) + "\n"


def free_env(m: dict) -> dict:
    """name -> value by Python scoping (an enclosing function's variable hides a module global)."""
    w = m.get("wrap")
    return {f["name"]: free_value(f["kind"], f["value"]) for f in w["free"]} if w else {}


def lean_env(m: dict):
    """(closure, globals) association lists of JSON values for the Lean model (it resolves the order itself)."""
    w = m.get("wrap")
    if not w:
        return None
    closure, globs = [], []
    for f in w["free"]:
        if f["where"] in ("closure", "shadow", "outer", "outer-shadow"):
            closure.append((f["name"], f["kind"], f["value"]))
        if f["where"] in ("shadow", "outer-shadow"):
            globs.append((f["name"], f["kind"], f["other"]))
        if f["where"] == "global":
            globs.append((f["name"], f["kind"], f["value"]))
    return closure, globs


# =========================================================================== two opset versions in one function
#
# Property text: refused at decoration time or translated faithfully.  Softmax / LogSoftmax changed meaning between
# opset 11 (coerce to 2-D at axis, default 1) and opset 13 (along axis, default -1) without a signature change; a
# function that takes one of them from an older opset object than `default_opset` must be refused — or, if it is
# accepted, the graph must still compute what eager mode (which runs each op at its own version) computes.


def mixed_opset_program(rng, name: str) -> dict:
    old = rng.choice(["opset11", "opset12", "opset11"])
    sm = rng.choice(["Softmax", "LogSoftmax"])
    which = rng.random()
    alias = old if which < 0.6 else "op"
    kwargs = "" if rng.random() < 0.7 else f", axis={rng.choice([1, 2, -1])}"
    pre = rng.choice(["y = op.Add(A, A)", "y = (A * 0.5)", "y = op.Neg(A)"])
    body = [pre]
    if rng.random() < 0.4:
        body += ["if (op.ReduceSum(y, keepdims=0) > 1.0):", f"    z = {alias}.{sm}(y{kwargs})", "else:",
                 f"    z = op.Relu(y)"]
    else:
        body.append(f"z = {alias}.{sm}(y{kwargs})")
    body.append(rng.choice(["return z", "return op.Add(z, A)"]))
    src = "@script(default_opset=op)\n" + f"def {name}(A: FLOAT[2,3,4]):\n" + "".join(f"    {ln}\n" for ln in body)
    feats = ["softmax", "mixed-opset-" + ("old" if alias != "op" else "same")]
    return {"name": name, "shape": [2, 3, 4], "params": [["A", "T"]], "attrs": [], "rets": [["z", "T"]], "src": src,
            "features": feats}


# =========================================================================== round-3 classes
#
# Keyword INPUTS of operators (`op.Clip(x, min=lo, max=hi)`), `if NAME:` on a name of the surroundings (a static
# condition: only one branch is translated), `if b: break` with an else branch, a single target assigned from an
# operator with several outputs.  The variants that hit an open finding carry its id (`finding_ids`).


def keyword_input_program(rng, name: str, k: int = 0) -> dict:
    lo, hi = rng.choice([("0.5", "2.0"), ("-1.0", "1.5"), ("s", "2.5"), ("0.0", "s")])
    form = ["both-kw", "second-kw", "min-kw", "max-only"][k % 4]
    call = {"both-kw": f"op.Clip(A, min={lo}, max={hi})", "second-kw": f"op.Clip(A, {lo}, max={hi})",
            "min-kw": f"op.Clip(A, min={lo})", "max-only": f"op.Clip(A, max={hi})"}[form]
    body = [f"x = {call}", rng.choice(["return x", "return op.Add(x, A)", "return (x * 2.0)"])]
    src = "@script(default_opset=op)\n" + f"def {name}(A: FLOAT[3], s: FLOAT):\n" + "".join(f"    {ln}\n" for ln in body)
    m = {"name": name, "shape": [3], "params": [["A", "T"], ["s", "S"]], "attrs": [], "rets": [["x", "T"]], "src": src,
         "features": ["keyword-input", "keyword-input-" + form]}
    return m   # `max-only` was C01-D43 (keyword input shifted into the omitted slot), fixed by b7afd5e


def const_if_program(rng, name: str, k: int = 0) -> dict:
    g = f"flag_{name}"
    val = rng.choice([0, 1])
    kind = ["plain", "in-loop", "param", "plain"][k % 4]   # every kind in every run (required features)
    then_, else_ = rng.choice([("op.Neg(A)", "op.Abs(A)"), ("(A * 2.0)", "op.Add(A, 1.0)"), ("op.Relu(A)", "A")])
    if kind == "in-loop":
        body = ["y = op.Identity(A)", "for i in range(2):", f"    if {g}:", f"        y = op.Add(y, {then_})", "    else:",
                f"        y = op.Add(y, {else_})", "return y"]
        sig = f"def {name}(A: FLOAT[3]):"
        params = [["A", "T"]]
    else:
        body = [f"if {g}:", f"    y = {then_}", "else:", f"    y = {else_}", "return y"]
        sig = f"def {name}(A: FLOAT[3], {g}: BOOL):" if kind == "param" else f"def {name}(A: FLOAT[3]):"
        params = [["A", "T"], [g, "B"]] if kind == "param" else [["A", "T"]]
    src = "@script(default_opset=op)\n" + sig + "\n" + "".join(f"    {ln}\n" for ln in body)
    m = {"name": name, "shape": [3], "params": params, "attrs": [], "rets": [["y", "T"]], "src": src,
         "features": ["static-if", "static-if-" + kind],
         "wrap": {"levels": 1, "free": [{"name": g, "where": "global", "kind": "int", "value": val, "other": val}]}}
    return m   # `param` was C01-D45 (a parameter taken for the outer name), fixed by 11e898c


def break_else_program(rng, name: str) -> dict:
    step = rng.choice(["op.Add(x, x)", "op.Add(x, A)", "(x * 1.5)"])
    thr = rng.choice(["1000.0", "4.0", "0.0"])
    body = ["x = op.Identity(A)", "for i in range(n):", f"    b = (op.ReduceSum(x, keepdims=0) > {thr})", "    if b:",
            "        break", "    else:", f"        x = {step}", "return x"]
    src = "@script(default_opset=op)\n" + f"def {name}(A: FLOAT[3], n: INT64):\n" + "".join(f"    {ln}\n" for ln in body)
    return {"name": name, "shape": [3], "params": [["A", "T"], ["n", "I"]], "attrs": [], "rets": [["x", "T"]], "src": src,
            "features": ["break-else"], "near_miss": "break-else", "expect": "TranslationError"}   # a0a3f70 (was C01-D44)


def nested_callee_program(rng, name: str) -> dict:
    """a caller of `helper_nested`, whose own callees sit inside a branch / a loop body only (round-3 seed C02-8)"""
    pre = rng.choice(["x = helper_nested(A)", "x = helper_nested(op.Neg(A))", "x = op.Add(helper_nested(A), A)"])
    body = [pre, rng.choice(["return x", "return op.Add(x, A)", "return (x * 2.0)"])]
    src = "@script(default_opset=op)\n" + f"def {name}(A: FLOAT[3]):\n" + "".join(f"    {ln}\n" for ln in body)
    return {"name": name, "shape": [3], "params": [["A", "T"]], "attrs": [], "rets": [["x", "T"]], "src": src,
            "features": ["subfunction-call", "callee-calls-inside-control-flow"]}


def first_output_program(rng, name: str) -> dict:
    body = [rng.choice(["y = op.Dropout(A)", "y = op.Dropout(op.Neg(A))"]), rng.choice(["return op.Add(y, A)", "return (y * 2.0)"])]
    src = "@script(default_opset=op)\n" + f"def {name}(A: FLOAT[3]):\n" + "".join(f"    {ln}\n" for ln in body)
    return {"name": name, "shape": [3], "params": [["A", "T"]], "attrs": [], "rets": [["r", "T"]], "src": src,
            "features": ["single-target-multi-output"], "finding_ids": ["C01-D46"]}


# =========================================================================== inner loops whose trip count shrinks
#
# A variable that an inner loop only assigns and the enclosing loop reads afterwards must be carried by the
# enclosing loop: in a later outer iteration the inner loop may run zero times.


def shrinking_nest_program(rng, name: str) -> dict:
    t0 = rng.choice(["t = op.Identity(A)", "t = (A * 1.0)", "t = op.Neg(A)"])
    start = rng.choice(["rem = (n - 1)", "rem = op.Identity(n)", "rem = (n - 2)"])
    inner_rhs = rng.choice(["(A * 2.0)", "op.Add(A, 1.0)", "op.Add(acc, 1.0)", "op.Abs(A)"])
    bound = rng.choice(["rem", "rem", "(n - i)", "(rem - 1)"])
    inner = [f"for j in range({bound}):", f"    t = {inner_rhs}"]
    if rng.random() < 0.3:
        inner.append("    u = op.Add(t, 1.0)")
        inner.append("    t = (u * 0.5)")
    after = rng.choice(["acc = (acc + t)", "acc = op.Add(acc, t)", "acc = op.Sub(t, acc)"])
    outer_body = inner + [after, "rem = (rem - 1)"]
    if rng.random() < 0.3:
        outer_body = ["acc = (acc * 1.0)"] + outer_body
    body = [t0, "acc = (A * 0.0)", start]
    if rng.random() < 0.25:
        # the outer loop as a counter-driven while
        body += ["cnt = op.Constant(value_int=0)", "go = (cnt < n)", "while go:"] + \
            ["    " + ln.replace("(n - i)", "rem") for ln in outer_body] + ["    cnt = (cnt + 1)", "    go = (cnt < n)"]
    else:
        body += ["for i in range(n):"] + ["    " + ln for ln in outer_body]
    rets = rng.choice([["acc"], ["acc", "t"]])
    body.append("return " + ", ".join(rets))
    src = "@script(default_opset=op)\n" + f"def {name}(A: FLOAT[3], n: INT64):\n" + "".join(f"    {ln}\n" for ln in body)
    return {"name": name, "shape": [3], "params": [["A", "T"], ["n", "I"]], "attrs": [],
            "rets": [[r, "T"] for r in rets], "src": src, "features": ["nested-loop", "inner-trip-count-shrinks"]}


# =========================================================================== sibling subgraphs with subscripts
#
# The index constants of a subscript live for ONE expression.  If they outlived it (e.g. cached per graph *name* — every
# loop body is named "loop_body"), a second loop in the same function would read a Constant that exists only in a
# sibling subgraph.  These programs put subscripts with shared integers (start / end / step / axis) into two or more
# sibling loop bodies and if branches, next to a top-level subscript.


def sibling_subscript_program(rng, name: str) -> dict:
    forms = ["[0:2]", "[1:3]", "[0:2, 1]", "[1, 0:2]", "[::2]", "[0]", "[1]", "[0:1, 0:2]", "[2:0:-1]", "[1:, 0]", "[-1, 0]", "[1:, -1]"]
    f = lambda: rng.choice(forms)
    red = lambda e: f"op.ReduceSum({e}, keepdims=0)"
    body = ["acc = op.ReduceSum(A, keepdims=0)"]
    if rng.random() < 0.5:
        body.append(f"acc = (acc + {red('A' + f())})")
    nblocks = rng.randint(2, 3)
    kinds = []
    for b in range(nblocks):
        kind = rng.choice(["for", "for", "while", "if"])
        kinds.append(kind)
        base = rng.choice(["A", "B"])
        e1 = red(base + f())
        shared = f()
        if kind == "for":
            body += [f"for i{b} in range({rng.choice(['2', 'n'])}):", f"    acc = (acc + {red(base + shared)})"]
            if rng.random() < 0.5:
                body.append(f"    acc = (acc + {e1})")
        elif kind == "while":
            c, g = f"cnt{b}", f"go{b}"
            body += [f"{c} = op.Constant(value_int=0)", f"{g} = ({c} < n)", f"while {g}:",
                     f"    acc = (acc + {red(base + shared)})", f"    {c} = ({c} + 1)", f"    {g} = ({c} < n)"]
        else:
            body += [f"if (acc > {rng.choice(['0.0', '3.0'])}):", f"    acc = (acc + {red(base + shared)})", "else:",
                     f"    acc = (acc - {e1})"]
        if rng.random() < 0.6:  # the very same subscript again in the next sibling
            forms.append(shared)
    body.append("return acc")
    src = "@script(default_opset=op)\n" + f"def {name}(A: FLOAT[4,4], B: FLOAT[4,4], n: INT64):\n" + \
        "".join(f"    {ln}\n" for ln in body)
    return {"name": name, "shape": [4, 4], "params": [["A", "T"], ["B", "T"], ["n", "I"]], "attrs": [],
            "rets": [["acc", "S"]], "src": src, "features": ["subscript", "sibling-subgraphs"] + ["sibling-" + k for k in set(kinds)]}


# =========================================================================== user names shaped like generated names
#
# `_generate_unique_name(candidate)` appends `_<n>` until the name is unused.  Programs whose own variables are
# called `x_0`, `x_1`, `tmp_0`, `x_cast`, `x_sliced`, `x_start`, `cond_0`, `int64_1_cast`, … next to repeated
# rebinding of `x`: every value must still be defined exactly once, and the program must keep its meaning.


def name_collision_program(rng, name: str, subscripts: bool = False) -> dict:
    v = rng.choice(["x", "y"])
    w = "y" if v == "x" else "x"
    shaped = [f"{v}_0", f"{v}_1", f"{v}_2", "tmp_0", "tmp", f"{v}_cast", "cond_0", "cond", f"{v}_0_0",
              "return_val", "const", f"{w}_0"]
    if subscripts:
        shaped += [f"{v}_sliced", f"{v}_start", f"{v}_end", f"{v}_axis", f"{v}_step", f"{v}_subscripted",
                   "squeezed_axes", "int64_1_1d", "int64_0_1d", f"{v}_axis_0", "int64_1"]
    rng.shuffle(shaped)
    mine = shaped[:rng.randint(2, 4)]
    defined = []
    body = []
    ops = ["op.Neg({a})", "op.Abs({a})", "({a} + 1.0)", "({a} * 2)", "op.Add({a}, {b})", "({a} - {b})", "op.Relu({a})"]
    subs = ["{a}[0:2]", "{a}[1:3, 1]", "{a}[0, 0:2]", "{a}[::2]", "{a}[0]"]

    def rhs():
        a = rng.choice([v, v] + defined)
        b = rng.choice([v, w] + defined)
        if subscripts and rng.random() < 0.35:
            return "op.Mul(%s, op.ReduceSum(%s, keepdims=0))" % (v, rng.choice(subs).format(a=a if a in (v, w) else v))
        return rng.choice(ops).format(a=a, b=b)

    for step in range(rng.randint(4, 8)):
        r = rng.random()
        if r < 0.4 and len(defined) < len(mine):
            t = mine[len(defined)]
            body.append(f"{t} = {rhs()}")
            defined.append(t)
        elif r < 0.8:
            body.append(f"{v} = {rhs()}")   # the (k+1)-th rebinding of v
        elif r < 0.9:
            t = rng.choice(defined) if defined else v
            body += [f"if (op.ReduceSum({v}, keepdims=0) > 1.0):", f"    {v} = op.Add({v}, {t})", "else:",
                     f"    {v} = op.Neg({t})"]
        else:
            body += ["for i in range(2):", f"    {v} = op.Add({v}, {rng.choice(defined) if defined else w})"]
    outs = [v] + defined[:2]
    body.append("return " + ", ".join(f"op.Identity({o})" for o in outs))
    src = "@script(default_opset=op)\n" + f"def {name}({v}: FLOAT[4,4], {w}: FLOAT[4,4]):\n" + \
        "".join(f"    {ln}\n" for ln in body)
    return {"name": name, "shape": [4, 4], "params": [[v, "T"], [w, "T"]], "attrs": [],
            "rets": [[f"r{k}", "T"] for k in range(len(outs))], "src": src,
            "features": ["user-names-like-generated"] + (["subscript"] if subscripts else [])}
