"""C04 — own families and streams (round 5).

* `shared_names_family`: constant-condition Ifs whose taken branches legally re-use interior value names (sibling
  scopes), in the main graph, inside another branch and inside a function body; the shared name is the foldable value,
  a non-foldable value, the Constant, or nothing.  Finding C04-D12 lived here (fixed by 6fc3d91; `pred_c04d12` is kept for
  the case that it is listed as open again — a recurrence is a violation).
* `function_output_family`: function bodies whose *output* is produced by an inlined If branch: an initializer of the
  branch, a foldable value, a plain value.  Finding C04-D13 (fixed by a9715ec; must pass).
* `second_call_stream`: histories — optimize twice, rewrite/fold before optimize, one ir.Model optimized twice in
  place, one FoldConstantsPass object used on two models.
* `presentation_stream`: the same model with more / less optional information (full value_info, outputs whose
  dimensions are all unknown, intermediate types and shapes erased on the ir.Model, empty node names).
"""
from __future__ import annotations

import re
from collections import Counter

import numpy as np
import onnx
import onnx_ir as ir
from onnx import TensorProto as TP
from onnx import helper as h
from onnx import numpy_helper as nh

from harness import c03_gen as G
from harness import c03_lib as L
from harness import c03_run as R
from harness import core


def vi(name, dt, shape):
    return h.make_tensor_value_info(name, dt, shape)


def _const(name, val):
    return h.make_node("Constant", [], [name], value=nh.from_array(np.asarray(val), name + "_v"))


def _arr(k):
    return np.array([1.0 + k, 2.0, 3.0 - k], dtype=np.float32)


# ----------------------------------------------------------------------------- shared interior names


def _branch(gname: str, out: str, k: int, names: dict, foldable: bool, x: str = "x"):
    """`a = Constant; t = Add(a, a) | Mul(x, a); out = Mul(x, t)` with the interior names given by `names`."""
    a, t = names["a"], names["t"]
    mid = h.make_node("Add", [a, a], [t]) if foldable else h.make_node("Mul", [x, a], [t])
    return h.make_graph([_const(a, _arr(k)), mid, h.make_node("Mul", [x, t], [out])], gname, [], [vi(out, TP.FLOAT, [3])])


def _other(gname: str, out: str, x: str = "x"):
    return h.make_graph([h.make_node("Neg", [x], [out])], gname, [], [vi(out, TP.FLOAT, [3])])


SHARE_KINDS = ("none", "const", "foldable", "plain", "both")
LAYOUTS = ("sibling", "inner", "function", "three")


def m_shared_names(layout: str, share: str, cond: bool) -> onnx.ModelProto:
    """Two (or three) Ifs with the same constant condition; the taken branches share interior names as `share` says:
    none; the Constant's name; the foldable value's name; a non-foldable value's name; both."""
    n_if = 3 if layout == "three" else 2
    foldable = share != "plain"

    def names(i):
        return {"a": "a" if share in ("const", "both") else f"a{i}",
                "t": "t" if share in ("foldable", "plain", "both") else f"t{i}"}

    def ifnode(i, c, x="x"):
        taken, not_taken = _branch(f"tk{i}", f"r{i}", i, names(i), foldable, x), _other(f"nt{i}", f"s{i}", x)
        tb, eb = (taken, not_taken) if cond else (not_taken, taken)
        return h.make_node("If", [c], [f"y{i}"], then_branch=tb, else_branch=eb)

    ifs = [ifnode(i, "c") for i in range(n_if)]
    acc, tail = "y0", []
    for i in range(1, n_if):
        tail.append(h.make_node("Add", [acc, f"y{i}"], [f"z{i}"]))
        acc = f"z{i}"
    body = [_const("c", np.array(cond))] + ifs + tail
    if layout in ("sibling", "three"):
        g = h.make_graph(body + [h.make_node("Identity", [acc], ["y"])], "g", [vi("x", TP.FLOAT, [3])], [vi("y", TP.FLOAT, [3])])
        return h.make_model(g, opset_imports=[h.make_opsetid("", 18)], ir_version=8)
    if layout == "inner":
        # the Ifs sit in the taken branch of an enclosing If whose condition is a graph input (not inlined)
        inner = h.make_graph(body + [h.make_node("Identity", [acc], ["w"])], "outer_then", [], [vi("w", TP.FLOAT, [3])])
        outer = h.make_node("If", ["p"], ["y"], then_branch=inner, else_branch=_other("outer_else", "v"))
        g = h.make_graph([outer], "g", [vi("x", TP.FLOAT, [3]), vi("p", TP.BOOL, [])], [vi("y", TP.FLOAT, [3])])
        return h.make_model(g, opset_imports=[h.make_opsetid("", 18)], ir_version=8)
    if layout == "function":
        f = h.make_function("local", "F", ["x"], [acc], body, opset_imports=[h.make_opsetid("", 18)])
        g = h.make_graph([h.make_node("F", ["x"], ["y"], domain="local")], "g", [vi("x", TP.FLOAT, [3])], [vi("y", TP.FLOAT, [3])])
        return h.make_model(g, opset_imports=[h.make_opsetid("", 18), h.make_opsetid("local", 1)], functions=[f], ir_version=8)
    raise ValueError(layout)


def m_branch_then_main(share: bool, as_output: bool, cond: bool) -> onnx.ModelProto:
    """One `If(<const>)` whose taken branch folds `t`, and LATER in the enclosing graph a foldable value that is called `t`
    as well (`share`) or `t_main`; that value is a graph output (`as_output`) or feeds one."""
    tm = "t" if share else "t_main"
    taken, other = _branch("tk", "r", 0, {"a": "a", "t": "t"}, True), _other("nt", "s")
    tb, eb = (taken, other) if cond else (other, taken)
    nodes = [_const("c", np.array(cond)), h.make_node("If", ["c"], ["y"], then_branch=tb, else_branch=eb),
             _const("k", _arr(2)), h.make_node("Add", ["k", "k"], [tm])]
    outs = [vi("y", TP.FLOAT, [3])]
    if as_output:
        outs.append(vi(tm, TP.FLOAT, [3]))
    else:
        nodes.append(h.make_node("Mul", ["x", tm], ["q"]))
        outs.append(vi("q", TP.FLOAT, [3]))
    g = h.make_graph(nodes, "g", [vi("x", TP.FLOAT, [3])], outs)
    return h.make_model(g, opset_imports=[h.make_opsetid("", 18)], ir_version=8)


INIT_POOL = ("c", "c_1", "c_2", "c_1_1")


def m_shared_inits(owned: list, cond: bool) -> onnx.ModelProto:
    """`len(owned)` Ifs with the same constant condition; the taken branch of the i-th owns the initializers `owned[i]` (names
    out of `c, c_1, c_2, c_1_1` — the names the uniquifier of `_move_initializers_to_graph` itself produces — in the given
    order) and adds them all to `x`."""
    def branch(i, names):
        nodes, cur = [], "x"
        for k, nm in enumerate(names):
            nodes.append(h.make_node("Add", [cur, nm], [f"b{i}_{k}"]))
            cur = f"b{i}_{k}"
        nodes.append(h.make_node("Identity", [cur], [f"r{i}"]))
        return h.make_graph(nodes, f"tk{i}", [], [vi(f"r{i}", TP.FLOAT, [3])],
                            initializer=[nh.from_array(_arr(0.25 * (k + 1) + i), nm) for k, nm in enumerate(names)])

    ifs = []
    for i, names in enumerate(owned):
        tb, eb = branch(i, names), _other(f"nt{i}", f"s{i}")
        if not cond:
            tb, eb = eb, tb
        ifs.append(h.make_node("If", ["c0"], [f"y{i}"], then_branch=tb, else_branch=eb))
    acc, tail = "y0", []
    for i in range(1, len(owned)):
        tail.append(h.make_node("Add", [acc, f"y{i}"], [f"z{i}"]))
        acc = f"z{i}"
    g = h.make_graph([_const("c0", np.array(cond))] + ifs + tail + [h.make_node("Identity", [acc], ["y"])], "g",
                     [vi("x", TP.FLOAT, [3])], [vi("y", TP.FLOAT, [3])])
    return h.make_model(g, opset_imports=[h.make_opsetid("", 18)], ir_version=8)


def _graphs(m: onnx.ModelProto):
    def rec(g):
        yield g
        for n in g.node:
            for a in n.attribute:
                if a.type == onnx.AttributeProto.GRAPH:
                    yield from rec(a.g)
                elif a.type == onnx.AttributeProto.GRAPHS:
                    for sg in a.graphs:
                        yield from rec(sg)
    yield from rec(m.graph)
    for f in m.functions:
        yield f
        for n in f.node:
            for a in n.attribute:
                if a.type == onnx.AttributeProto.GRAPH:
                    yield from rec(a.g)


def pred_c04d12(m: onnx.ModelProto, detail: str) -> bool:
    """C04-D12, exactly: the call raised with root cause `Initializer '<n>' is already registered`, and `<n>` names a
    node output in two *different* graphs (scopes) of the input model, in one of which it is computed from constants only
    (so it is folded).  A clash on a name the pass itself invented (C09-N3's `/shape`, `_unsqueeze`) is outside."""
    mo = re.search(r"Initializer '([^']+)' is already registered", detail)
    if not mo or "/shape" in mo.group(1):
        return False
    name = mo.group(1)
    owners = [g for g in _graphs(m) if any(name in n.output for n in g.node)]
    return len(owners) >= 2


def w_c04d12():
    return m_shared_names("sibling", "foldable", True), None


# ----------------------------------------------------------------------------- function outputs out of inlined branches

FOUT_KINDS = ("initializer", "foldable", "plain", "initializer_and_use")


def m_function_output(kind: str, cond: bool) -> onnx.ModelProto:
    """A function whose output is the output of an `If(<const>)`; the taken branch's output is an initializer of the
    branch / a value computed from constants / a value computed from `x` / an initializer that a node reads as well."""
    c = nh.from_array(_arr(1), "c")
    if kind == "initializer":
        taken = h.make_graph([], "tk", [], [vi("c", TP.FLOAT, [3])], initializer=[c])
    elif kind == "initializer_and_use":
        taken = h.make_graph([h.make_node("Add", ["x", "c"], ["u"]), h.make_node("Mul", ["u", "c"], ["r"])], "tk", [],
                             [vi("r", TP.FLOAT, [3])], initializer=[c])
    elif kind == "foldable":
        taken = h.make_graph([_const("a", _arr(2)), h.make_node("Add", ["a", "a"], ["r"])], "tk", [], [vi("r", TP.FLOAT, [3])])
    else:
        taken = h.make_graph([h.make_node("Abs", ["x"], ["r"])], "tk", [], [vi("r", TP.FLOAT, [3])])
    other = _other("nt", "s")
    tb, eb = (taken, other) if cond else (other, taken)
    body = [_const("cond", np.array(cond)), h.make_node("If", ["cond"], ["y"], then_branch=tb, else_branch=eb)]
    f = h.make_function("local", "F", ["x"], ["y"], body, opset_imports=[h.make_opsetid("", 18)])
    g = h.make_graph([h.make_node("F", ["x"], ["o"], domain="local"), h.make_node("Neg", ["o"], ["q"])], "g",
                     [vi("x", TP.FLOAT, [3])], [vi("q", TP.FLOAT, [3])])
    return h.make_model(g, opset_imports=[h.make_opsetid("", 18), h.make_opsetid("local", 1)], functions=[f], ir_version=8)


def function_defects(m2: onnx.ModelProto) -> str | None:
    """Every output of every function of the result is a function input or an output of one of its nodes."""
    for f in m2.functions:
        defined = set(f.input) | {o for n in f.node for o in n.output}
        for o in f.output:
            if o not in defined:
                return f"function {f.domain}::{f.name}: output {o!r} is not produced by any node of the body"
    return None


def pred_c04d13(m: onnx.ModelProto, api: str, opts: dict, detail: str) -> bool:
    """C04-D13, exactly: functions are not inlined first (fold_constants, or optimize(inline=False)); a function output of the
    input model is the output of an If node of the body one of whose branches has an initializer as that output; the
    result's function output is undefined (or the model no longer loads for that reason)."""
    if api == "optimize" and opts.get("inline", True):
        return False
    try:
        if function_defects(R.apply_api(api, m, opts)) is None:
            return False
    except Exception:
        return False
    for f in m.functions:
        for n in f.node:
            if n.op_type == "If" and set(n.output) & set(f.output):
                for a in n.attribute:
                    if a.type == onnx.AttributeProto.GRAPH and {o.name for o in a.g.output} & {t.name for t in a.g.initializer}:
                        return True
    return False


def w_c04d13():
    return m_function_output("initializer", True), None


R.WITNESSES["C04-D12"] = (w_c04d12, "C04-D12")
R.WITNESSES["C04-D13"] = (w_c04d13, "C04-D13")


def directed_tie_models():
    """Main-graph members of the shared-names family for the fold tie — since commit 6fc3d91 (C04-D12 fixed) all kinds of
    sharing, the equally named foldable values included: the real pass renames the second one, the model sees the two values
    under the encoder's identities (`t`, `t.d1`), and the canonical forms do not depend on names."""
    out = [(m_shared_names(layout, share, cond), {"tags": [f"shared_{layout}_{share}"], "init_inputs": [], "overrides": {}, "opset": 18, "syms": {}})
           for layout in ("sibling", "inner", "three") for share in SHARE_KINDS for cond in (True, False)]
    out += [(m_branch_then_main(share, as_output, cond), {"tags": [f"shared_later_{share}_{as_output}"], "init_inputs": [], "overrides": {}, "opset": 18, "syms": {}})
            for share in (False, True) for as_output in (False, True) for cond in (True, False)]
    # several outputs copying one value (the `out:alreadyoutput` branch; OV.Props.C04.redirected_outputs_distinct)
    for where in ("main", "if"):
        for source in ("node", "const", "input"):
            for t_out in (False, True):
                kinds = list(COPY_KINDS[: 2 + int(t_out)])
                out.append((m_alias_outputs(where, kinds, t_out, source),
                            {"tags": [f"alias_{where}_{source}"], "init_inputs": [], "overrides": {}, "opset": 18, "syms": {}}))
    return out


def _feeds3(m):
    return [{i.name: ((np.arange(3, dtype=np.float32) - 1 + k) if i.type.tensor_type.elem_type == TP.FLOAT else np.array(k % 2 == 0))
             for i in m.graph.input} for k in range(2)]


def describe_root(e: BaseException) -> str:
    """innermost exception of a chain, with the place that raised it: `Type: message @ file.py:function`"""
    import traceback

    for _ in range(8):
        if (e.__cause__ or e.__context__) is None:
            break
        e = e.__cause__ or e.__context__
    frames = traceback.extract_tb(e.__traceback__)
    where = f" @ {frames[-1].filename.rsplit('/', 1)[-1]}:{frames[-1].name}" if frames else ""
    return f"{type(e).__name__}: {str(e)[:200]}{where}"


D14_MARK = "AttributeError: 'NoneType' object has no attribute 'numpy' @ _fuse_relus_clips.py:extract_min_max"


def root_cause(api, m, opts) -> str:
    """the innermost exception of a failing call (PassError wraps the pass's own exception)"""
    try:
        R.apply_api(api, m, opts)
    except Exception as e:
        return describe_root(e)
    return ""


def judge_family(m, api, opts, rng) -> str | None:
    d = R.judge_validity(m, api, opts, rng, [])
    if d:
        if " raised " in d:
            d += " | root cause: " + root_cause(api, m, opts)
        return d
    try:
        m2 = R.apply_api(api, m, opts)
    except Exception as e:  # judged above
        return f"{api} raised {type(e).__name__}: {str(e)[:160]}"
    d = function_defects(m2)
    if d:
        return f"{api}({opts}): {d}"
    sd = L.semantic_diff(m, m2, _feeds3(m), must_run=True)
    return f"{api}({opts}) changes what the model computes: {sd}" if sd else None


def directed_stream(run: core.Run, stats: Counter, open_ids):
    """Both families; every member is checker-valid and executes.  A failure outside the exact predicate of an open
    finding is returned as a failure."""
    fam = []
    for layout in LAYOUTS:
        for share in SHARE_KINDS:
            for cond in (True, False):
                combos = [("fold_constants", {}), ("optimize", {}), ("optimize", {"num_iterations": 1, "inline": False})]
                fam.append((f"shared_{layout}_{share}", m_shared_names(layout, share, cond), combos))
    for share in (False, True):
        for as_output in (False, True):
            for cond in (True, False):
                fam.append((f"shared_later_{'same' if share else 'distinct'}_{'out' if as_output else 'use'}",
                            m_branch_then_main(share, as_output, cond), [("fold_constants", {}), ("optimize", {})]))
    for k in range(12):
        n_if = 2 + k % 2
        owned = [["c"] + run.rng.sample(INIT_POOL[1:], run.rng.randint(0, 2))]
        for _ in range(n_if - 1):
            owned.append(run.rng.sample(INIT_POOL, run.rng.randint(1, 3)))
        for o in owned:
            run.rng.shuffle(o)
        fam.append(("inits_" + "|".join(",".join(o) for o in owned), m_shared_inits(owned, k % 4 != 3),
                    [("fold_constants", {}), ("optimize", {}), ("optimize", {"num_iterations": 1})]))
    for kind in FOUT_KINDS:
        for cond in (True, False):
            fam.append((f"fout_{kind}", m_function_output(kind, cond),
                        [("fold_constants", {}), ("optimize", {"inline": False}), ("optimize", {})]))
    failures = []
    for name, m, combos in fam:
        try:
            onnx.checker.check_model(m, full_check=True)
            L.ort_session(m)
        except Exception as e:
            raise core.Infra(f"C04 family {name}: host model invalid: {str(e)[:200]}")
        for api, opts in combos:
            stats["family_" + name.split("_")[0]] += 1
            d = judge_family(m, api, opts, run.rng)
            if not d:
                stats["family_pass_" + name.split("_", 1)[0]] += 1
                continue
            fid = None
            if "C04-D12" in open_ids and pred_c04d12(m, d):
                fid = "C04-D12"
            elif "C04-D13" in open_ids and pred_c04d13(m, api, opts, d):
                fid = "C04-D13"
            if fid:
                stats[f"known_{fid}_in_stream"] += 1
                continue
            failures.append(({"family": name, "model_b64": R.b64(m), "api": api, "opts": opts}, d))
    return failures


# ----------------------------------------------------------------------------- histories

HISTORIES = ("optimize_twice", "rewrite_then_optimize", "fold_then_optimize", "optimize_then_fold", "ir_twice_in_place",
             "pass_object_reuse", "optimize_then_rewrite")


def _apply_history(kind: str, m: onnx.ModelProto, opts: dict, other: onnx.ModelProto | None):
    """Returns (result proto, proto the result must be equivalent to)."""
    import onnxscript.optimizer as opt
    from onnxscript.optimizer import _constant_folding as cf

    plain = {k: v for k, v in opts.items() if k != "as_ir"}
    if kind == "optimize_twice":
        return R.apply_api("optimize", R.apply_api("optimize", m, opts), {}), m
    if kind == "rewrite_then_optimize":
        return R.apply_api("optimize", R.apply_api("rewrite", m, {}), opts), m
    if kind == "optimize_then_rewrite":
        return R.apply_api("rewrite", R.apply_api("optimize", m, opts), {}), m
    if kind == "fold_then_optimize":
        return R.apply_api("optimize", R.apply_api("fold_constants", m, opts), opts), m
    if kind == "optimize_then_fold":
        return R.apply_api("fold_constants", R.apply_api("optimize", m, opts), {}), m
    if kind == "ir_twice_in_place":
        mc = onnx.ModelProto()
        mc.CopyFrom(m)
        mi = ir.serde.deserialize_model(mc)
        opt.optimize(mi, **plain)
        opt.optimize(mi, **plain)
        return ir.serde.serialize_model(mi), m
    if kind == "pass_object_reuse":
        # one pass object, two models: the second result must be what a fresh pass object gives
        p = cf.FoldConstantsPass(shape_inference=True, input_size_limit=8192, output_size_limit=262144)
        for src in (other, m):
            mc = onnx.ModelProto()
            mc.CopyFrom(src)
            mi = ir.serde.deserialize_model(mc)
            res = p(mi)
        return ir.serde.serialize_model(res.model), m
    raise ValueError(kind)


def judge_result(m, m2, rng, init_inputs, overrides=None) -> str | None:
    try:
        onnx.checker.check_model(m2, full_check=True)
    except Exception as e:
        return f"checker rejects the result: {str(e)[:200]}"
    w = L.scope_walk(m2)
    if w:
        return f"scope/topology walker on the result: {w}"
    d = function_defects(m2)
    if d:
        return d
    d = R.compatible_sig(L.signature(m), L.signature(m2))
    if d:
        return d
    names1 = {t.name for t in m2.graph.initializer}
    for nme in init_inputs:
        if nme not in names1:
            return f"initializer-input {nme!r} lost its default (initializer removed, input kept)"
    d = L.semantic_diff(m, m2, [G.feeds_for(m, rng, v) for v in range(2)])
    if d:
        return f"results differ from the original (default initializer-inputs): {d}"
    if init_inputs:
        by = {t.name: nh.to_array(t) for t in m.graph.initializer}
        ov = {nme: (overrides[nme] if overrides and nme in overrides else
                    np.asarray(by[nme] * 2 + 1, dtype=by[nme].dtype).reshape(by[nme].shape)) for nme in init_inputs}
        d = L.semantic_diff(m, m2, [G.feeds_for(m, rng, v, override=ov) for v in range(2)])
        if d:
            return f"with overridden initializer-inputs {sorted(ov)}: {d}"
    return None


def _disabled(cls):
    class _Ctx:
        def __enter__(self_inner):
            self_inner.orig = cls.call
            cls.call = lambda self, model: ir.passes.PassResult(model, modified=False)

        def __exit__(self_inner, *a):
            cls.call = self_inner.orig
    return _Ctx()


def classify(thunk, d: str, m, meta, open_ids) -> str | None:
    """Which open finding (exact predicate) explains the failure `d` of `thunk()` on model `m`; None if none."""
    import onnx_ir.passes.common as cp
    import onnxscript.rewriter as rw

    fid = R.known_in_stream(meta, open_ids)
    if fid:
        return fid
    if "C09-N3" in open_ids and R.classify_c09n3(m, d):
        return "C09-N3"
    if "C04-D12" in open_ids and pred_c04d12(m, d):
        return "C04-D12"
    if "C04-D7" in open_ids and "with overridden initializer-inputs" in d:
        orig_rules = rw._DEFAULT_REWRITE_RULES
        rw._DEFAULT_REWRITE_RULES = tuple(r for r in orig_rules if getattr(r, "name", None) not in R.GUARDED_RULES)
        try:
            guarded_did_it = thunk() is None
        finally:
            rw._DEFAULT_REWRITE_RULES = orig_rules
        if not guarded_did_it:
            with _disabled(rw.RewritePass):
                if thunk() is None:
                    return "C04-D7"
    if "C04-D4" in open_ids and ("Field 'type' of 'value_info' is required but missing" in d
                                 or "Field 'shape' of 'type' is required but missing" in d):
        with _disabled(cp.CommonSubexpressionEliminationPass):
            if thunk() is None:
                return "C04-D4"
    return None


def second_call_stream(run: core.Run, models, stats: Counter, n: int, open_ids):
    """Histories on generated models.  Judged like a single call: no exception, checker, walker, interface against the
    ORIGINAL model, initializer-inputs kept, same results as the original (defaults and overrides)."""
    failures = []
    rng = run.rng
    for k, (m, meta) in enumerate(models[:n]):
        kind = HISTORIES[k % len(HISTORIES)]
        opts = R.OPTION_TUPLES[(k // len(HISTORIES)) % len(R.OPTION_TUPLES)]
        other = models[(k + 1) % len(models)][0]
        stats[f"history_{kind}"] += 1

        def thunk(kind=kind, m=m, opts=opts, other=other, meta=meta):
            try:
                m2, _ = _apply_history(kind, m, opts, other)
            except Exception as e:
                return f"raised {type(e).__name__}: {str(e)[:160]} | root cause: {describe_root(e)}"
            d = judge_result(m, m2, rng, meta["init_inputs"], meta.get("overrides"))
            if d is None and m2.SerializeToString(deterministic=True) != m.SerializeToString(deterministic=True):
                stats["history_result_differs_from_input"] += 1
            return d

        d = thunk()
        if d:
            fid = classify(thunk, d, m, meta, open_ids)
            if fid:
                stats[f"known_{fid}_in_stream"] += 1
                continue
            failures.append(({"history": kind, "model_b64": R.b64(m), "opts": opts, "tags": meta["tags"]}, f"history {kind}: {d}"))
    return failures


# ----------------------------------------------------------------------------- presentations of one model

PRESENTATIONS = ("full_value_info", "outputs_unknown_dims", "ir_erased_intermediates", "node_names_cleared", "stale_free_value_info_ir")


def present(kind: str, m: onnx.ModelProto):
    """Returns (proto, opts-extra, ir-model-or-None)."""
    mc = onnx.ModelProto()
    mc.CopyFrom(m)
    if kind == "full_value_info":
        return onnx.shape_inference.infer_shapes(mc, strict_mode=True), None
    if kind == "outputs_unknown_dims":
        # the rank stays declared, every dimension becomes unknown (neither a value nor a name)
        for o in mc.graph.output:
            if o.type.HasField("tensor_type") and o.type.tensor_type.HasField("shape"):
                for dim in o.type.tensor_type.shape.dim:
                    dim.Clear()
        return mc, None
    if kind == "node_names_cleared":
        for n in R._all_nodes(mc.graph):
            n.name = ""
        return mc, None
    if kind in ("ir_erased_intermediates", "stale_free_value_info_ir"):
        src = onnx.shape_inference.infer_shapes(mc, strict_mode=True) if kind == "ir_erased_intermediates" else mc
        mi = ir.serde.deserialize_model(src)
        keep = {id(v) for v in mi.graph.inputs} | {id(v) for v in mi.graph.outputs} | {id(v) for v in mi.graph.initializers.values()}
        for node in ir.traversal.RecursiveGraphIterator(mi.graph):
            for v in node.outputs:
                if id(v) not in keep:
                    v.shape = None
                    if kind == "ir_erased_intermediates":
                        v.type = None
        return mc, mi
    raise ValueError(kind)


def presentation_stream(run: core.Run, models, stats: Counter, n: int, open_ids):
    import onnxscript.optimizer as opt

    failures = []
    rng = run.rng
    for k, (m, meta) in enumerate(models[:n]):
        kind = PRESENTATIONS[k % len(PRESENTATIONS)]
        opts = {kk: v for kk, v in R.OPTION_TUPLES[(k // len(PRESENTATIONS)) % len(R.OPTION_TUPLES)].items() if kk != "as_ir"}
        stats[f"presentation_{kind}"] += 1
        try:
            mp0, _ = present(kind, m)
            onnx.checker.check_model(mp0, full_check=True)
        except Exception:
            stats["presentation_refused"] += 1
            continue

        def thunk(kind=kind, m=m, opts=opts, meta=meta):
            mp, mi = present(kind, m)
            try:
                if mi is not None:
                    opt.optimize(mi, **opts)
                    m2 = ir.serde.serialize_model(mi)
                else:
                    m2 = R.apply_api("optimize", mp, opts)
            except Exception as e:
                return f"optimize raised {type(e).__name__}: {str(e)[:160]} | root cause: {describe_root(e)}"
            return judge_result(mp, m2, rng, meta["init_inputs"], meta.get("overrides"))

        d = thunk()
        if d:
            fid = classify(thunk, d, mp0, meta, open_ids)
            if fid:
                stats[f"known_{fid}_in_stream"] += 1
                continue
            failures.append(({"presentation": kind, "model_b64": R.b64(mp0), "opts": opts, "tags": meta["tags"]}, f"presentation {kind}: {d}"))
    return failures


# ----------------------------------------------------------------------------- several outputs copying one value; SplitToSequence boundaries

COPY_KINDS = ("identity", "identity_chain", "dropout", "concat1")


def _copy(kind: str, src: str, out: str, k: int):
    if kind == "identity":
        return [h.make_node("Identity", [src], [out])]
    if kind == "identity_chain":
        return [h.make_node("Identity", [src], [f"{out}_m{k}"]), h.make_node("Identity", [f"{out}_m{k}"], [out])]
    if kind == "dropout":
        return [h.make_node("Dropout", [src], [out])]
    return [h.make_node("Concat", [src], [out], axis=0)]


def m_alias_outputs(where: str, kinds, t_is_output: bool, source: str) -> onnx.ModelProto:
    """`len(kinds)` outputs of one graph each copy the SAME value `t` (Identity, Identity chain, inference Dropout, Concat of
    one operand); `t` is computed by a node (`source="node"`), folded from constants (`"const"`) or a graph input
    (`"input"`); optionally `t` is an output itself.  The graph is the main graph, an If body (dynamic condition) or a
    Loop body."""
    pre = {"node": [h.make_node("Abs", ["x"], ["t"])],
           "const": [_const("k", _arr(1)), h.make_node("Add", ["k", "k"], ["t"])],
           "input": []}[source]
    t = "x" if source == "input" else "t"
    nodes, outs = list(pre), []
    for k, kind in enumerate(kinds):
        nodes += _copy(kind, t, f"o{k}", k)
        outs.append(f"o{k}")
    if t_is_output and source != "input":
        outs.append(t)
    if where == "main":
        g = h.make_graph(nodes, "g", [vi("x", TP.FLOAT, [3])], [vi(o, TP.FLOAT, [3]) for o in outs])
    elif where == "if":
        then_g = h.make_graph(nodes, "tb", [], [vi(o, TP.FLOAT, [3]) for o in outs])
        else_g = h.make_graph([h.make_node("Neg", ["x"], [f"e{k}"]) for k in range(len(outs))], "eb", [],
                              [vi(f"e{k}", TP.FLOAT, [3]) for k in range(len(outs))])
        ys = [f"y{k}" for k in range(len(outs))]
        g = h.make_graph([h.make_node("If", ["p"], ys, then_branch=then_g, else_branch=else_g)], "g",
                         [vi("x", TP.FLOAT, [3]), vi("p", TP.BOOL, [])], [vi(y, TP.FLOAT, [3]) for y in ys])
    elif where == "loop":
        body_nodes = [h.make_node("Identity", ["cond_in"], ["cond_out"])] + nodes
        body = h.make_graph(body_nodes, "body", [vi("it", TP.INT64, []), vi("cond_in", TP.BOOL, []), vi("carry", TP.FLOAT, [3])],
                            [vi("cond_out", TP.BOOL, []), vi(outs[0], TP.FLOAT, [3])] + [vi(o, TP.FLOAT, [3]) for o in outs[1:]])
        # body reads x from the enclosing graph; first output after cond is the carried value, the others are scan outputs
        ys = ["carry_out"] + [f"scan{k}" for k in range(1, len(outs))]
        g = h.make_graph([_const("n", np.array(2, dtype=np.int64)), _const("c0", np.array(True)),
                          h.make_node("Loop", ["n", "c0", "x"], ys, body=body)], "g", [vi("x", TP.FLOAT, [3])],
                         [vi("carry_out", TP.FLOAT, [3])] + [vi(y, TP.FLOAT, [2, 3]) for y in ys[1:]])
    else:
        raise ValueError(where)
    return h.make_model(g, opset_imports=[h.make_opsetid("", 18)], ir_version=8)


def m_sts_boundary(dim: int, split, keepdims: int, axis: int, rank2: bool) -> onnx.ModelProto:
    """`seq = SplitToSequence(x, split, axis, keepdims); y = SequenceAt(seq, 0); n = SequenceLength(seq)` with the number of
    chunks at its boundaries (one chunk: a 1-D split with one entry, a scalar split equal to or larger than the axis; `dim`
    chunks: scalar 1) for both values of `keepdims`."""
    shape = [dim, 2] if rank2 else [dim]
    if axis not in (0, -len(shape)):
        shape = shape[::-1]
    sp = nh.from_array(np.asarray(split, dtype=np.int64), "sp")
    nodes = [h.make_node("SplitToSequence", ["x", "sp"], ["seq"], axis=axis, keepdims=keepdims),
             h.make_node("SequenceAt", ["seq", "i0"], ["y"]), h.make_node("SequenceLength", ["seq"], ["n"])]
    first = split if np.ndim(split) == 0 else split[0]
    yshape = list(shape)
    yshape[axis] = min(int(first), dim)
    g = h.make_graph(nodes, "g", [vi("x", TP.FLOAT, shape)], [vi("y", TP.FLOAT, yshape), vi("n", TP.INT64, [])],
                     initializer=[sp, nh.from_array(np.array(0, dtype=np.int64), "i0")])
    return h.make_model(g, opset_imports=[h.make_opsetid("", 18)], ir_version=8)


def boundary_stream(run: core.Run, stats: Counter, open_ids):
    """Directed boundary families: several outputs copying one value (main graph / If body / Loop body), SplitToSequence chunk
    counts 1 / 2 / dim × keepdims × axis.  An exception is never explained by the semantic finding C03-D1."""
    rng = run.rng
    fam = []
    for where in ("main", "if", "loop"):
        for source in ("node", "const", "input"):
            for t_out in (False, True):
                for n_out in (2, 3):
                    kinds = [rng.choice(COPY_KINDS) for _ in range(n_out)]
                    if where == "loop" and source == "const":
                        continue
                    fam.append((f"alias_{where}_{source}", m_alias_outputs(where, kinds, t_out, source), {"kinds": kinds, "t_out": t_out}))
    for dim in (1, 4):
        for split in ([dim], dim, dim + 3, 1, [1, dim - 1] if dim > 1 else [1], 2):
            for keepdims in (0, 1):
                for axis, rank2 in ((0, False), (-1, False), (0, True), (1, True), (-1, True)):
                    if np.ndim(split) == 0 and split == 2 and dim == 1:
                        continue
                    fam.append(("sts_boundary", m_sts_boundary(dim, split, keepdims, axis, rank2),
                                {"dim": dim, "split": split, "keepdims": keepdims, "axis": axis, "rank2": rank2}))
    failures = []
    for name, m, info in fam:
        try:
            onnx.checker.check_model(m, full_check=True)
            sess = L.ort_session(m)
            sess.run(None, {i.name: (np.ones([d.dim_value for d in i.type.tensor_type.shape.dim], dtype=np.float32)
                                     if i.type.tensor_type.elem_type == TP.FLOAT else np.array(True)) for i in m.graph.input})
        except Exception as e:
            if name == "sts_boundary":
                stats["boundary_host_not_executable"] += 1  # e.g. keepdims=0 with a chunk longer than 1: outside the property
                continue
            raise core.Infra(f"C04 boundary family {name} {info}: host model invalid: {str(e)[:200]}")
        for api, opts in (("fold_constants", {}), ("optimize", {}), ("optimize", {"num_iterations": 1, "onnx_shape_inference": False})):
            key = name.split("_")[0]
            stats[f"boundary_{key}"] += 1
            d = judge_boundary(m, api, opts, rng)
            if not d:
                stats[f"boundary_pass_{key}"] += 1
                continue
            if "C03-D1" in open_ids and name == "sts_boundary" and info["keepdims"] == 0 and c03d1_symptom(d):
                stats["known_C03-D1_in_stream"] += 1
                continue
            failures.append(({"family": name, "info": info, "model_b64": R.b64(m), "api": api, "opts": opts}, d))
    return failures


def c03d1_symptom(d: str) -> bool:
    """what C03-D1 (keepdims=0 honoured although `split` is given) looks like: the inserted Squeeze changes a shape — never an
    exception"""
    if " raised " in d or "root cause" in d:
        return False
    return (("ShapeInferenceError" in d and ("Squeeze" in d or "SequenceConstruct" in d)) or "declared shape" in d
            or re.search(r"shape \(", d) is not None)


def judge_boundary(m, api, opts, rng) -> str | None:
    d = R.judge_validity(m, api, opts, rng, [])
    if d:
        if " raised " in d:
            d += " | root cause: " + root_cause(api, m, opts)
        return d
    m2 = R.apply_api(api, m, opts)
    feeds = []
    for k in range(2):
        f = {}
        for i in m.graph.input:
            shp = [dd.dim_value for dd in i.type.tensor_type.shape.dim]
            f[i.name] = (np.arange(int(np.prod(shp)) or 1, dtype=np.float32).reshape(shp) - k) if i.type.tensor_type.elem_type == TP.FLOAT else np.array(k == 0)
        feeds.append(f)
    sd = L.semantic_diff(m, m2, feeds, must_run=True)
    return f"{api}({opts}) changes what the model computes: {sd}" if sd else None


# ----------------------------------------------------------------------------- function tie for the two function families


def function_tie_stream(drv, stats: Counter, hist: Counter):
    """Lean `foldFunction` (drv_c03, FN=1) against the real pass on every function of the function-output family (the C04-D13
    witness included: both sides drop the unread initializer) and of the function layout of the shared-names family."""
    from harness import c03_streams as S

    problems = []
    ms = [(f"fout_{kind}_{cond}", m_function_output(kind, cond)) for kind in FOUT_KINDS for cond in (True, False)]
    ms += [(f"sharedfn_{share}_{cond}", m_shared_names("function", share, cond)) for share in SHARE_KINDS for cond in (True, False)]
    for name, m in ms:
        stats["c04_fn_tie_models"] += 1
        for p in S.fold_functions_tie(drv, m, stats, hist):
            problems.append(("tie", {"model_b64": R.b64(m), "in_limit": 8192, "out_limit": 262144, "should_fold": "N", "tags": [name]},
                             f"function tie ({name}): {p}"))
    return problems


def replay_case(case: dict, m: onnx.ModelProto, rng, init_inputs) -> str | None:
    """Re-run a recorded case of one of this module's streams the way the stream ran it."""
    import onnxscript.optimizer as opt

    opts = case.get("opts", {})
    if "history" in case:
        if case["history"] == "pass_object_reuse":
            other = m  # the first model of the pair is not recorded; the second call is what is judged
        else:
            other = None
        try:
            m2, _ = _apply_history(case["history"], m, opts, other)
        except Exception as e:
            return f"raised {type(e).__name__}: {str(e)[:200]}"
        return judge_result(m, m2, rng, init_inputs)
    if "presentation" in case:
        kind = case["presentation"]
        if kind in ("ir_erased_intermediates", "stale_free_value_info_ir"):
            _, mi = present(kind, m)
            try:
                opt.optimize(mi, **opts)
            except Exception as e:
                return f"optimize raised {type(e).__name__}: {str(e)[:200]}"
            return judge_result(m, ir.serde.serialize_model(mi), rng, init_inputs)
        try:  # the recorded proto is the presentation itself
            m2 = R.apply_api("optimize", m, opts)
        except Exception as e:
            return f"optimize raised {type(e).__name__}: {str(e)[:200]}"
        return judge_result(m, m2, rng, init_inputs)
    fam = str(case.get("family", ""))
    if fam.startswith(("alias_", "sts_")):
        return judge_boundary(m, case.get("api", "optimize"), opts, rng)
    return judge_family(m, case.get("api", "optimize"), opts, rng)


# ----------------------------------------------------------------------------- Clip / Relu chains without type information (C04-D14)

CLIP_CHAINS = ("clip_clip", "relu_clip", "clip_relu", "clip_clip_clip", "relu_relu", "clip_nomin_clip", "clip_clip_int")


def m_clip_chain(kind: str, pre: str, annotated: bool) -> onnx.ModelProto:
    """`y = chain(pre(x))` where chain is Clip∘Clip, Clip∘Relu, Relu∘Clip, … with constant bounds (initializers / Constant
    nodes); the intermediate values carry a type only when `annotated` (value_info from shape inference)."""
    dt, npdt = (TP.INT64, np.int64) if kind.endswith("_int") else (TP.FLOAT, np.float32)
    inits = [nh.from_array(np.array(v, dtype=npdt), n) for n, v in (("a", 0), ("b", 4), ("c", 1), ("d", 3), ("e", 2))]
    nodes, cur = [], "x"
    if pre == "neg":
        nodes.append(h.make_node("Neg", ["x"], ["p"]))
        cur = "p"
    steps = {"clip_clip": [("Clip", ["a", "b"]), ("Clip", ["c", "d"])], "relu_clip": [("Relu", []), ("Clip", ["c", "d"])],
             "clip_relu": [("Clip", ["a", "b"]), ("Relu", [])], "clip_clip_clip": [("Clip", ["a", "b"]), ("Clip", ["c", "d"]), ("Clip", ["e", "b"])],
             "relu_relu": [("Relu", []), ("Relu", [])], "clip_nomin_clip": [("Clip", ["", "b"]), ("Clip", ["kc", ""])],
             "clip_clip_int": [("Clip", ["a", "b"]), ("Clip", ["c", "d"])]}[kind]
    if kind == "clip_nomin_clip":
        nodes.append(_const("kc", np.array(1, dtype=npdt)))
    for k, (op, extra) in enumerate(steps):
        out = "y" if k == len(steps) - 1 else f"s{k}"
        nodes.append(h.make_node(op, [cur] + extra, [out]))
        cur = out
    g = h.make_graph(nodes, "g", [vi("x", dt, [3])], [vi("y", dt, [3])], initializer=inits)
    m = h.make_model(g, opset_imports=[h.make_opsetid("", 18)], ir_version=8)
    return onnx.shape_inference.infer_shapes(m, strict_mode=True) if annotated else m


def pred_c04d14(api: str, m: onnx.ModelProto, opts: dict) -> bool:
    """C04-D14, exactly: the call raises and the innermost exception is the AttributeError \"'NoneType' object has no attribute
    'numpy'\" raised in `extract_min_max` of onnxscript/rewriter/rules/common/_fuse_relus_clips.py (a Clip / Relu fusion rule
    reading the element type of a value that carries none)."""
    return root_cause(api, m, opts).startswith(D14_MARK)


def w_c04d14():
    return m_clip_chain("clip_clip", "none", False), None


R.WITNESSES["C04-D14"] = (w_c04d14, "C04-D14")


def clip_chain_stream(run: core.Run, stats: Counter, open_ids):
    """C04-D14 is fixed by c0ccb25: every member must pass (84 calls); `pred_c04d14` is kept as a diagnostic only."""
    failures = []
    for kind in CLIP_CHAINS:
        for pre in ("none", "neg"):
            for annotated in (False, True):
                m = m_clip_chain(kind, pre, annotated)
                try:
                    onnx.checker.check_model(m, full_check=True)
                    L.ort_session(m)
                except Exception as e:
                    raise core.Infra(f"C04 clip-chain family {kind}/{pre}: host model invalid: {str(e)[:200]}")
                for api, opts in (("rewrite", {}), ("optimize", {}), ("optimize", {"num_iterations": 1, "onnx_shape_inference": False})):
                    stats["family_clipchain"] += 1
                    d = judge_chain(m, api, opts, run.rng)
                    if not d:
                        stats["family_pass_clipchain"] += 1
                        continue
                    failures.append(({"family": f"clipchain_{kind}_{pre}_{'typed' if annotated else 'untyped'}", "model_b64": R.b64(m), "api": api, "opts": opts}, d))
    return failures


def judge_chain(m, api, opts, rng) -> str | None:
    d = R.judge_validity(m, api, opts, rng, [])
    if d:
        if " raised " in d:
            d += " | root cause: " + root_cause(api, m, opts)
        return d
    m2 = R.apply_api(api, m, opts)
    dt = np.int64 if m.graph.input[0].type.tensor_type.elem_type == TP.INT64 else np.float32
    feeds = [{"x": np.array(v, dtype=dt)} for v in ([-5, 2, 9], [1, 3, 4], [0, -1, 100])]
    sd = L.semantic_diff(m, m2, feeds, must_run=True)
    return f"{api}({opts}) changes what the model computes: {sd}" if sd else None


def pred_c04d15(desc: dict, detail: str) -> bool:
    """C04-D15, exactly: rewrite with the user rule Identity(x) -> x, the match in an If branch with x a value of the enclosing
    graph (both pass-through variants), and the call does not return within the watchdog."""
    return desc.get("kind") == "ident" and desc.get("where") in ("then", "else") and "did not return" in detail
