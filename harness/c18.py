"""C18 — GraphBuilder / nn.Module graphs compute the trace; parameters named like PyTorch.

Proof obligations: lean/OV/Props/C18.lean (models: lean/OV/Model/C18Builder.lean, C18NN.lean).
Tie: correspondence, two streams.
  * builder stream: a generated trace (operator calls with literal operands, explicit output / node
    names, module scopes, If/Loop bodies built with GraphBuilder.subgraph, call / call_inline of IR and
    script functions) is executed on the real GraphBuilder and on the Lean `build`; every graph
    (names of nodes, values, inputs, outputs, graph-attribute wiring), the root initializers and the
    registered functions are compared verbatim.  Oracle (search + verdict): a name-uniqueness / def-use
    walker over the serialized model, onnx.checker, onnxruntime vs a NumPy replay of the trace.
  * nn stream: a generated construction program (Module / ModuleList / Sequential, setattr, append,
    extend, slice, explicit names, parameters) is executed on the real classes and on the Lean model;
    realised initializer names (graph.initializers keys and each Parameter's final name), state_dict()
    and named_parameters() keys are compared.  Oracle: initializer names = root name + "." + keys.
"""
from __future__ import annotations

import json
import re
from collections import Counter

import numpy as np

from harness import core

PROP_MODULES = ["OV.Props.C18"]
OPSET = 21

# --------------------------------------------------------------------------- lazy imports of /repo


class _R:
    loaded = False


def R():
    if not _R.loaded:
        import onnx
        import onnx_ir as ir
        import onnxruntime as ort

        from harness import c18_fns, c18_fns17, c18_fns18
        from onnxscript import nn
        from onnxscript._internal import builder as B

        ort.set_default_logger_severity(4)
        _R.onnx, _R.ir, _R.ort, _R.B, _R.nn, _R.fns = onnx, ir, ort, B, nn, c18_fns
        _R.fns_by_opset = {17: c18_fns17, 18: c18_fns18, 21: c18_fns}
        _R.loaded = True
    return _R


def irdt(dt: str):
    ir = R().ir
    return {"f32": ir.DataType.FLOAT, "i64": ir.DataType.INT64, "b": ir.DataType.BOOL}[dt]


NPDT = {"f32": np.float32, "i64": np.int64, "b": np.bool_, "b8": np.bool_}

# --------------------------------------------------------------------------- function table


_FN_CACHE: dict = {}


def _softmax0(a, axis=0):
    c = np.stack([a, -a]).astype(np.float32)
    e = np.exp(c - c.max(axis=axis, keepdims=True))
    sm = e / e.sum(axis=axis, keepdims=True)
    return [(sm * c).sum(axis=0).astype(np.float32)]


def make_functions(opset=None):
    """(name, object, numpy implementation, n_in, n_out, attrs) — bodies are read from the real objects.

    attrs: name -> (optional, choices); an optional attribute has a declared default and is omitted half of the time.
    """
    opset = opset or OPSET
    if opset in _FN_CACHE:
        return _FN_CACHE[opset]
    r = R()
    B, ir = r.B, r.ir
    fns = r.fns_by_opset[opset]

    def bf(name, fn, n):
        return B.build_function(
            fn, [ir.Value(name=f"a{i}") for i in range(n)], domain="c18", name=name, opset_imports={"": opset}
        )

    tab = [
        ("negrelu", bf("negrelu", lambda op, a: op.Relu(op.Neg(a)), 1), lambda a: [np.maximum(-a, 0)], 1, 1, {}),
        ("addmul", bf("addmul", lambda op, a, b: [op.Add(a, b), op.Mul(a, b)], 2), lambda a, b: [a + b, a * b], 2, 2, {}),
        ("chain", bf("chain", lambda op, a: op.Abs(op.Tanh(op.Neg(a))), 1), lambda a: [np.abs(np.tanh(-a))], 1, 1, {}),
        ("s_addrelu", fns.s_addrelu, lambda a, b: [np.maximum(a + b, 0)], 2, 1, {}),
        ("s_two", fns.s_two, lambda a: [-a, np.abs(a)], 1, 2, {}),
        ("s_scale", fns.s_scale, lambda a, alpha=1.0: [a * np.float32(alpha)], 1, 1, {"alpha": (False, [1.5, 2.0, -0.5])}),
        # regression for e7b46e0 / 1ed6700: an output that is one of the inputs; a defaulted attribute
        # a bool operand of a function call (no sibling to take a type from)
        ("sel", bf("sel", lambda op, c, a, b: op.Where(c, a, b), 3), lambda c, a, b: [np.where(c, a, b)], 3, 1, {}),
        ("swapneg", bf("swapneg", lambda op, a, b: [b, op.Neg(a)], 2), lambda a, b: [b, -a], 2, 2, {}),
        ("s_default", fns.s_default, lambda a, alpha=2.0: [a * np.float32(alpha)], 1, 1, {"alpha": (True, [1.5, -0.5, 3.0])}),
        # falsy declared defaults (0.0, 0) whose operator-schema default differs (LeakyRelu 0.01, Softmax -1)
        ("s_leaky0", fns.s_leaky0, lambda a, alpha=0.0: [np.where(a >= 0, a, np.float32(alpha) * a).astype(np.float32)],
         1, 1, {"alpha": (True, [0.5, 0.0, 0.1])}),
        ("s_softmax0", fns.s_softmax0, _softmax0, 1, 1, {"axis": (True, [0, 1, -1])}),
    ]

    def ovl(name, overload, fn, n):
        f = bf(name, fn, n)
        return ir.Function(f.domain, f.name, overload, graph=f.graph, attributes={})

    # several overloads of one (domain, name) with different bodies: a call node that loses its
    # `overload` dispatches to the wrong body, which the onnxruntime-vs-NumPy oracle sees
    tab += [
        ("ovl", ovl("ovl", "neg", lambda op, a: op.Neg(a), 1), lambda a: [-a], 1, 1, {}),
        ("ovl", ovl("ovl", "abs", lambda op, a: op.Abs(a), 1), lambda a: [np.abs(a)], 1, 1, {}),
        ("ovl", ovl("ovl", "twice", lambda op, a: op.Add(a, a), 1), lambda a: [a + a], 1, 1, {}),
        ("mix", ovl("mix", "", lambda op, a, b: op.Sub(a, b), 2), lambda a, b: [a - b], 2, 1, {}),
        ("mix", ovl("mix", "mul", lambda op, a, b: [op.Mul(a, b), op.Max(a, b)], 2), lambda a, b: [a * b, np.maximum(a, b)], 2, 2, {}),
    ]
    # functions as they come out of a FunctionProto / onnx.parser text or a hand-written ir.node(...): the body
    # *nodes* carry no name, the values do.  Inlined twice, only the per-call-site prefix keeps the value names apart.
    def parsed(name, body, outs):
        txt = f'<opset_import: ["" : {opset}], domain: "c18">\n{name} (a0) => ({outs}) {{ {body} }}'
        return ir.serde.deserialize_function(r.onnx.parser.parse_function(txt))

    def half_named(name, fn, n):
        f = bf(name, fn, n)
        for i, node in enumerate(f.graph):
            if i % 2 == 0:
                node.name = None
        return f

    tab += [
        ("pf_unnamed", parsed("pf_unnamed", "t = Neg(a0) u = Abs(t)", "u"), lambda a: [np.abs(-a)], 1, 1, {}),
        ("pf_two", parsed("pf_two", "t = Relu(a0) u = Neg(t) w = Add(t, u)", "u, w"),
         lambda a: [-np.maximum(a, 0), np.maximum(a, 0) - np.maximum(a, 0)], 1, 2, {}),
        ("hf_mixed", half_named("hf_mixed", lambda op, a: op.Tanh(op.Abs(op.Neg(a))), 1), lambda a: [np.tanh(np.abs(-a))], 1, 1, {}),
    ]
    _FN_CACHE[opset] = tab
    return tab


def special_functions():
    """callees used only by witnesses of known findings."""
    r = R()
    B, ir = r.B, r.ir
    ident = B.build_function(
        lambda op, a: a, [ir.Value(name="a0")], domain="c18", name="ident", opset_imports={"": OPSET}
    )
    f4 = B.build_function(
        lambda op, a: [op.Relu(a), op.Neg(a), op.Abs(a), op.Tanh(a)],
        [ir.Value(name="a0")], domain="c18", name="f", opset_imports={"": OPSET},
    )
    f_1 = B.build_function(
        lambda op, a: op.Relu(a), [ir.Value(name="a0")], domain="c18", name="f_1", opset_imports={"": OPSET}
    )
    return {
        "ident": ("ident", ident, lambda a: [a], 1, 1, {}),
        "f": ("f", f4, lambda a: [np.maximum(a, 0), -a, np.abs(a), np.tanh(a)], 1, 4, {}),
        "f_1": ("f_1", f_1, lambda a: [np.maximum(a, 0)], 1, 1, {}),
        "s_default": ("s_default", R().fns.s_default, lambda a, alpha=2.0: [a * np.float32(alpha)], 1, 1, {}),
    }


def fn_graph(obj):
    ir = R().ir
    return obj.graph if isinstance(obj, ir.Function) else obj.graph()


def fn_domain_name(obj):
    ir = R().ir
    f = obj if isinstance(obj, ir.Function) else obj.function_ir
    return f.domain, f.name, f.overload


def at(s: str) -> str:
    return "@" if s == "" or s is None else s


def aval(v) -> str:
    """canonical text of an attribute value (shared by the trace encoding and the reading of real nodes)."""
    import re as _re
    if isinstance(v, bool):
        return f"i:{int(v)}"
    if isinstance(v, (int, np.integer)):
        return f"i:{int(v)}"
    if isinstance(v, (float, np.floating)):
        return f"f:{float(v)!r}"
    if isinstance(v, str):
        return "s:" + _re.sub(r"[^A-Za-z0-9_.-]", "_", v)
    if isinstance(v, (list, tuple)):
        if all(isinstance(x, (int, np.integer)) for x in v):
            return "is:" + ";".join(str(int(x)) for x in v)
        if all(isinstance(x, (float, np.floating, int)) for x in v):
            return "fs:" + ";".join(repr(float(x)) for x in v)
        return "l"
    return "t"


def real_attrs(n) -> list[tuple[str, str]]:
    """attributes of a real ir.Node, sorted by name, graph-valued ones left out (they are wired separately);
    a reference attribute (function bodies only) reads `>param`."""
    ir = R().ir
    out = []
    for a in n.attributes.values():
        if a.type in (ir.AttributeType.GRAPH, ir.AttributeType.GRAPHS):
            continue
        if a.ref_attr_name is not None:
            out.append((a.name, ">" + a.ref_attr_name))
        elif a.type == ir.AttributeType.TENSOR:
            out.append((a.name, "t"))
        else:
            out.append((a.name, aval(a.value)))
    return sorted(out)


def enc_attrs(d) -> str:
    return "&".join(f"{k}={aval(v)}" for k, v in sorted((d or {}).items())) or "@"


def fn_token(obj) -> str:
    g = fn_graph(obj)
    dom, name, overload = fn_domain_name(obj)
    nodes = []
    for n in g:
        ins = ";".join("@" if i is None else i.name for i in n.inputs)
        outs = ";".join(at(o.name) for o in n.outputs)
        attrs = "&".join(f"{k}={v}" for k, v in real_attrs(n)) or "@"
        nodes.append("^".join([at(n.name or ""), at(n.domain), n.op_type, ins, outs, attrs]))
    ir = R().ir
    fir = obj if isinstance(obj, ir.Function) else obj.function_ir
    params = "&".join(k if a.value is None else f"{k}={aval(a.value)}" for k, a in fir.attributes.items()) or "@"
    return "|".join(
        ["F", name, at(dom), at(overload), ";".join(v.name for v in g.inputs), ";".join(v.name for v in g.outputs),
         "~".join(nodes), params]
    )


# --------------------------------------------------------------------------- trace encoding for the model


def enc_arg(a) -> str:
    if a[0] == "r":
        return f"r{a[1]}"
    if a[0] == "n":
        return "n"
    if a[0] == "s":
        v, dt = a[1], a[2]
        return f"s:{v}:{int(round(float(v) * 1000))}:{'' if dt is None else dt}"
    if a[0] == "l":
        return "l:" + ";".join(str(x) for x in a[1]) + ":" + a[2]
    raise ValueError(a)


def enc_outs(o) -> str:
    return f"a{o[1]}" if o[0] == "a" else "e" + ";".join(at(x) for x in o[1])


def encode(items, out: list[str], done_counter: list[int]):
    for it in items:
        k = it["k"]
        if k == "I":
            out.append(f"I|{it['name']}")
        elif k == "O":
            out.append(
                "|".join(
                    ["O", at(it["op"]), ",".join(enc_arg(a) for a in it["args"]), enc_outs(it["outs"]),
                     at(it.get("nname")), ";".join(str(g) for g in it.get("graphs", [])), enc_attrs(it.get("attrs"))]
                )
            )
        elif k == "P":
            out.append(f"P|{at(it['name'])}")
        elif k == "Q":
            out.append("Q")
        elif k == "C":
            o = it.get("outs")
            out.append("|".join(["C", str(it["f"]), ",".join(enc_arg(a) for a in it["args"]),
                                 "@" if o is None else enc_outs(o), enc_attrs(it.get("attrs"))]))
        elif k == "L":
            o = it.get("outs")
            out.append(
                "|".join(["L", str(it["f"]), ",".join(enc_arg(a) for a in it["args"]),
                          "@" if o is None else "e" + ";".join(at(x) for x in o), at(it.get("pfx", "")),
                          enc_attrs(it.get("attrs"))])
            )
        elif k == "S":
            out.append(f"B|{it['gname']}|" + ";".join(i["name"] for i in it["inputs"]))
            encode(it["body"], out, done_counter)
            if it.get("abort"):
                out.append("A")  # the trace function raises
            else:
                out.append("E|" + ";".join(str(h) for h in it["rets"]) + "|" + ";".join(at(d) for d in it["declared"]))
        elif k == "X":
            out.append(f"X|{it['h']}|{at(it.get('name'))}")
        else:
            raise ValueError(k)


def model_line(case) -> str:
    toks: list[str] = []
    encode(case["trace"], toks, [0])
    return "build " + " ".join(case["fn_tokens"] + toks)


# --------------------------------------------------------------------------- real execution


class RealExec:
    def __init__(self, fnobjs, opset=None):
        r = R()
        self.r = r
        self.fnobjs = fnobjs
        self.g = r.ir.Graph(
            name="main", inputs=[], outputs=[], nodes=[], opset_imports={"": opset or OPSET, "c18": 1, "this": 1}
        )
        self.gb = r.B.GraphBuilder(self.g)
        self.handles: list = []
        self.done: list = []
        self.errs: list[str] = []  # refusals caught by the traced program, in order (model: `St.err`)
        self.scope_changes: list[str] = []  # a refused / aborted call that left a scope stack different

    def arg(self, a):
        if a[0] == "r":
            return self.handles[a[1]]
        if a[0] == "n":
            return None
        if a[0] == "s":
            return a[1]
        return list(a[1])

    def attrs(self, d, plain=False):
        ir = self.r.ir
        out = {}
        for k, v in (d or {}).items():
            if plain:
                out[k] = v
            elif isinstance(v, float):
                out[k] = ir.AttrFloat32(k, float(v))
            else:
                out[k] = ir.AttrInt64(k, int(v))
        return out

    def run(self, items, builder):
        for it in items:
            if not it.get("fault"):
                self.run1(it, builder)
                continue
            # a call the traced program expects to fail: it catches the exception and goes on with the same builder
            before = list(builder._scope_stack)
            raised = True
            try:
                self.run1(it, builder)
                raised = False  # accepted after all (e.g. a pop that finds a leaked scope): the model decides likewise
            except _Abort:
                pass
            except Exception as e:
                self.errs.append(err_token(e))
            if raised and list(builder._scope_stack) != before:
                self.scope_changes.append(f"{it['fault']}: scope stack {[n for n, _ in before]} -> {[n for n, _ in builder._scope_stack]}")

    def run1(self, it, builder):
        ir = self.r.ir
        op = builder.op
        if True:
            k = it["k"]
            if k == "I":
                self.handles.append(builder.input(it["name"], irdt(it["dt"]), list(it["shape"])))
            elif k == "O":
                kw = dict(it.get("attrs") or {})
                for an, gi in zip(it.get("gattr", []), it.get("graphs", [])):
                    kw[an] = self.done[gi]
                o = it["outs"]
                kw["_outputs"] = o[1] if o[0] == "a" else list(o[1])
                if it.get("nname") is not None:
                    kw["_name"] = it["nname"]
                pos = [self.arg(a) for a in it["args"]]
                if it.get("kw_inputs"):
                    for kname, idx in it["kw_inputs"].items():
                        kw[kname] = pos[idx]
                    pos = pos[: min(it["kw_inputs"].values())]
                    while pos and pos[-1] is None:
                        pos.pop()
                res = getattr(op, it["op"])(*pos, **kw)
                self.handles += [res] if isinstance(res, ir.Value) else list(res)
            elif k == "P":
                builder.push_module(it["name"])
            elif k == "Q":
                builder.pop_module()
            elif k == "C":
                o = it.get("outs")
                kw = self.attrs(it.get("attrs"), it.get("plain", False))
                if o is not None:
                    kw["_outputs"] = o[1] if o[0] == "a" else list(o[1])
                res = op.call(self.fnobjs[it["f"]], *[self.arg(a) for a in it["args"]], **kw)
                self.handles += [res] if isinstance(res, ir.Value) else list(res)
            elif k == "L":
                kw = self.attrs(it.get("attrs"), it.get("plain", False))
                if it.get("outs") is not None:
                    kw["_outputs"] = list(it["outs"])
                res = op.call_inline(
                    self.fnobjs[it["f"]], *[self.arg(a) for a in it["args"]], _prefix=it.get("pfx", ""), **kw
                )
                self.handles += [res] if (isinstance(res, ir.Value) or res is None) else list(res)
            elif k == "S":
                ins = [
                    ir.Value(name=i["name"], type=ir.TensorType(irdt(i["dt"])), shape=ir.Shape(list(i["shape"])))
                    for i in it["inputs"]
                ]
                outs = [ir.Value(name=d) for d in it["declared"]]

                captured: list = []

                def fn(op2, *vals, it=it):
                    captured.append(op2.builder.graph)
                    self.handles += list(vals)
                    self.run(it["body"], op2.builder)
                    if it.get("abort"):
                        raise _Abort()
                    return [self.handles[h] for h in it["rets"]]

                try:
                    self.done.append(builder.subgraph(fn, ins, outs, name=it["gname"]))
                except Exception:
                    # the dropped graph stays in the builder tree (`_all_graphs`): shown like a finished one
                    if it.get("fault") and captured:
                        self.done.append(captured[0])
                    raise
            elif k == "X":
                v = self.handles[it["h"]]
                if it.get("dt"):
                    # the builder has no schema for function-call nodes: the user declares the output type
                    if v.type is None:
                        v.type = ir.TensorType(irdt(it["dt"]))
                    if v.shape is None:
                        v.shape = ir.Shape(list(it["shape"]))
                builder.add_output(v, it.get("name"))

    def show(self) -> str:
        ir = self.r.ir
        gidx = {id(g): i for i, g in enumerate(self.done)}

        def nm(v):
            return "~" if v is None else (v.name or "")

        def node(n):
            ga = {a.name: str(gidx.get(id(a.value), -1)) for a in n.attributes.values() if a.type == ir.AttributeType.GRAPH}
            gs = [ga.pop(k) for k in ("then_branch", "else_branch", "body") if k in ga] + list(ga.values())
            # an unnamed body node stays unnamed through `call_inline`; `ir.Graph.append` then lets onnx_ir's
            # NameAuthority name it `node_{op}_{k}` (library behaviour, not modelled): canonicalised to "no name"
            nname = "" if re.fullmatch(r"node_.+_\d+", n.name or "") else (n.name or "")
            return "|".join(
                [nname, n.domain, n.op_type + (":" + n.overload if n.overload else ""), ",".join(nm(i) for i in n.inputs),
                 ",".join(nm(o) for o in n.outputs), ",".join(gs), "&".join(f"{k}={v}" for k, v in real_attrs(n))]
            )

        parts = []
        for g in [self.g] + self.done:
            parts.append(
                f"{g.name} in={','.join(nm(v) for v in g.inputs)} out={','.join(nm(v) for v in g.outputs)} nodes="
                + "!".join(node(n) for n in g)
            )
        funcs = [f"{k[0]}:{k[1]}:{k[2]}" for k in self.gb.functions.keys()]
        return (
            " ## ".join(parts) + " ## INIT " + ",".join(self.g.initializers.keys())
            + " ## FUNCS " + ",".join(funcs) + " ## OPEN 0 ## ERR " + (",".join(self.errs) or "-")
        )

    def proto(self):
        ir = self.r.ir
        m = ir.Model(self.g, ir_version=10, functions=list(self.gb.functions.values()))
        return ir.to_proto(m)


class _Abort(Exception):
    """raised by a generated trace function / forward: the user's own exception."""


def err_token(e) -> str:
    m = str(e)
    if "Too many inputs" in m:
        return "too-many-inputs"
    if "does not match" in m or "were declared in outputs" in m:
        return "outputs-mismatch"
    if "Cannot pop_module" in m:
        return "pop-empty"
    return type(e).__name__


def run_real(case):
    ex = RealExec(case["fnobjs"], case.get("opset"))
    try:
        ex.run(case["trace"], ex.gb)
    except Exception as e:  # the builder refused / crashed
        return ex, f"{type(e).__name__}: {str(e)[:160]}"
    return ex, None


# --------------------------------------------------------------------------- oracles on the serialized model


def walk_names(proto):
    """value-definition sites and node names over all (nested) graphs: [(name, graph-path)]."""
    vals, nodes = [], []

    def walk(g, path):
        for i in g.input:
            vals.append((i.name, path))
        for i in g.initializer:
            if i.name not in {x.name for x in g.input}:
                vals.append((i.name, path))
        for n in g.node:
            if n.name:
                nodes.append((n.name, path))
            for o in n.output:
                if o:
                    vals.append((o, path))
            for a in n.attribute:
                if a.type == 5:  # GRAPH
                    walk(a.g, path + "/" + a.g.name)

    walk(proto.graph, "main")
    return vals, nodes


def duplicates(pairs):
    by = {}
    for n, p in pairs:
        by.setdefault(n, []).append(p)
    return {n: ps for n, ps in by.items() if len(ps) > 1}


def defuse_ok(proto) -> str | None:
    """every node input is a graph input / initializer / earlier node output of this or an outer graph."""

    def walk(g, outer):
        scope = set(outer) | {i.name for i in g.input} | {i.name for i in g.initializer}
        for n in g.node:
            for i in n.input:
                if i and i not in scope:
                    return f"node {n.name} uses undefined value {i!r}"
            for a in n.attribute:
                if a.type == 5:
                    r = walk(a.g, scope)
                    if r:
                        return r
            scope |= {o for o in n.output if o}
        for o in g.output:
            if o.name not in scope:
                return f"graph output {o.name!r} undefined"
        return None

    return walk(proto.graph, set())


# --------------------------------------------------------------------------- numpy replay

OPS = {}


def _reg():
    f = OPS
    f["Relu"] = lambda a, k: np.maximum(a[0], 0)
    f["Neg"] = lambda a, k: -a[0]
    f["Abs"] = lambda a, k: np.abs(a[0])
    f["Sigmoid"] = lambda a, k: (1 / (1 + np.exp(-a[0].astype(np.float64)))).astype(np.float32)
    f["Tanh"] = lambda a, k: np.tanh(a[0])
    f["Floor"] = lambda a, k: np.floor(a[0])
    f["Ceil"] = lambda a, k: np.ceil(a[0])
    f["Identity"] = lambda a, k: a[0]
    f["Sign"] = lambda a, k: np.sign(a[0])
    f["Add"] = lambda a, k: a[0] + a[1]
    f["Sub"] = lambda a, k: a[0] - a[1]
    f["Mul"] = lambda a, k: a[0] * a[1]
    f["Div"] = lambda a, k: a[0] / a[1]
    f["Max"] = lambda a, k: np.maximum(a[0], a[1])
    f["Min"] = lambda a, k: np.minimum(a[0], a[1])
    f["Less"] = lambda a, k: a[0] < a[1]
    f["Greater"] = lambda a, k: a[0] > a[1]
    f["Equal"] = lambda a, k: a[0] == a[1]
    f["And"] = lambda a, k: np.logical_and(a[0], a[1])
    f["Or"] = lambda a, k: np.logical_or(a[0], a[1])
    f["Xor"] = lambda a, k: np.logical_xor(a[0], a[1])
    f["Not"] = lambda a, k: np.logical_not(a[0])
    f["Where"] = lambda a, k: np.where(a[0], a[1], a[2])
    f["Cast"] = lambda a, k: a[0].astype({1: np.float32, 7: np.int64, 9: np.bool_}[k["to"]])
    f["Clip"] = lambda a, k: np.clip(a[0], a[1], a[2]) if a[1] is not None else np.minimum(a[0], a[2])
    f["Split"] = lambda a, k: tuple(np.split(a[0], 3))

    def red(fn):
        return lambda a, k: fn(a[0], axis=tuple(a[1]) if len(a) > 1 else tuple(k["axes"]), keepdims=True)

    f["ReduceSum"] = red(np.sum)
    f["ReduceMax"] = red(np.max)
    f["ReduceMin"] = red(np.min)
    f["ReduceMean"] = lambda a, k: red(np.mean)(a, k).astype(a[0].dtype)
    f["Concat"] = lambda a, k: np.concatenate([a[0], a[1]], axis=0)
    f["Reshape"] = lambda a, k: np.reshape(a[0], tuple(a[1]))
    f["Slice"] = lambda a, k: a[0][int(a[1][0]) : int(a[2][0])]
    f["Expand"] = lambda a, k: a[0] * np.ones(tuple(a[1]), dtype=a[0].dtype)
    f["Shape"] = lambda a, k: np.array(a[0].shape, dtype=np.int64)

    def topk(a, k):
        kk = int(a[1][0])
        idx = np.argsort(-a[0], kind="stable")[:kk]
        return a[0][idx], idx.astype(np.int64)

    f["TopK"] = topk


_reg()


class Replay:
    def __init__(self, case, feeds):
        self.case = case
        self.env: dict[int, np.ndarray] = {}
        self.feeds = feeds
        self.subs: list = []  # (item, first handle of its inputs), in completion order
        self.outputs: list = []
        self.index(case["trace"], 0)

    def index(self, items, h):
        for it in items:
            if it["k"] == "S":
                base = h
                h = self.index(it["body"], h + len(it["inputs"]))
                self.subs.append((it, base))
            else:
                h = self.count([it], h)
        return h

    def lit(self, a, like):
        if a[0] == "s":
            dt = a[2] or ("b" if isinstance(a[1], bool) else "f32" if isinstance(a[1], float) else "i64")
            return np.asarray(a[1], dtype=NPDT[dt])
        return np.asarray(a[1], dtype=np.int64)

    def arg(self, a):
        if a[0] == "r":
            return self.env[a[1]]
        if a[0] == "n":
            return None
        return self.lit(a, None)

    def count(self, items, h):
        for it in items:
            k = it["k"]
            if k == "I":
                h += 1
            elif k == "O":
                h += it["outs"][1] if it["outs"][0] == "a" else len(it["outs"][1])
            elif k == "C":
                h += self.case["fn_nout"][it["f"]]
            elif k == "L":
                h += 0 if it.get("fault") else self.case["fn_nout"][it["f"]]
            elif k == "S":
                h = self.count(it["body"], h + len(it["inputs"]))
        return h

    def run(self, items, h, top=False):
        for it in items:
            k = it["k"]
            if k == "I":
                self.env[h] = self.feeds[it["name"]]
                h += 1
            elif k == "O":
                n = it["outs"][1] if it["outs"][0] == "a" else len(it["outs"][1])
                args = [self.arg(a) for a in it["args"]]
                if it["op"] == "If":
                    s = self.subs[it["graphs"][0] if bool(args[0]) else it["graphs"][1]]
                    self.run(s[0]["body"], s[1] + len(s[0]["inputs"]))
                    res = [self.env[r] for r in s[0]["rets"]]
                elif it["op"] == "Loop":
                    s, base = self.subs[it["graphs"][0]]
                    m, cond, carried = int(args[0]), bool(args[1]), list(args[2:])
                    i = 0
                    while i < m and cond:
                        vals = [np.asarray(i, dtype=np.int64), np.asarray(cond)] + carried
                        for j, v in enumerate(vals):
                            self.env[base + j] = v
                        self.run(s["body"], base + len(s["inputs"]))
                        outs = [self.env[r] for r in s["rets"]]
                        cond, carried = bool(outs[0]), outs[1:]
                        i += 1
                    res = carried
                else:
                    with np.errstate(all="ignore"):
                        res = OPS[it["op"]](args, it.get("attrs") or {})
                    res = list(res) if isinstance(res, tuple) else [res]
                for j in range(n):
                    self.env[h + j] = res[j]
                h += n
            elif k in ("C", "L") and it.get("fault"):
                pass  # refused: nothing is traced
            elif k in ("C", "L"):
                impl = self.case["fn_impl"][it["f"]]
                with np.errstate(all="ignore"):
                    res = impl(*[self.arg(a) for a in it["args"]], **(it.get("attrs") or {}))
                for j, v in enumerate(res):
                    self.env[h + j] = v
                h += len(res)
            elif k == "S":
                h = self.count(it["body"], h + len(it["inputs"]))
            elif k == "X" and top:
                self.outputs.append(self.env[it["h"]])
        return h


def run_ort(proto, feeds):
    ort = R().ort
    so = ort.SessionOptions()
    so.graph_optimization_level = ort.GraphOptimizationLevel.ORT_DISABLE_ALL
    so.log_severity_level = 4
    sess = ort.InferenceSession(proto.SerializeToString(), so, providers=["CPUExecutionProvider"])
    return sess.run(None, feeds)


def make_feeds(case, rng):
    feeds = {}
    for it in case["trace"]:
        if it["k"] == "I":
            shp = tuple(it["shape"])
            if it["dt"] == "f32":
                feeds[it["name"]] = np.array([rng.choice([-2.0, -1.5, -0.5, 0.0, 0.25, 0.5, 1.0, 1.5, 2.0]) for _ in range(int(np.prod(shp)) if shp else 1)], dtype=np.float32).reshape(shp)
            elif it["dt"] == "i64":
                feeds[it["name"]] = np.array([rng.randint(-3, 3) for _ in range(int(np.prod(shp)) if shp else 1)], dtype=np.int64).reshape(shp)
            else:
                feeds[it["name"]] = np.array([rng.random() < 0.5 for _ in range(int(np.prod(shp)) if shp else 1)], dtype=np.bool_).reshape(shp)
    return feeds


# --------------------------------------------------------------------------- trace generator

UN = {"f32": ["Relu", "Neg", "Abs", "Sigmoid", "Tanh", "Floor", "Ceil", "Identity", "Sign"],
      "i64": ["Neg", "Abs", "Identity", "Sign"], "b": ["Not", "Identity"]}
# no Div: x / ±0 exposes the sign of zero (Max(0,-0), Ceil(-0.5)…), which runtimes and NumPy order differently
BIN = {"f32": ["Add", "Sub", "Mul", "Max", "Min", "Pow"][:5], "i64": ["Add", "Sub", "Mul", "Max", "Min"],
       "b": ["And", "Or", "Xor"]}
CMP = ["Less", "Greater", "Equal"]
SCOPES = ["blk", "layers.0", "enc", "", "h1"]


class TraceGen:
    def __init__(self, rng, fntab, subgraphs="none", stats=None, opset=None):
        self.rng = rng
        self.opset = opset or OPSET
        self.fntab = fntab
        self.mode = subgraphs  # none | explicit | auto
        self.h = 0
        self.uid = 0
        self.ndone = 0
        self.stats = stats if stats is not None else Counter()
        # visible values: (handle, dt, shape, typed)
        self.vis: list[tuple] = []
        self.alias: set[int] = set()
        self.faults = 0.0  # probability of a fault item (a call that raises and is caught; then the trace goes on)

    def fresh(self, base="y"):
        self.uid += 1
        return f"{base}{self.uid}"

    def pick(self, pred=lambda v: True):
        c = [v for v in self.vis if pred(v)]
        return self.rng.choice(c) if c else None

    def outs_for(self, n, in_sub):
        """output naming: explicit inside subgraphs in `explicit` mode, otherwise mostly automatic."""
        if (in_sub and self.mode == "explicit") or self.rng.random() < 0.12:
            self.stats["explicit_outs"] += 1
            return ["e", [self.fresh() for _ in range(n)]]
        return ["a", n]

    def nname_for(self, in_sub):
        if (in_sub and self.mode == "explicit") or self.rng.random() < 0.06:
            self.stats["explicit_node_name"] += 1
            return self.fresh("node")
        return None

    def emit_op(self, items, op, args, metas, in_sub, attrs=None, typed=True):
        o = self.outs_for(len(metas), in_sub)
        items.append({"k": "O", "op": op, "args": args, "outs": o, "nname": self.nname_for(in_sub), "attrs": attrs or {}})
        for dt, shp in metas:
            self.vis.append((self.h, dt, shp, typed))
            self.h += 1
        self.stats["op_" + op] += 1

    def scalar_lit(self, dt):
        if dt == "f32":
            v = self.rng.choice([1.0, 2.0, 0.5, -0.5, 1.5, -1.0, 3, 2, -2, 0.25])
        else:
            v = self.rng.choice([1, 2, 3, -1, -2, 5])
        self.stats["lit_scalar"] += 1
        return ["s", v, dt]

    def gen_op(self, items, in_sub, want=None):
        """one operator call; `want=(dt, shape)` forces the result type (used for branch results)."""
        rng = self.rng
        if want is not None:
            dt, shp = want
            src = self.pick(lambda v: v[1] == dt and v[2] == shp)
            if src is None:
                raise core.Infra("generator: no value of the wanted type")
            typed = src[3]
            if dt != "b" and typed and rng.random() < 0.5:
                op = rng.choice(BIN[dt][:5])
                args = [["r", src[0]], self.scalar_lit(dt)]
                if rng.random() < 0.3:
                    args.reverse()
                self.emit_op(items, op, args, [(dt, shp)], in_sub, typed=typed)
            else:
                self.emit_op(items, rng.choice(UN[dt]), [["r", src[0]]], [(dt, shp)], in_sub, typed=typed)
            return
        kind = rng.choice(["un", "un", "bin", "bin", "bin", "binlit", "binlit", "cmp", "bool", "where", "cast",
                           "clip", "split", "topk", "reduce", "concat", "reshape", "slice", "expand", "shape"])
        if kind == "un":
            v = self.pick()
            self.emit_op(items, rng.choice(UN[v[1]]), [["r", v[0]]], [(v[1], v[2])], in_sub, typed=v[3])
        elif kind in ("bin", "cmp"):
            a = self.pick(lambda v: v[1] != "b")
            b = self.pick(lambda v: v[1] == a[1] and (v[2] == a[2] or len(v[2]) == 0 or len(a[2]) == 0 or v[2] == (1,) or a[2] == (1,)))
            shp = tuple(np.broadcast_shapes(a[2], b[2]))
            op = rng.choice(BIN[a[1]]) if kind == "bin" else rng.choice(CMP)
            self.emit_op(items, op, [["r", a[0]], ["r", b[0]]], [(a[1] if kind == "bin" else "b", shp)], in_sub, typed=a[3] and b[3])
        elif kind == "binlit":
            a = self.pick(lambda v: v[1] != "b" and v[3])
            if a is None:
                return self.gen_op(items, in_sub)
            args = [["r", a[0]], self.scalar_lit(a[1])]
            if rng.random() < 0.3:
                args.reverse()
                self.stats["lit_left"] += 1
            self.emit_op(items, rng.choice(BIN[a[1]][:5]), args, [(a[1], a[2])], in_sub)
        elif kind == "bool":
            a = self.pick(lambda v: v[1] == "b")
            if a is None:
                return self.gen_op(items, in_sub)
            if a[3] and rng.random() < 0.3:  # bool literal beside a typed BOOL value: `const_True_b8`
                self.emit_op(items, rng.choice(BIN["b"]), [["r", a[0]], ["s", rng.choice([True, False]), "b8"]],
                             [("b", a[2])], in_sub)
                self.stats["bool_lit_sibling"] += 1
                return
            b = self.pick(lambda v: v[1] == "b" and (v[2] == a[2] or len(v[2]) == 0 or len(a[2]) == 0))
            shp = tuple(np.broadcast_shapes(a[2], b[2]))
            self.emit_op(items, rng.choice(BIN["b"]), [["r", a[0]], ["r", b[0]]], [("b", shp)], in_sub, typed=a[3] and b[3])
        elif kind == "where":
            c = self.pick(lambda v: v[1] == "b")
            x = self.pick(lambda v: v[1] != "b")
            if c is None or not (c[2] == x[2] or len(c[2]) == 0 or len(x[2]) == 0 or c[2] == (1,) or x[2] == (1,)):
                return self.gen_op(items, in_sub)
            if rng.random() < 0.3:
                # a Python bool with no like-typed sibling: untyped literal -> `const_True` (BOOL by inference)
                y = self.pick(lambda v: v[1] == x[1] and v[2] == x[2])
                self.emit_op(items, "Where", [["s", rng.choice([True, False]), None], ["r", x[0]], ["r", y[0]]],
                             [(x[1], x[2])], in_sub, typed=x[3] and y[3])
                self.stats["bool_lit_no_sibling"] += 1
                self.stats["bool_lit_where"] += 1
                return
            shp = tuple(np.broadcast_shapes(c[2], x[2]))
            self.emit_op(items, "Where", [["r", c[0]], ["r", x[0]], ["r", x[0]]], [(x[1], shp)], in_sub, typed=c[3] and x[3])
        elif kind == "cast":
            v = self.pick(lambda v: v[1] in ("i64", "b"))
            if v is None:
                return self.gen_op(items, in_sub)
            to = rng.choice(["f32", "i64"])
            self.emit_op(items, "Cast", [["r", v[0]]], [(to, v[2])], in_sub, attrs={"to": {"f32": 1, "i64": 7}[to]}, typed=v[3])
        elif kind == "clip":
            v = self.pick(lambda v: v[1] == "f32" and v[3])
            if v is None:
                return self.gen_op(items, in_sub)
            if rng.random() < 0.3:  # an absent optional operand (`None`)
                self.emit_op(items, "Clip", [["r", v[0]], ["n"], ["s", 1.0, "f32"]], [("f32", v[2])], in_sub)
                if rng.random() < 0.5:
                    # written `op.Clip(x, max=1.0)`: the keyword input must land in its own slot (b7afd5e)
                    items[-1]["kw_inputs"] = {"max": 2}
                    self.stats["keyword_input_after_omitted"] += 1
                self.stats["none_operand"] += 1
                self.stats["lit_scalar"] += 1
            else:
                self.emit_op(items, "Clip", [["r", v[0]], ["s", -1.0, "f32"], ["s", 1.0, "f32"]], [("f32", v[2])], in_sub)
                self.stats["lit_scalar"] += 2
        elif kind == "split":
            v = self.pick(lambda v: v[2] == (3,) and v[1] != "b")
            if v is None:
                return self.gen_op(items, in_sub)
            if self.opset >= 18:
                self.emit_op(items, "Split", [["r", v[0]]], [(v[1], (1,))] * 3, in_sub, attrs={"num_outputs": 3}, typed=v[3])
            else:  # before opset 18 there is no num_outputs attribute: the sizes are an input
                self.emit_op(items, "Split", [["r", v[0]], ["l", [1, 1, 1], "i64"]], [(v[1], (1,))] * 3, in_sub, typed=v[3])
                self.stats["lit_list"] += 1
            self.stats["multi_output"] += 1
        elif kind == "topk":
            v = self.pick(lambda v: v[1] == "f32" and len(v[2]) == 1 and v[2][0] >= 2)
            if v is None:
                return self.gen_op(items, in_sub)
            self.emit_op(items, "TopK", [["r", v[0]], ["l", [2], "i64"]], [("f32", (2,)), ("i64", (2,))], in_sub, typed=v[3])
            self.stats["lit_list"] += 1
            self.stats["multi_output"] += 1
        elif kind == "reduce":
            v = self.pick(lambda v: v[1] != "b" and len(v[2]) == 1)
            if v is None:
                return self.gen_op(items, in_sub)
            rop = rng.choice(["ReduceSum", "ReduceMax", "ReduceMin"] + (["ReduceMean"] if v[1] == "f32" else []))
            if rop == "ReduceSum" or self.opset >= 18:
                self.emit_op(items, rop, [["r", v[0]], ["l", [0], "i64"]], [(v[1], (1,))], in_sub, typed=v[3])
                self.stats["lit_list"] += 1
            else:  # before opset 18 `axes` is an attribute of ReduceMax/Min/Mean
                self.emit_op(items, rop, [["r", v[0]]], [(v[1], (1,))], in_sub, attrs={"axes": [0]}, typed=v[3])
                self.stats["reduce_axes_attr"] += 1
        elif kind == "concat":
            a = self.pick(lambda v: len(v[2]) == 1 and v[2][0] <= 3)
            if a is None:
                return self.gen_op(items, in_sub)
            b = self.pick(lambda v: v[1] == a[1] and len(v[2]) == 1 and v[2][0] <= 3)
            self.emit_op(items, "Concat", [["r", a[0]], ["r", b[0]]], [(a[1], (a[2][0] + b[2][0],))], in_sub, attrs={"axis": 0}, typed=a[3] and b[3])
        elif kind == "reshape":
            v = self.pick(lambda v: len(v[2]) == 1)
            if v is None:
                return self.gen_op(items, in_sub)
            tgt = rng.choice([[-1], [v[2][0]]])
            self.emit_op(items, "Reshape", [["r", v[0]], ["l", tgt, "i64"]], [(v[1], v[2])], in_sub, typed=v[3])
            self.stats["lit_list"] += 1
        elif kind == "slice":
            v = self.pick(lambda v: len(v[2]) == 1 and v[2][0] >= 2)
            if v is None:
                return self.gen_op(items, in_sub)
            self.emit_op(items, "Slice", [["r", v[0]], ["l", [0], "i64"], ["l", [2], "i64"]], [(v[1], (2,))], in_sub, typed=v[3])
            self.stats["lit_list"] += 2
        elif kind == "expand":
            v = self.pick(lambda v: v[2] == (1,))
            if v is None:
                return self.gen_op(items, in_sub)
            self.emit_op(items, "Expand", [["r", v[0]], ["l", [3], "i64"]], [(v[1], (3,))], in_sub, typed=v[3])
            self.stats["lit_list"] += 1
        elif kind == "shape":
            v = self.pick(lambda v: len(v[2]) == 1)
            if v is None:
                return self.gen_op(items, in_sub)
            self.emit_op(items, "Shape", [["r", v[0]]], [("i64", (1,))], in_sub, typed=v[3])

    def gen_call(self, items, in_sub, inline, force_fi=None):
        rng = self.rng
        fi = rng.randrange(len(self.fntab)) if force_fi is None else force_fi
        name, obj, impl, nin, nout, attrs = self.fntab[fi]
        if name == "swapneg":
            inline = True  # onnxruntime refuses a FunctionProto whose output is one of its inputs: inline only
        if inline and in_sub and name in ("pf_unnamed", "pf_two", "hf_mixed"):
            # unnamed body nodes are named by onnx_ir's per-graph NameAuthority (`node_Neg_0` in the main graph and
            # again in a subgraph): kept to the main graph here, see design_notes/C18.md (round 5)
            inline = False

        siblings = [j for j, f in enumerate(self.fntab) if f[0] == name and j != fi]
        if siblings:
            self.stats["call_overloaded_name" if not inline else "inline_overloaded_name"] += 1
        srcs = [self.pick(lambda v: v[1] == "f32" and v[2] == (3,)) for _ in range(nin)]
        if any(s is None for s in srcs):
            return self.gen_op(items, in_sub)
        args = [["r", s[0]] for s in srcs]
        if name == "sel":
            args[0] = ["s", rng.choice([True, False]), None]
            self.stats["bool_lit_no_sibling"] += 1
            self.stats["bool_lit_call"] += 1
        at_ = {}
        for an, (optional, choices) in attrs.items():
            if optional and rng.random() < 0.5:
                self.stats["default_attr_omitted"] += 1
                self.stats["default_attr_omitted_" + name] += 1
                continue
            at_[an] = rng.choice(choices)
        plain = bool(at_) and rng.random() < 0.5  # plain Python attribute value instead of ir.Attr
        self.stats["plain_attr"] += plain
        if inline:
            if rng.random() < 0.25 and nin == 2 and name != "swapneg":
                args[1] = ["s", rng.choice([1.5, 0.5, 2.0]), "f32"]  # literal operand of an inlined function (06b8334)
                self.stats["inline_literal_arg"] += 1
            o = [self.fresh() for _ in range(nout)] if rng.random() < 0.35 else None
            pfx = rng.choice(["", "", "pre", "layers.1"])
            items.append({"k": "L", "f": fi, "args": args, "outs": o, "pfx": pfx, "attrs": at_, "plain": plain})
            self.stats["inline"] += 1
            self.stats["inline_prefix"] += pfx != ""
            self.stats["inline_named"] += o is not None
            # (values of a parsed FunctionProto carry no type information: the clones' outputs stay untyped)
            typed = all(s[3] for s in srcs) and name not in ("pf_unnamed", "pf_two", "hf_mixed")
        else:
            if rng.random() < 0.25 and nin == 2:
                args[1] = ["s", rng.choice([1.5, 0.5, 2.0]), "f32"]  # literal operand of a function call
                self.stats["call_literal_arg"] += 1
            r = rng.random()
            o = None if r < 0.5 else (["a", nout] if r < 0.7 else ["e", [self.fresh() for _ in range(nout)]])
            items.append({"k": "C", "f": fi, "args": args, "outs": o, "attrs": at_, "plain": plain})
            self.stats["call"] += 1
            typed = False  # no schema: the builder cannot infer the node's output types
        if inline and name == "swapneg":
            self.alias.add(self.h)  # first output is the caller's own value: not used as a graph output
            self.stats["inline_passthrough"] += 1
        for _ in range(nout):
            self.vis.append((self.h, "f32", (3,), typed))
            self.h += 1
        if inline and name in ("pf_unnamed", "pf_two", "hf_mixed"):
            self.stats["inline_unnamed_body"] += 1
            if force_fi is None and rng.random() < 0.75:
                # the same function inlined again into the same builder tree: the second set of clones
                self.stats["inline_unnamed_body_twice"] += 1
                self.gen_call(items, in_sub, inline=True, force_fi=fi)
        if siblings and force_fi is None and rng.random() < 0.7:
            # another overload of the same (domain, name) in the same trace, as a node or inlined
            self.gen_call(items, in_sub, inline=rng.random() < 0.4, force_fi=rng.choice(siblings))
            self.stats["two_overloads_in_trace"] += 1

    def gen_sub(self, gname, inputs, body_fn, declared_n):
        """returns the S item; `body_fn(items)` generates the body and returns the ret handles."""
        saved = list(self.vis)
        for i in inputs:
            self.vis.append((self.h, i["dt"], tuple(i["shape"]), True))
            self.h += 1
        body: list = []
        rets = body_fn(body)
        declared = [self.fresh("sub_out") if (self.mode == "explicit" or self.rng.random() < 0.5) else "" for _ in range(declared_n)]
        self.vis = saved
        self.ndone += 1
        return {"k": "S", "gname": gname, "inputs": inputs, "body": body, "rets": rets, "declared": declared}

    def gen_if(self, items, depth):
        cond = self.pick(lambda v: v[1] == "b" and v[2] == ())
        tgt = self.pick(lambda v: v[1] != "b")
        if cond is None or tgt is None:
            return self.gen_op(items, depth > 0)
        want = (tgt[1], tgt[2])
        idx = []
        for br in ("then", "else"):
            def body_fn(body, br=br):
                for _ in range(self.rng.randint(0, 2)):
                    self.gen_item(body, depth + 1)
                self.gen_op(body, True, want=want)
                return [self.h - 1]
            items.append(self.gen_sub(f"{br}_{self.fresh('g')}", [], body_fn, 1))
            idx.append(self.ndone - 1)
        o = self.outs_for(1, depth > 0)
        cond_arg = ["r", cond[0]]
        if self.rng.random() < 0.25:
            cond_arg = ["s", self.rng.choice([True, False]), None]
            self.stats["bool_lit_no_sibling"] += 1
            self.stats["bool_lit_if"] += 1
        items.append({"k": "O", "op": "If", "args": [cond_arg], "outs": o, "nname": self.nname_for(depth > 0),
                      "graphs": idx, "gattr": ["then_branch", "else_branch"], "attrs": {}})
        self.vis.append((self.h, want[0], want[1], False))
        self.h += 1
        self.stats["If"] += 1
        self.stats[f"sub_depth_{depth + 1}"] += 2

    def gen_loop(self, items, depth):
        cond = self.pick(lambda v: v[1] == "b" and v[2] == ())
        acc = self.pick(lambda v: v[1] in ("f32", "i64") and len(v[2]) == 1)
        if cond is None or acc is None:
            return self.gen_op(items, depth > 0)
        want = (acc[1], acc[2])
        u = self.fresh("")
        inputs = [{"name": f"iter{u}", "dt": "i64", "shape": []}, {"name": f"cin{u}", "dt": "b", "shape": []},
                  {"name": f"acc{u}", "dt": acc[1], "shape": list(acc[2])}]
        # a second loop-carried value given as an untyped Python literal whose type differs from the first carried
        # value's (Loop's `v_initial` is a *heterogeneous* variadic: the literal must keep its own Python type)
        lit2 = None
        if self.rng.random() < 0.45:
            if acc[1] == "i64":
                lit2, dt2 = self.rng.choice([0.5, 1.5, -2.5]), "f32"
            else:
                lit2, dt2 = self.rng.choice([2, 3, -1]), "i64"
            inputs.append({"name": f"acc2_{u}", "dt": dt2, "shape": []})
            self.stats["loop_literal_carried"] += 1
            self.stats["loop_literal_carried_" + dt2] += 1

        def body_fn(body):
            k = 1 if lit2 is not None else 0
            h_cin, h_acc = self.h - 2 - k, self.h - 1 - k
            h_acc2 = self.h - 1
            self.emit_op(body, "Identity", [["r", h_cin]], [("b", ())], True)
            h_cout = self.h - 1
            for _ in range(self.rng.randint(0, 2)):
                self.gen_item(body, depth + 1)
            # the carried value must come from the loop state (keeps the replay bounded)
            self.emit_op(body, self.rng.choice(UN[want[0]]), [["r", h_acc]], [want], True)
            rets = [h_cout, self.h - 1]
            if lit2 is not None:
                # Add(acc2, acc2) / Neg / Abs: a value whose dtype mistakes show in the result (0.5 as INT64 is 0)
                op2 = self.rng.choice(["Add", "Neg", "Abs", "Identity"])
                self.emit_op(body, op2, [["r", h_acc2]] * (2 if op2 == "Add" else 1), [(dt2, ())], True)
                rets.append(self.h - 1)
            return rets

        items.append(self.gen_sub(f"body_{self.fresh('g')}", inputs, body_fn, 2 + (lit2 is not None)))
        gi = self.ndone - 1
        m = self.rng.choice([0, 1, 2, 3])
        n_out = 1 + (lit2 is not None)
        o = self.outs_for(n_out, depth > 0)
        cond_arg = ["r", cond[0]]
        if self.rng.random() < 0.3:
            cond_arg = ["s", self.rng.choice([True, True, False]), None]
            self.stats["bool_lit_no_sibling"] += 1
            self.stats["bool_lit_loop"] += 1
        args = [["s", m, "i64"], cond_arg, ["r", acc[0]]]
        if lit2 is not None:
            args.append(["s", lit2, dt2])  # the dtype the literal rule gives it: its own Python type
        items.append({"k": "O", "op": "Loop", "args": args, "outs": o,
                      "nname": self.nname_for(depth > 0), "graphs": [gi], "gattr": ["body"], "attrs": {}})
        self.vis.append((self.h, want[0], want[1], False))
        self.h += 1
        if lit2 is not None:
            self.vis.append((self.h, dt2, (), False))
            self.h += 1
        self.stats["Loop"] += 1
        self.stats[f"sub_depth_{depth + 1}"] += 1

    def gen_fault(self, items, depth):
        """a call that fails — refused by the builder, or the user's trace function raises — and is caught by the
        traced program, which goes on with the same builder."""
        rng, st = self.rng, self.stats
        kind = rng.choice(["inline_too_many", "inline_too_many", "inline_outs_mismatch", "pop_empty", "sub_abort",
                           "sub_abort", "sub_mismatch"])
        cands = [j for j, f in enumerate(self.fntab) if f[0] not in ("sel", "swapneg")]
        if kind == "pop_empty" and (depth > 0 or self.scope_depth > 0):
            kind = "sub_abort"
        if kind.startswith("inline"):
            fi = rng.choice(cands)
            name, _obj, _impl, nin, nout, _attrs = self.fntab[fi]
            extra = 1 if kind == "inline_too_many" else 0
            srcs = [self.pick(lambda v: v[1] == "f32" and v[2] == (3,)) for _ in range(nin + extra)]
            if any(x is None for x in srcs):
                return self.gen_op(items, depth > 0)
            args = [["r", x[0]] for x in srcs]
            if rng.random() < 0.3:
                args[-1] = ["s", rng.choice([1.5, 0.5, 7.0]), "f32"]  # promoted before the refusal
                st["fault_literal_operand"] += 1
            pfx = rng.choice(["", "blk", "f.0"]) if (kind == "inline_outs_mismatch" or rng.random() < 0.45) else ""
            o = None
            if kind == "inline_outs_mismatch":
                o = [self.fresh() for _ in range(nout + 1)]
            elif rng.random() < 0.3:
                o = [self.fresh() for _ in range(nout)]
            items.append({"k": "L", "f": fi, "args": args, "outs": o, "pfx": pfx, "attrs": {}, "fault": kind})
            st["fault_" + kind + ("_prefixed" if pfx else "_plain")] += 1
        elif kind == "pop_empty":
            items.append({"k": "Q", "fault": kind})
            st["fault_pop_empty"] += 1
        else:
            saved_scope = self.scope_depth
            inputs = [] if rng.random() < 0.5 else [{"name": self.fresh("sin"), "dt": "f32", "shape": [3]}]

            def body_fn(body):
                for _ in range(rng.randint(0, 3)):
                    self.gen_item(body, depth + 1)
                self.gen_op(body, True)
                return [self.h - 1]

            it = self.gen_sub(f"dropped_{self.fresh('g')}", inputs, body_fn, 1)
            it["fault"] = kind
            if kind == "sub_abort":
                it["abort"] = True
            else:
                it["declared"] = it["declared"] + [""]  # one value returned, two declared: build_graph raises
            st["fault_" + kind] += 1
            st["fault_dropped_body_with_push"] += any(b["k"] == "P" for b in it["body"])
            st["fault_dropped_body_with_subgraph"] += any(b["k"] == "S" for b in it["body"])
            items.append(it)
            self.scope_depth = saved_scope
        st["fault_items"] += 1
        st["fault_in_subgraph"] += depth > 0

    def gen_item(self, items, depth):
        if self.faults and depth < 2 and self.rng.random() < self.faults:
            return self.gen_fault(items, depth)
        r = self.rng.random()
        in_sub = depth > 0
        if r < 0.62:
            self.gen_op(items, in_sub)
        elif r < 0.70:
            if self.rng.random() < 0.6 or not self.scope_depth:
                items.append({"k": "P", "name": self.rng.choice(SCOPES)})
                self.scope_depth += 1
                self.stats["push"] += 1
            else:
                items.append({"k": "Q"})
                self.scope_depth -= 1
                self.stats["pop"] += 1
        elif r < 0.78:
            allow = not (in_sub and self.mode == "explicit")
            self.gen_call(items, in_sub, inline=False) if allow else self.gen_op(items, in_sub)
        elif r < 0.87:
            allow = not (in_sub and self.mode == "explicit")
            self.gen_call(items, in_sub, inline=True) if allow else self.gen_op(items, in_sub)
        elif self.mode != "none" and depth < 2:
            saved = self.scope_depth
            (self.gen_if if self.rng.random() < 0.65 else self.gen_loop)(items, depth)
            self.scope_depth = saved
        else:
            self.gen_op(items, in_sub)

    def gen_trace(self, n_items):
        items: list = []
        self.scope_depth = 0
        ins = [("x0", "f32", [3]), ("x1", "f32", [3]), ("i0", "i64", [3]), ("c0", "b", []), ("c1", "b", [])]
        for name, dt, shp in ins:
            items.append({"k": "I", "name": name, "dt": dt, "shape": shp})
            self.vis.append((self.h, dt, tuple(shp), True))
            self.h += 1
        for _ in range(n_items):
            self.gen_item(items, 0)
        roots = [v for v in self.vis if v[0] >= len(ins) and v[0] not in self.alias]
        self.rng.shuffle(roots)
        seen = set()
        for j, v in enumerate(roots[: self.rng.randint(1, 3)]):
            if v[0] in seen:
                continue
            seen.add(v[0])
            items.append({"k": "X", "h": v[0], "name": None if self.rng.random() < 0.5 else f"out{j}", "dt": v[1], "shape": list(v[2])})
        return items


def refusal_cases(rng, stats):
    """directed traces for the error branches of the modelled code: the real builder must refuse exactly when the
    model records an error."""
    out = []
    fntab = make_functions(21)
    fi2 = [i for i, f in enumerate(fntab) if f[0] == "addmul"][0]
    base = [{"k": "I", "name": "x", "dt": "f32", "shape": [3]},
            {"k": "O", "op": "Relu", "args": [["r", 0]], "outs": ["a", 1], "nname": None, "attrs": {}}]
    kinds = {
        "pop_empty": [{"k": "Q"}],
        "pop_after_push": [{"k": "P", "name": "m"}, {"k": "Q"}, {"k": "Q"}],
        "inline_too_many_inputs": [{"k": "L", "f": fi2, "args": [["r", 0], ["r", 1], ["r", 1]], "outs": None, "pfx": "", "attrs": {}}],
        "inline_outputs_mismatch": [{"k": "L", "f": fi2, "args": [["r", 0], ["r", 1]], "outs": ["only_one"], "pfx": "p", "attrs": {}}],
    }
    for kind, tail in kinds.items():
        c = wrap_case(base + tail, fntab, "none", 21)
        c["refusal"] = kind
        out.append(c)
    return out


def fault_directed_cases(stats):
    """one fixed history per opset containing every fault kind once, each followed by ordinary calls."""
    out = []
    for opset in (17, 21):
        fntab = make_functions(opset)
        fi1 = [i for i, f in enumerate(fntab) if f[0] == "negrelu"][0]
        fi2 = [i for i, f in enumerate(fntab) if f[0] == "addmul"][0]
        L = lambda f, args, outs, pfx, kind: {"k": "L", "f": f, "args": args, "outs": outs, "pfx": pfx, "attrs": {}, "fault": kind}
        relu = lambda h: {"k": "O", "op": "Relu", "args": [["r", h]], "outs": ["a", 1], "nname": None, "attrs": {}}
        sub = lambda name, body, rets, declared, kind, **kw: {"k": "S", "gname": name, "inputs": [], "body": body, "rets": rets,
                                                            "declared": declared, "fault": kind, **kw}
        tr = [{"k": "I", "name": "x", "dt": "f32", "shape": [3]},                       # h0
              {"k": "Q", "fault": "pop_empty"},
              relu(0),                                                                   # h1
              {"k": "P", "name": "m"},
              L(fi2, [["r", 0], ["r", 1], ["s", 7.0, "f32"]], None, "", "inline_too_many"),
              L(fi1, [["r", 0]], ["a", "b"], "pre", "inline_outs_mismatch"),
              relu(1),                                                                   # h2
              sub("dropped_a", [{"k": "P", "name": "inner"}, relu(0)], [3], [""], "sub_abort", abort=True),   # h3
              relu(2),                                                                   # h4
              sub("dropped_b", [relu(0)], [5], ["", ""], "sub_mismatch"),               # h5
              relu(4),                                                                   # h6
              L(fi1, [["r", 0], ["r", 1]], None, "blk", "inline_too_many"),              # D20j class
              relu(6),                                                                   # h7
              {"k": "X", "h": 7, "name": "out", "dt": "f32", "shape": [3]}]
        c = wrap_case(tr, fntab, "auto", opset)
        c["faults"] = True
        for k in ("fault_inline_too_many_plain", "fault_inline_too_many_prefixed", "fault_sub_abort", "fault_sub_mismatch",
                  "fault_then_continue", "fault_pop_empty", "fault_inline_outs_mismatch_prefixed"):
            stats[k] += 1
        out.append(c)
    return out


OPSETS = [17, 18, 21]  # ops whose input/attribute signature changed in between: Reduce{Max,Min,Mean}, Split


def new_case(rng, mode, n_items, stats, faults=0.0):
    opset = rng.choice(OPSETS)
    stats[f"opset_{opset}"] += 1
    fntab = make_functions(opset)
    g = TraceGen(rng, fntab, mode, stats, opset)
    g.faults = faults
    trace = g.gen_trace(n_items)
    c = wrap_case(trace, fntab, mode, opset)
    if faults:
        c["faults"] = True
        top = [i for i, it in enumerate(trace) if it.get("fault")]
        stats["fault_traces"] += bool(top)
        stats["fault_then_continue"] += bool(top) and any(it["k"] in ("O", "C", "L") and not it.get("fault") for it in trace[top[0] + 1:])
    return c


def wrap_case(trace, fntab, mode, opset=None):
    return {
        "opset": opset or OPSET,
        "mode": mode,
        "trace": trace,
        "fnobjs": [f[1] for f in fntab],
        "fn_tokens": [fn_token(f[1]) for f in fntab],
        "fn_impl": [f[2] for f in fntab],
        "fn_nout": [f[4] for f in fntab],
        "fn_names": [f[0] for f in fntab],
    }


def case_json(case):
    return {"mode": case["mode"], "opset": case.get("opset"), "trace": case["trace"], "fn_names": case["fn_names"],
            **({"faults": True} if case.get("faults") else {})}


# --------------------------------------------------------------------------- known-finding predicates (builder)


def uses_passthrough_inline(case) -> bool:
    """D20c: call_inline of a function one of whose outputs is one of its own inputs."""
    def walk(items):
        for it in items:
            if it["k"] == "L":
                g = fn_graph(case["fnobjs"][it["f"]])
                if any(o in list(g.inputs) for o in g.outputs):
                    return True
            if it["k"] == "S" and walk(it["body"]):
                return True
        return False
    return walk(case["trace"])


def has_subgraph(case) -> bool:
    return any(it["k"] == "S" for it in case["trace"])


def underscore_digit_callee(case) -> bool:
    """D20f: a callee whose name ends in `_<digits>` (its auto output name can coincide with `{f}_{count}_{i}`)."""
    import re
    def walk(items):
        for it in items:
            if it["k"] in ("C", "L") and re.search(r"_\d+$", case["fn_names"][it["f"]]):
                return True
            if it["k"] == "S" and walk(it["body"]):
                return True
        return False
    return walk(case["trace"])


def classify_builder_failure(case, dup_vals, dup_nodes) -> str | None:
    """which open finding (if any) explains duplicate names of this case."""
    if dup_vals.get("__scope_leak_prefixed_inline__"):
        # call_inline(_prefix=...) raising "Too many inputs" left the prefix on the scope stack: D20j, fixed in /repo
        # 15c1bb3 — no longer an open finding, so a recurrence is reported as a VIOLATION by the verdict logic
        return "D20j"
    dups = {**dup_vals, **dup_nodes}
    dups.pop("__scope_leak_prefixed_inline__", None)
    if not dups:
        return None
    # (D20a — the same automatic name in two different graphs — is fixed in /repo e9794aa: such a
    #  duplicate is a violation again)
    # (D20c — pass-through inline renaming — is fixed in /repo e7b46e0: a violation again)
    # (D20f — `{op}_{count}_{i}` vs `{op_1}_{count}` — is fixed in /repo 5c71050: a violation again)
    return None


# --------------------------------------------------------------------------- builder stream


EXECUTED: list = []  # every builder case run in this process, in order (process-level state matters)


def case_from_json(cs):
    c = wrap_case(cs["trace"], make_functions(cs.get("opset")), cs.get("mode", "none"), cs.get("opset"))
    if cs.get("faults"):
        c["faults"] = True
    return c


def subreplay(path) -> int:
    """`python -m harness.c18 subreplay f`: in a fresh process run the history on the real builder, then judge
    the case with the oracles (no Lean model). Prints FAIL/OK."""
    import random

    body = json.loads(open(path).read())
    stats: Counter = Counter()
    for hcase in body.get("history", []):
        run_real(case_from_json(hcase))
    probs = check_builder_cases(None, None, [case_from_json(body["case"])], stats, random.Random(0))
    probs = [p for p in probs if p[1] == "property"]
    print("FAIL " + probs[0][2][:300] if probs else "OK")
    return 0


def history_of(case_js, prior, budget=8):
    """search: does the case fail on its own (fresh process)?  If not, find an earlier case of this run whose
    execution before it makes it fail (process-level state).  Returns (standalone, history)."""
    import os
    import subprocess
    import tempfile

    def fails(history):
        with tempfile.NamedTemporaryFile("w", suffix=".json", delete=False) as fh:
            json.dump({"history": history, "case": case_js}, fh)
        try:
            p = subprocess.run(["/venv/bin/python", "-m", "harness.c18", "subreplay", fh.name], capture_output=True,
                               text=True, timeout=120, cwd=str(core.VERIF), env=dict(os.environ))
            return "FAIL" in p.stdout
        except subprocess.TimeoutExpired:
            return False
        finally:
            os.unlink(fh.name)

    if fails([]):
        return True, []
    def ops_of(items, acc):
        for it in items:
            if it["k"] == "O":
                acc.add(it["op"])
            elif it["k"] == "S":
                ops_of(it["body"], acc)
        return acc

    mine = ops_of(case_js["trace"], set())
    idx = {id(h): i for i, h in enumerate(prior)}
    # most promising first: another opset and a shared operator type, nearest first
    cands = sorted(prior, key=lambda h: (h.get("opset") == case_js.get("opset"),
                                         not (ops_of(h["trace"], set()) & mine), -idx[id(h)]))
    for h in cands[:budget]:
        if fails([h]):
            return False, [h]
    for tail in (prior[-20:], prior):
        if fails(tail):
            return False, core.shrink_list(tail, fails, max_steps=14)
    return False, None


def check_builder_cases(run, drv, cases, stats, rng, do_ort=True):
    """returns problems [(case, kind, detail)], kind in tie | property."""
    problems = []
    outs = drv.ask([model_line(c) for c in cases]) if drv is not None else [None] * len(cases)
    for c, mline in zip(cases, outs):
        stats["builder_cases"] += 1
        c["seq"] = len(EXECUTED)
        EXECUTED.append(case_json(c))
        ex, err = run_real(c)
        if err is not None:
            stats["builder_real_error"] += 1
            if c.get("refusal"):
                stats["refusal_" + c["refusal"]] += 1
            if mline is not None and not mline.endswith("## ERR -"):
                continue  # both refuse
            if c.get("refusal"):
                problems.append((c, "tie", f"real builder raised {err}; model built a graph"))
            else:
                # generated traces are valid programs (the model builds them, the NumPy replay runs them): a
                # builder that raises on one does not produce "a valid model computing the trace"
                problems.append((c, "property", f"the builder raised on a valid trace: {err}", {}, {}))
            continue
        real = ex.show()
        if mline is not None and real != mline:
            problems.append((c, "tie", first_diff(real, mline)))
        if c.get("faults"):
            stats["fault_refusals_observed"] += len(ex.errs)
            if ex.scope_changes:
                # exception safety of the module scopes: a call that raised must leave every scope stack as it was
                # (else every later value / initializer name carries a scope no module pushed; the one known way,
                #  D20j, is fixed in /repo 15c1bb3 and modelled as fixed: any change here is a VIOLATION)
                stats["fault_scope_changed"] += 1
                only_d20j = all(x.startswith("inline_too_many:") for x in ex.scope_changes)
                problems.append((c, "property", "a refused call changed the module scope stack: " + "; ".join(ex.scope_changes[:2]),
                                 {"__scope_leak_prefixed_inline__": only_d20j}, {}))
        # ---- property oracle on the real serialized model
        try:
            proto = ex.proto()
        except Exception as e:
            problems.append((c, "property", f"model cannot be serialized: {type(e).__name__}: {str(e)[:120]}"))
            continue
        vals, nodes = walk_names(proto)
        dv, dn = duplicates(vals), duplicates(nodes)
        if dv or dn:
            what = "; ".join(f"{n!r} defined in {ps}" for n, ps in list(dv.items())[:2]) or \
                "; ".join(f"node name {n!r} in {ps}" for n, ps in list(dn.items())[:2])
            problems.append((c, "property", "names not unique: " + what, dv, dn))
            stats["builder_dup_names"] += 1
            continue
        bad = [(n, str(ex.g.initializers[n].const_value.dtype), d) for n, d in expected_literal_dtypes(c["trace"], {}).items()
               if n in ex.g.initializers and str(ex.g.initializers[n].const_value.dtype) != d]
        if bad:
            problems.append((c, "property", f"initializer {bad[0][0]} holds {bad[0][1]}, the literal rule says {bad[0][2]}", {}, {}))
            continue
        du = defuse_ok(proto)
        if du:
            problems.append((c, "property", "def-use: " + du, {}, {}))
            continue
        in_names = [i.name for i in proto.graph.input]
        want_in = [it["name"] for it in c["trace"] if it["k"] == "I"]
        if in_names != want_in:
            problems.append((c, "property", f"graph inputs {in_names} differ from declared {want_in}", {}, {}))
            continue
        if not do_ort:
            continue
        try:
            R().onnx.checker.check_model(proto)
        except Exception as e:
            problems.append((c, "property", "onnx.checker: " + str(e)[:160], {}, {}))
            continue
        feeds = make_feeds(c, rng)
        try:
            got = run_ort(proto, feeds)
        except Exception as e:
            problems.append((c, "property", "onnxruntime rejects the model: " + str(e)[-200:], {}, {}))
            continue
        rp = Replay(c, feeds)
        rp.run(c["trace"], 0, top=True)
        stats["builder_ort_runs"] += 1
        for j, (a, b) in enumerate(zip(got, rp.outputs)):
            b = np.asarray(b)
            if a.shape != b.shape or not np.allclose(a.astype(np.float64), b.astype(np.float64), rtol=1e-4, atol=1e-5, equal_nan=True):
                problems.append((c, "property", f"output {j}: onnxruntime {a.tolist()} vs numpy replay {b.tolist()}", {}, {}))
                break
    return problems


def expected_literal_dtypes(items, out):
    """the literal rule: `const_{repr}_{suffix}` holds the suffix's dtype; an untyped Python literal (`const_{repr}`)
    holds what its Python type says — bool -> BOOL."""
    names = {"f32": "FLOAT", "i64": "INT64", "b8": "BOOL"}
    for it in items:
        if it["k"] in ("O", "C", "L"):
            for a in it["args"]:
                if a[0] == "s":
                    if a[2]:
                        out[f"const_{a[1]}_{a[2]}"] = names[a[2]]
                    elif isinstance(a[1], bool):
                        out[f"const_{a[1]}"] = "BOOL"
        elif it["k"] == "S":
            expected_literal_dtypes(it["body"], out)
    return out


def first_diff(a: str, b: str) -> str:
    pa, pb = a.split(" ## "), b.split(" ## ")
    for x, y in zip(pa, pb):
        if x != y:
            xs, ys = x.split("!"), y.split("!")
            for u, v in zip(xs, ys):
                if u != v:
                    return f"impl {u!r} vs model {v!r}"
            return f"impl {x[:200]!r} vs model {y[:200]!r}"
    return f"impl has {len(pa)} sections, model {len(pb)}"


# --------------------------------------------------------------------------- builder witnesses (known findings)


def witness_cases(fntab):
    sp = special_functions()
    out = {}
    ins = [{"k": "I", "name": "x", "dt": "f32", "shape": [3]}, {"k": "I", "name": "c", "dt": "b", "shape": []}]
    # D20a: main graph, then and else bodies all define v_Add_0
    t = ins + [
        {"k": "O", "op": "Add", "args": [["r", 0], ["r", 0]], "outs": ["a", 1], "nname": None, "attrs": {}},
        {"k": "S", "gname": "then", "inputs": [], "body": [
            {"k": "O", "op": "Add", "args": [["r", 0], ["s", 1.0, "f32"]], "outs": ["a", 1], "nname": None, "attrs": {}}],
         "rets": [3], "declared": [""]},
        {"k": "S", "gname": "else", "inputs": [], "body": [
            {"k": "O", "op": "Add", "args": [["r", 0], ["s", 2.0, "f32"]], "outs": ["a", 1], "nname": None, "attrs": {}}],
         "rets": [4], "declared": [""]},
        {"k": "O", "op": "If", "args": [["r", 1]], "outs": ["a", 1], "nname": None, "graphs": [0, 1],
         "gattr": ["then_branch", "else_branch"], "attrs": {}},
        {"k": "X", "h": 5, "name": None, "dt": "f32", "shape": [3]}, {"k": "X", "h": 2, "name": None, "dt": "f32", "shape": [3]},
    ]
    out["D20a"] = wrap_case(t, fntab, "auto")
    # D20c: inlining a pass-through function renames the caller's value; with an explicit output "x" → duplicate
    tab2 = fntab + [sp["ident"]]
    fi = len(tab2) - 1
    t = ins + [
        {"k": "O", "op": "Relu", "args": [["r", 0]], "outs": ["e", ["x"]], "nname": None, "attrs": {}},
        {"k": "L", "f": fi, "args": [["r", 0]], "outs": None, "pfx": "", "attrs": {}},
        {"k": "O", "op": "Add", "args": [["r", 3], ["r", 2]], "outs": ["a", 1], "nname": None, "attrs": {}},
        {"k": "X", "h": 4, "name": None, "dt": "f32", "shape": [3]},
    ]
    out["D20c"] = wrap_case(t, tab2, "none")
    # D20f: `f` (4 outputs, node 1) yields v_f_1_3; `f_1` (1 output, node 3) yields v_f_1_3
    tab3 = fntab + [sp["f"], sp["f_1"]]
    a, b = len(tab3) - 2, len(tab3) - 1
    t = ins + [
        {"k": "O", "op": "Relu", "args": [["r", 0]], "outs": ["a", 1], "nname": None, "attrs": {}},
        {"k": "C", "f": a, "args": [["r", 2]], "outs": None, "attrs": {}},
        {"k": "O", "op": "Add", "args": [["r", 3], ["r", 4]], "outs": ["a", 1], "nname": None, "attrs": {}},
        {"k": "C", "f": b, "args": [["r", 7]], "outs": None, "attrs": {}},
        {"k": "O", "op": "Add", "args": [["r", 8], ["r", 6]], "outs": ["a", 1], "nname": None, "attrs": {}},
        {"k": "X", "h": 9, "name": None, "dt": "f32", "shape": [3]},
    ]
    out["D20f"] = wrap_case(t, tab3, "none")
    return out


def witness_d20g():
    """`op.Clip(x, max=0.5)`: the keyword input must stay in the `max` slot."""
    r = R()
    ir, B = r.ir, r.B
    g = ir.Graph(name="main", inputs=[], outputs=[], nodes=[], opset_imports={"": OPSET})
    gb = B.GraphBuilder(g)
    x = gb.input("x", ir.DataType.FLOAT, [3])
    y = gb.op.Clip(x, max=0.5)
    gb.add_output(y, "y")
    node = list(g)[0]
    ins = ["~" if i is None else i.name for i in node.inputs]
    got = run_ort(ir.to_proto(ir.Model(g, ir_version=10)), {"x": np.array([-1.0, 0.25, 2.0], dtype=np.float32)})[0].tolist()
    return ins, got, [-1.0, 0.25, 0.5]


def witness_d20i():
    """`call_inline(f, x, 2.0)` vs `call(f, x, 2.0)`."""
    r = R()
    ir, B = r.ir, r.B
    f = B.build_function(lambda op, a, b: op.Add(a, b), [ir.Value(name="a"), ir.Value(name="b")], domain="c18",
                         name="addlit", opset_imports={"": OPSET})
    res = {}
    for how in ("call", "call_inline"):
        g = ir.Graph(name="main", inputs=[], outputs=[], nodes=[], opset_imports={"": OPSET, "c18": 1})
        gb = B.GraphBuilder(g)
        x = gb.input("x", ir.DataType.FLOAT, [3])
        try:
            y = getattr(gb.op, how)(f, x, 2.0)
            y.type, y.shape = ir.TensorType(ir.DataType.FLOAT), ir.Shape([3])
            gb.add_output(y, "y")
            proto = ir.to_proto(ir.Model(g, ir_version=10, functions=list(gb.functions.values())))
            res[how] = run_ort(proto, {"x": np.array([1, -2, 3], dtype=np.float32)})[0].tolist()
        except Exception as e:
            res[how] = "RAISES " + type(e).__name__
    return res


def witness_d20d():
    """call_inline without the defaulted attribute: Constant node loses `value_float` (call works)."""
    r = R()
    ir, B = r.ir, r.B
    res = {}
    for how in ("call", "inline"):
        g = ir.Graph(name="main", inputs=[], outputs=[], nodes=[], opset_imports={"": OPSET, "this": 1})
        gb = B.GraphBuilder(g)
        x = gb.input("x", ir.DataType.FLOAT, [3])
        y = gb.op.call(r.fns.s_default, x) if how == "call" else gb.op.call_inline(r.fns.s_default, x)
        y.type = ir.TensorType(ir.DataType.FLOAT)
        y.shape = ir.Shape([3])
        gb.add_output(y, "y")
        proto = ir.to_proto(ir.Model(g, ir_version=10, functions=list(gb.functions.values())))
        try:
            res[how] = run_ort(proto, {"x": np.array([1, -2, 3], dtype=np.float32)})[0].tolist()
        except Exception as e:
            res[how] = "ERR " + str(e)[-90:]
    return res


# --------------------------------------------------------------------------- nn stream


NN_CTX = {"cond": None, "depth": 0, "maxdepth": 0, "param_depth": 0, "uid": 0, "abort_at": None, "events": 0,
          "abort_depth": 0}


def _nn_event():
    """one step of a generic forward (entry, after each parameter use, after each child); the `abort_at`-th raises."""
    if NN_CTX["abort_at"] is None:
        return
    NN_CTX["events"] += 1
    if NN_CTX["events"] == NN_CTX["abort_at"]:
        NN_CTX["abort_depth"] = NN_CTX["depth"]
        raise _Abort()


def nn_classes():
    r = R()
    nn, ir = r.nn, r.ir

    class Gen(nn.Module):
        """forward uses every own parameter and visits every registered child once, in order."""

        def forward(self, op, x):
            _nn_event()
            for p in self._parameters.values():
                x = op.Add(x, p)
                NN_CTX["param_depth"] = max(NN_CTX["param_depth"], NN_CTX["depth"])
            for c in self._modules.values():
                x = visit(c, op, x)
                _nn_event()
            return x

    class Ctl(Gen):
        """like Gen, but the children are called inside the `then` body of an If built with
        builder.subgraph (the `else` body passes x through): nested Ctl modules give nested subgraphs
        with modules entered in between."""

        def forward(self, op, x):
            _nn_event()
            for p in self._parameters.values():
                x = op.Add(x, p)
                NN_CTX["param_depth"] = max(NN_CTX["param_depth"], NN_CTX["depth"])
            NN_CTX["uid"] += 1
            u = NN_CTX["uid"]

            def then_fn(op2):
                NN_CTX["depth"] += 1
                NN_CTX["maxdepth"] = max(NN_CTX["maxdepth"], NN_CTX["depth"])
                try:
                    y = x
                    for c in self._modules.values():
                        y = visit(c, op2, y)
                        _nn_event()
                    return op2.Identity(y)
                finally:
                    NN_CTX["depth"] -= 1

            tb = op.builder.subgraph(then_fn, [], [ir.Value(name=f"then_out{u}")], name=f"then{u}")
            eb = op.builder.subgraph(lambda op2: op2.Identity(x), [], [ir.Value(name=f"else_out{u}")], name=f"else{u}")
            return op.If(NN_CTX["cond"], then_branch=tb, else_branch=eb)

    def visit(c, op, x):
        if isinstance(c, nn.ModuleList) and not isinstance(c, nn.Sequential):
            for cc in c:
                x = visit(cc, op, x)
            return x
        return c(op, x)

    def ref(m, x, cond, pval):
        """NumPy meaning of the generic forwards."""
        if isinstance(m, nn.ModuleList) and not isinstance(m, nn.Sequential):
            for cc in m:
                x = ref(cc, x, cond, pval)
            return x
        for p in m._parameters.values():
            x = x + pval(p)
        if isinstance(m, Ctl) and not cond:
            return x
        for c in m._modules.values():
            x = ref(c, x, cond, pval)
        return x

    return Gen, Ctl, visit, ref


def run_nn_real(prog, numeric=False, abort_at=None):
    """execute a construction program on the real classes; returns dict of observations.

    abort_at = k: the root is first called with a forward that raises at its k-th step (the traced program catches
    the exception), then called again on the same builder — a history of two calls."""
    r = R()
    nn, ir, B = r.nn, r.ir, r.B
    Gen, Ctl, visit, ref = nn_classes()
    stack: list = []
    params: list = []

    def resolve(m, path):
        for k in path:
            m = m._modules[k]
        return m

    def P(s):
        return [] if s == "@" else s.split("/")

    for tok in prog:
        f = tok.split("|")
        if f[0] == "M":
            stack.append(Gen(None if f[1] == "@" else f[1]))
        elif f[0] == "MC":
            stack.append(Ctl(None if f[1] == "@" else f[1]))
        elif f[0] == "p":
            p = nn.Parameter([3], name=None if f[3] == "@" else f[3],
                             data=ir.tensor(np.full([3], len(params) + 1, dtype=np.float32)))
            params.append(p)
            setattr(resolve(stack[-1], P(f[1])), f[2], p)
        elif f[0] == "c":
            child = stack.pop()
            setattr(resolve(stack[-1], P(f[1])), f[2], child)
        elif f[0] in ("ML", "SQ"):
            k = int(f[1])
            cs = stack[len(stack) - k:] if k else []
            del stack[len(stack) - k:]
            stack.append(nn.ModuleList(cs) if f[0] == "ML" else nn.Sequential(*cs))
        elif f[0] == "ap":
            child = stack.pop()
            resolve(stack[-1], P(f[1])).append(child)
        elif f[0] == "ex":
            k = int(f[2])
            cs = stack[len(stack) - k:] if k else []
            del stack[len(stack) - k:]
            resolve(stack[-1], P(f[1])).extend(cs)
        elif f[0] == "sl":
            top = stack.pop()
            idxs = [int(i) for i in f[1].split(";")] if f[1] else []
            stack.append(top[slice_of(idxs, len(top))])
        else:
            raise ValueError(tok)
    assert len(stack) == 1
    root = stack[0]
    pid = {id(p): i for i, p in enumerate(params)}
    g = ir.Graph(name="main", inputs=[], outputs=[], nodes=[], opset_imports={"": OPSET})
    gb = B.GraphBuilder(g)
    x = gb.input("x", ir.DataType.FLOAT, [3])
    NN_CTX.update(cond=gb.input("c", ir.DataType.BOOL, []), depth=0, maxdepth=0, param_depth=0)
    obs = {"callable": True, "numeric": None, "aborted": False, "abort_scope": None}
    if abort_at is not None:
        NN_CTX.update(abort_at=abort_at, events=0, abort_depth=0)
        try:
            root(gb.op, x)
        except _Abort:
            obs["aborted"] = True
            obs["abort_in_subgraph"] = NN_CTX["abort_depth"] > 0
            obs["abort_scope"] = [n for n, _ in gb._scope_stack]
            obs["abort_realized"] = sum(1 for p in params if getattr(p, "_realized", False))
        except NotImplementedError:
            pass
        finally:
            NN_CTX.update(abort_at=None, depth=0)
    try:
        y = root(gb.op, x)
        if y is x:  # a tree without parameters: do not rename the graph input
            y = gb.op.Identity(x)
        if y.type is None:
            y.type = ir.TensorType(ir.DataType.FLOAT)
        if y.shape is None:
            y.shape = ir.Shape([3])
        gb.add_output(y, "y")
    except NotImplementedError:
        obs["callable"] = False
    obs["sub_depth"], obs["param_depth"] = NN_CTX["maxdepth"], NN_CTX["param_depth"]
    obs["numeric_checked"] = bool(numeric)

    def ctl_paths(m, path, out):
        if isinstance(m, Ctl):
            out.append(path)
        for k, c in m._modules.items():
            ctl_paths(c, path + [k], out)
        return out

    obs["ctl_paths"] = ctl_paths(root, [], [])
    if obs["callable"] and numeric:
        # the serialized model against the NumPy meaning of the generic forwards, both branches
        xv = np.array([0.5, -1.0, 2.0], dtype=np.float32)
        try:
            proto = ir.to_proto(ir.Model(g, ir_version=10))
            for cond in (True, False):
                got = run_ort(proto, {"x": xv, "c": np.array(cond)})[0]
                want = ref(root, xv, cond, lambda p: np.full([3], pid[id(p)] + 1, dtype=np.float32))
                if got.shape != want.shape or not np.allclose(got, want):
                    obs["numeric"] = f"cond={cond}: onnxruntime {got.tolist()} vs NumPy {want.tolist()}"
                    break
        except Exception as e:
            obs["numeric"] = "onnxruntime rejects the model: " + str(e)[-160:]
    obs["init"] = list(g.initializers.keys())
    obs["realized"] = {pid[id(p)]: p.name for p in params if getattr(p, "_realized", False)}
    obs["sd"] = list(root.state_dict().keys())
    obs["np"] = [(k, pid[id(p)]) for k, p in root.named_parameters()]
    obs["root_name"] = root.name
    obs["graph"], obs["gb"], obs["params"] = g, gb, params
    return obs


def slice_of(idxs, n):
    """a Python slice selecting exactly `idxs` out of range(n) (the generator only emits such index lists)."""
    for start in range(0, n + 1):
        for stop in range(0, n + 1):
            for step in (1, 2, 3):
                if list(range(n))[start:stop:step] == idxs:
                    return slice(start, stop, step)
    for start in range(n - 1, -2, -1):
        for stop in range(n - 1, -2, -1):
            for step in (-1, -2):
                s = slice(start if start >= 0 else None, stop if stop >= 0 else None, step)
                if list(range(n))[s] == idxs:
                    return s
    raise ValueError(idxs)


# fixed programs run before the generated ones (regression cases)
NN_CORPUS = [
    # stages = ModuleList() attached first, then nested ModuleLists appended (depth 4)
    "M|model M|@ p|@|weight|@ c|@|stem ML|0 c|@|stages M|@ p|@|weight|@ M|@ p|@|weight|@ ML|2 ap|stages "
    "M|@ p|@|weight|@ ML|1 ap|stages",
    # …and a leaf appended into the nested list after *that* was appended; a Sequential stage
    "M|model ML|0 c|@|stages M|@ p|@|weight|@ ML|1 ap|stages M|@ p|@|bias|@ ap|stages/0 "
    "M|@ p|@|weight|@ M|@ p|@|weight|@ SQ|2 ap|stages",
    # nested lists built before the parent gets its name
    "M|net M|@ p|@|weight|@ ML|1 M|@ p|@|weight|@ M|@ p|@|bias|@ SQ|2 ML|2 c|@|layers",
    # control modules: If bodies nested two deep with a module entered in between and parameters at depth 2
    "MC|model p|@|w|@ MC|@ p|@|w|@ M|@ p|@|w|@ c|@|inner M|@ p|@|w|@ c|@|inner2 c|@|block1 "
    "MC|@ M|@ p|@|w|@ c|@|inner c|@|block2",
    # three levels of ModuleList, innermost appended last
    "M|root ML|0 c|@|a ML|0 ap|a ML|0 ap|a/0 M|@ p|@|scale|@ ap|a/0/0 M|@ p|@|scale|@ ap|a/0/0",
]

ATTRS = ["fc", "proj", "layers", "blocks", "net", "w", "head", "a", "b"]
PATTRS = ["weight", "bias", "scale"]


class NNGen:
    """random *linear* construction programs (every object is attached at most once)."""

    def __init__(self, rng, explicit: bool, stats, ctl: bool = False):
        self.rng, self.explicit, self.stats, self.ctl = rng, explicit, stats, ctl
        self.diverging = False  # an explicit name that differs from the key was generated

    def params(self, prog, path="@"):
        for attr in self.rng.sample(PATTRS, self.rng.randint(0, 2)):
            pn = "@"
            r = self.rng.random()
            if r < 0.35:
                pn = attr  # explicit and agreeing (the style of every test in the repo)
                self.stats["param_explicit_agree"] += 1
            elif self.explicit and r < 0.5:
                pn = attr + "_x"
                self.diverging = True
                self.stats["param_explicit_diverge"] += 1
            prog.append(f"p|{path}|{attr}|{pn}")

    def module(self, prog, depth, name="@", kind=None):
        """emit tokens leaving one object on the stack; returns its kind."""
        rng = self.rng
        kind = kind or rng.choice(["M", "M", "M", "ML", "SQ"] if depth < 4 else ["M"])
        if kind == "M":
            if self.ctl and self.rng.random() < 0.45:
                prog.append(f"MC|{name}")
                self.stats["kind_control_module"] += 1
            else:
                prog.append(f"M|{name}")
            self.stats["kind_module"] += 1
            self.params(prog)
            if depth < 4:
                attrs = rng.sample(ATTRS, rng.randint(0, 2 if depth < 3 else 1))
                late = []
                for a in attrs:
                    cname = "@"
                    ck = rng.choice(["M", "M", "ML", "SQ"])
                    if ck == "M":
                        r = rng.random()
                        if r < 0.2:
                            cname = a
                            self.stats["child_explicit_agree"] += 1
                        elif self.explicit and r < 0.4:
                            cname = a + "_custom"
                            self.diverging = True
                            self.stats["child_explicit_diverge"] += 1
                    k = self.module(prog, depth + 1, cname, ck)
                    prog.append(f"c|@|{a}")
                    if k in ("ML", "SQ") and rng.random() < 0.5:
                        late.append((a, k))
                # append / extend / nested setattr after the container was named (path-addressed mutation)
                for a, k in late:
                    n = rng.randint(1, 2)
                    if k == "ML" and rng.random() < 0.5:
                        # unnamed nested containers (with parameterised leaves) appended to the already
                        # named list: their grandchildren must be renamed `a.<i>.<j>` by `_set_name`
                        for _ in range(n):
                            self.nested_container(prog, rng.choice(["ML", "ML", "SQ"]), depth + 2)
                        prog.append(f"ap|{a}" if n == 1 else f"ex|{a}|{n}")
                        self.stats["nested_list_after_naming"] += n
                        continue
                    for _ in range(n):
                        self.module(prog, depth + 2, self.maybe_div_name(), "M" if k == "SQ" else rng.choice(["M", "M", "SQ", "ML"]) if depth < 2 else "M")
                    if n == 1 and rng.random() < 0.6:
                        prog.append(f"ap|{a}")
                        self.stats["append_after_naming"] += 1
                    else:
                        if n == 1:
                            prog.append(f"ex|{a}|1")
                        else:
                            prog.append(f"ex|{a}|{n}")
                        self.stats["extend_after_naming"] += 1
            return "M"
        n = rng.randint(0 if kind == "ML" else 1, 3)
        for _ in range(n):
            self.module(prog, depth + 1, self.maybe_div_name(), rng.choice(["M", "M", "M", "SQ", "ML"]) if kind == "ML" and depth < 3 else "M" if kind == "SQ" and rng.random() < 0.8 else rng.choice(["M", "SQ"]) if depth < 3 else "M")
        prog.append(f"{kind}|{n}")
        self.stats["kind_list" if kind == "ML" else "kind_seq"] += 1
        if rng.random() < 0.25:
            self.module(prog, depth + 1, "@", "M")
            prog.append("ap|@")
            self.stats["append_before_naming"] += 1
            n += 1
        if rng.random() < 0.2 and n >= 1:
            a, b = sorted([rng.randint(0, n), rng.randint(0, n)])
            st = rng.choice([1, 1, 2])
            idxs = list(range(n))[a:b:st]
            if rng.random() < 0.2:
                idxs = list(range(n))[::-1]
            prog.append("sl|" + ";".join(map(str, idxs)))
            self.stats["slice"] += 1
            return "ML"
        return kind

    def leaf(self, prog):
        prog.append("M|@")
        self.stats["kind_module"] += 1
        prog.append(f"p|@|{self.rng.choice(PATTRS)}|@")

    def nested_container(self, prog, kind, depth):
        m = self.rng.randint(1, 2)
        for _ in range(m):
            if kind == "ML" and depth < 4 and self.rng.random() < 0.3:
                self.nested_container(prog, self.rng.choice(["ML", "SQ"]), depth + 1)
            else:
                self.leaf(prog)
        prog.append(f"{kind}|{m}")
        self.stats["kind_list" if kind == "ML" else "kind_seq"] += 1

    def maybe_div_name(self):
        if self.explicit and self.rng.random() < 0.15:
            self.diverging = True
            self.stats["listchild_explicit"] += 1
            return "custom" + str(self.rng.randint(0, 9))
        return "@"

    def program(self):
        prog: list[str] = []
        rootname = self.rng.choice(["net", "model", "@", "root"])
        kind = self.rng.choice(["M", "M", "M", "SQ"])
        if kind == "M":
            self.module(prog, 1, rootname, "M")
        else:
            self.module(prog, 1, "@", "SQ")
            if prog[-1].startswith("sl|"):
                prog.pop()  # a sliced Sequential is a plain ModuleList (not callable as a root)
        return prog


def check_nn_cases(run, drv, progs, stats):
    problems = []
    # the model builds a control module (`MC`) like a Module and is told *where* in the final tree the control
    # modules sit (`CTL|path`), read off the real objects: there the children run in a sub-builder
    obs_all = [run_nn_real(p["prog"], numeric=p.get("ctl", False) or i % 4 == 0, abort_at=p.get("abort_at"))
               for i, p in enumerate(progs)]
    outs = drv.ask([
        "nn " + " ".join(["M" + t[2:] if t.startswith("MC|") else t for t in p["prog"]]
                         + ["CTL|" + ("/".join(path) or "@") for path in o["ctl_paths"]])
        for p, o in zip(progs, obs_all)])
    for p, mline, obs in zip(progs, outs, obs_all):
        stats["nn_cases"] += 1
        if mline == "bad-op":
            raise core.Infra("nn program rejected by the model driver: " + " ".join(p["prog"]))
        sec = dict(s.split(" ", 1) if " " in s else (s, "") for s in mline.split(" | "))
        stats[f"nn_subgraph_depth_{obs['sub_depth']}"] += 1
        stats["nn_param_in_depth2_subgraph"] += obs["param_depth"] >= 2
        m_callable = sec["CALLABLE"] == "1"
        if obs["callable"] != m_callable:
            problems.append((p, "tie", f"callable: impl {obs['callable']} model {m_callable}"))
            continue
        if not m_callable:
            stats["nn_not_callable"] += 1
            continue
        kp = lambda s: [(x.rsplit("#", 1)[0], int(x.rsplit("#", 1)[1])) for x in s.split(",")] if s else []
        m_real = {pid: n for n, pid in kp(sec["R"])}
        m_init = sec["INIT"].split(",") if sec["INIT"] else []
        m_sd = dedup([k for k, _ in kp(sec["SD"])])
        m_np = kp(sec["NP"])
        m_rootkeys = sec["ROOTKEYS"].split(",") if sec["ROOTKEYS"] else []
        if obs["init"] != m_init:
            problems.append((p, "tie", f"graph.initializers: impl {obs['init']} model {m_init}"))
        elif obs["realized"] != m_real:
            problems.append((p, "tie", f"Parameter names: impl {obs['realized']} model {m_real}"))
        if obs["sd"] != m_sd:
            problems.append((p, "tie", f"state_dict keys: impl {obs['sd']} model {m_sd}"))
        if obs["np"] != m_np:
            problems.append((p, "tie", f"named_parameters: impl {obs['np']} model {m_np}"))
        # ---- the property itself, on the real objects
        rn = obs["root_name"] or ""
        want = [(rn + "." + k) if rn else k for k in obs["sd"]]
        if want != m_rootkeys:
            problems.append((p, "tie", f"rootKey: {want} vs model {m_rootkeys}"))
        n_params = len({pid for _, pid in obs["np"]})  # distinct Parameter objects reachable from the root
        stats["nn_params"] += n_params
        stats["nn_called_twice_complete"] += p.get("abort_at") is not None and not obs["aborted"]
        if obs["aborted"]:
            # history: forward raised part-way (caught), then the root was called again on the same builder; the
            # model's prediction is that of ONE undisturbed call (theorem realize_after_abort)
            stats["nn_abort_then_call"] += 1
            stats["nn_abort_partial"] += 0 < obs["abort_realized"] < n_params
            stats["nn_abort_in_subgraph"] += obs["abort_in_subgraph"]
            if obs["abort_scope"]:
                problems.append((p, "property", f"after an exception inside forward() the builder's scope stack is {obs['abort_scope']}, not empty"))
                continue
        if sorted(obs["init"]) != sorted(want) or len(obs["init"]) != n_params or [k for k, _ in obs["np"]] != obs["sd"]:
            problems.append((p, "property", f"initializers {sorted(obs['init'])} vs root.name + state_dict keys {sorted(want)} ({n_params} parameters)"))
        elif obs["numeric"]:
            problems.append((p, "property", "module graph computes something else: " + obs["numeric"]))
        if obs["callable"]:
            stats["nn_ort_checked"] += obs["numeric_checked"]
    return problems


def dedup(l):
    out = []
    for x in l:
        if x not in out:
            out.append(x)
    return out


def nn_witnesses():
    r = R()
    nn, ir, B = r.nn, r.ir, r.B
    Gen, _Ctl, visit, _ref = nn_classes()
    res = {}

    def build(root, *extra):
        g = ir.Graph(name="main", inputs=[], outputs=[], nodes=[], opset_imports={"": OPSET})
        gb = B.GraphBuilder(g)
        x = gb.input("x", ir.DataType.FLOAT, [3])
        root(gb.op, x, *extra)
        return g, gb

    def lin(name=None):
        m = Gen(name)
        m.weight = nn.Parameter([3])
        return m

    # D20b
    net = Gen("net")
    net.fc = lin("custom")
    g, _ = build(net)
    res["D20b"] = (list(g.initializers.keys()), ["net." + k for k in net.state_dict()])
    # shared instance (TreeNotDag): not a defect of the property as stated (trees)
    net = Gen("net")
    net.b1, net.b2 = Gen(), Gen()
    shared = lin()
    net.b1.fc = shared
    net.b2.fc = shared
    g, _ = build(net)
    res["shared"] = (list(g.initializers.keys()), ["net." + k for k in net.state_dict()])

    # D20e: children called inside If branches built with builder.subgraph
    class Net(nn.Module):
        def __init__(self):
            super().__init__("net")
            self.fc = lin()
            self.fc2 = lin()

        def forward(self, op, x, c):
            tb = op.builder.subgraph(lambda op2: self.fc(op2, x), [], [ir.Value(name="t_out")], name="then")
            eb = op.builder.subgraph(lambda op2: self.fc2(op2, x), [], [ir.Value(name="e_out")], name="else")
            return op.If(c, then_branch=tb, else_branch=eb)

    net = Net()
    g = ir.Graph(name="main", inputs=[], outputs=[], nodes=[], opset_imports={"": OPSET})
    gb = B.GraphBuilder(g)
    x = gb.input("x", ir.DataType.FLOAT, [3])
    c = gb.input("c", ir.DataType.BOOL, [])
    net(gb.op, x, c)
    res["D20e"] = (list(g.initializers.keys()), ["net." + k for k in net.state_dict()])

    # D20j (fixed in /repo 15c1bb3; must-pass regression case): a refused call_inline(..., _prefix=p) (too many
    # operands) left p on the scope stack; the program catches the error and calls a module afterwards
    net = Gen("net")
    net.fc = lin()
    g = ir.Graph(name="main", inputs=[], outputs=[], nodes=[], opset_imports={"": OPSET})
    gb = B.GraphBuilder(g)
    x = gb.input("x", ir.DataType.FLOAT, [3])
    f1 = [f[1] for f in make_functions() if f[0] == "negrelu"][0]
    try:
        gb.op.call_inline(f1, x, x, _prefix="blk")
        raised = False
    except ValueError:
        raised = True
    net(gb.op, x)
    res["D20j"] = (list(g.initializers.keys()), ["net." + k for k in net.state_dict()])
    res["D20j_raised"] = raised
    return res


# --------------------------------------------------------------------------- partition stream

PART_OPS = ["ReduceMax", "ReduceMean", "ReduceMin", "ReduceSum", "ReduceProd", "Squeeze", "Unsqueeze", "Split", "Clip",
            "Pad", "TopK", "Dropout", "Resize", "Slice", "Add", "Concat", "Max", "Sum", "Relu", "Cast", "Where", "Reshape",
            "Softmax", "Gather", "Gemm", "Conv", "If", "Loop", "Constant", "Shape", "LeakyRelu", "BatchNormalization"]


def check_partition(run, drv, stats, rng, n):
    """`BuilderBase._partition_inputs_attributes` on real schemas of many (operator, opset version) pairs, in random
    order within ONE process, against the Lean `partition` on the signature extracted from that very schema."""
    r = R()
    onnx, ir, B = r.onnx, r.ir, r.B
    g = ir.Graph(name="main", inputs=[], outputs=[], nodes=[], opset_imports={"": OPSET})
    gb = B.GraphBuilder(g)
    cases, lines = [], []
    for _ in range(n):
        op = rng.choice(PART_OPS)
        ver = rng.randint(11, 21)
        try:
            schema = onnx.defs.get_schema(op, ver, "")
        except Exception:
            continue
        sig = ir.schemas.OpSignature.from_op_schema(schema)
        params = list(sig.params)
        spec = ";".join(
            ":".join([p.name, str(int(p.is_param())), str(int(bool(p.is_param() and p.variadic))), str(int(bool(p.required))),
                      str(int(bool((not p.is_param()) and p.has_default())))])
            for p in params) or "@"
        npos = rng.randint(0, len(params) + 1) if rng.random() < 0.9 else len(params) + 2
        args = [f"a{i}" for i in range(npos)]
        kw = {}
        for p in params:
            if rng.random() < 0.3:
                kw[p.name] = "k_" + p.name
        if rng.random() < 0.07:
            kw["zz_unknown"] = "k_zz"
        cases.append((op, ver, schema.since_version, schema, args, kw))
        lines.append("part " + spec + " " + (";".join(args) or "@") + " " + ("&".join(f"{k}={v}" for k, v in kw.items()) or "@"))
    outs = drv.ask(lines)
    problems = []
    seen_versions = set()
    for (op, ver, since, schema, args, kw), mline in zip(cases, outs):
        stats["part_cases"] += 1
        seen_versions.add((op, since))
        try:
            ins, attrs = gb._partition_inputs_attributes(schema, list(args), dict(kw))
            real = "OK " + ";".join("~" if i is None else i for i in ins) + " | " + "&".join(f"{k}={v}" for k, v in attrs.items())
            stats["part_ok"] += 1
        except TypeError as e:
            msg = str(e)
            if msg.startswith("Unexpected keyword"):
                real = "ERR extra-kwargs"
            elif msg.startswith("Required input"):
                real = "ERR missing"
            elif msg.startswith("Too many positional"):
                real = "ERR too-many"
            else:
                real = "ERR other " + msg[:60]
            stats["part_" + real.split()[1]] += 1
        m = mline if not mline.startswith("ERR missing") else "ERR missing"
        if real != m:
            problems.append(({"partition": {"op": op, "version": ver, "since_version": since, "args": args, "kwargs": kw}},
                             "tie", f"_partition_inputs_attributes({op}@{ver}, {args}, {kw}): impl {real!r} vs model {mline!r}"))
        else:
            # the property side: a positional argument that is neither an input nor an attribute value was dropped
            if real.startswith("OK"):
                placed = {i for i in ins if i is not None} | set(attrs.values())
                if not set(args) <= placed:
                    problems.append(({"partition": {"op": op, "version": ver, "args": args, "kwargs": kw}}, "property",
                                     f"{op}@{ver}: positional arguments {sorted(set(args) - placed)} silently dropped"))
    stats["part_op_versions"] = len(seen_versions)
    return problems


# --------------------------------------------------------------------------- main

FINGERPRINTS = {
    "onnxscript/_internal/builder.py": ["GraphBuilder", "build_graph", "build_function"],
    "onnxscript/_internal/tape_builder.py": ["BuilderBase", "_constant_name"],
    "onnxscript/_internal/_inliner.py": ["instantiate"],
    "onnxscript/nn/_module.py": ["Module"],
    "onnxscript/nn/_module_list.py": ["ModuleList"],
    "onnxscript/nn/_sequential.py": ["Sequential"],
    "onnxscript/nn/_parameter.py": ["Parameter"],
}


def main(run: core.Run) -> None:
    run.assumptions += [
        "A-op: operator semantics are onnxruntime's (optimisations off); the NumPy replay is the trace's own meaning",
        "which dtype a literal operand is promoted to is C12's subject: the trace carries the resolved dtype; "
        "cache identity and constant naming are modelled here",
        "nn: every forward() uses each own parameter and calls each registered child exactly once, in registration "
        "order (Sequential.forward does; ModuleLists are iterated); construction programs are linear (TreeNotDag)",
        "attributes of calls are not part of the Lean structure model (they are exercised by the onnxruntime-vs-NumPy oracle)",
    ]
    audit = run.prove(PROP_MODULES)
    drv = core.Driver("C18")
    stats: Counter = Counter()
    rng = run.rng
    fntab = make_functions()
    findings = {f["id"]: f for f in run.open_findings()}

    if run.replay_path:
        body = json.loads(open(run.replay_path).read())
        cs = body.get("case", {})
        probs = []
        if "trace" in cs:
            for hcase in cs.get("history") or []:  # process-level state: earlier builders of the failing run
                run_real(case_from_json(hcase))
            probs = check_builder_cases(run, drv, [case_from_json(cs)], stats, rng)
        elif "prog" in cs:
            probs = check_nn_cases(run, drv, [cs], stats)
        for p in probs:
            print(f"REPLAY {p[1]}: {p[2]}")
        if probs:
            run.violation({"case": cs, "problems": [p[2] for p in probs]}, "replayed case still fails")
        run.coverage.update(evaluations=1, distinct_nontrivial=1)
        return

    drift = []
    for path, names in FINGERPRINTS.items():
        drift += core.fingerprint_drift("C18", path, names)
    run.coverage["fingerprint_drift"] = drift
    scale = 3 if (drift and run.tier == "quick") else 1

    all_problems = []
    # ---- builder stream
    n_none = run.size(205, 2000) * scale
    n_expl = run.size(110, 1000) * scale
    n_auto = run.size(110, 1000) * scale
    plan = [("none", n_none), ("explicit", n_expl), ("auto", n_auto)]
    distinct = set()
    for mode, n in plan:
        cases = []
        for _ in range(n):
            c = new_case(rng, mode, rng.randint(3, 14), stats)
            cases.append(c)
            distinct.add(model_line(c))
        for k in range(0, len(cases), 100):
            all_problems += check_builder_cases(run, drv, cases[k:k + 100], stats, rng)
    for c in list(distinct)[:3]:
        run.sample(c[:600])
    all_problems += check_builder_cases(run, drv, refusal_cases(rng, stats), stats, rng)
    # ---- exception histories: calls that raise (refused by the builder, or the user's trace function raises) are
    #      caught by the traced program, which goes on with the same builder
    fcases = []
    for i in range(run.size(36, 900) * scale):
        c = new_case(rng, ("none", "auto", "explicit")[i % 3], rng.randint(4, 12), stats, faults=0.22)
        fcases.append(c)
        distinct.add(model_line(c))
    fcases += fault_directed_cases(stats)
    for k in range(0, len(fcases), 100):
        all_problems += check_builder_cases(run, drv, fcases[k:k + 100], stats, rng)

    # ---- nn stream
    n_nn_plain = run.size(500, 6000) * scale
    n_nn_expl = run.size(250, 3000) * scale
    progs = []
    for explicit, n in ((False, n_nn_plain), (True, n_nn_expl)):
        for _ in range(n):
            g = NNGen(rng, explicit, stats)
            prog = g.program()
            progs.append({"prog": prog, "explicit": explicit, "diverging": g.diverging})
            distinct.add(" ".join(prog))
    for _ in range(run.size(120, 1000) * scale):
        g = NNGen(rng, False, stats, ctl=True)
        prog = g.program()
        progs.append({"prog": prog, "explicit": False, "diverging": False, "ctl": True})
        distinct.add(" ".join(prog))
    progs = [{"prog": p.split(), "explicit": False, "diverging": False, "ctl": "MC|" in p} for p in NN_CORPUS] + progs
    # histories: every 5th program calls the root twice on one builder — the first forward raises at a random step
    # (or, when the step number exceeds the forward's length, completes)
    for i, p in enumerate(progs):
        if i % 5 == 2:
            p["abort_at"] = rng.randint(1, 9)
    for k in range(0, len(progs), 250):
        all_problems += check_nn_cases(run, drv, progs[k:k + 250], stats)
    for p in progs[:3]:
        run.sample(" ".join(p["prog"]))

    # ---- argument partition stream (operator signatures of many opset versions, one process)
    all_problems += check_partition(run, drv, stats, rng, run.size(1500, 15000))

    # ---- witnesses of the known findings, replayed on the real code (and on the model)
    wit = witness_cases(fntab)
    for fid, c in wit.items():
        probs = check_builder_cases(run, drv, [c], stats, rng)
        ties = [p for p in probs if p[1] == "tie"]
        props = [p for p in probs if p[1] == "property"]
        all_problems += ties
        if props:
            if fid in findings:
                run.known(fid, props[0][2])
                stats["known_" + fid] += 1
            else:
                all_problems += props
        elif fid in findings:
            stats["witness_no_longer_fails_" + fid] += 1
    d = witness_d20d()
    stats["d20d_call"] = str(d["call"])[:60]
    if isinstance(d["inline"], str) or d["inline"] != d["call"]:
        if "D20d" in findings:
            run.known("D20d", f"call_inline(s_default, x) without the defaulted attribute: {d['inline']}; call(...) gives {d['call']}")
        else:
            all_problems.append(({"witness": "D20d"}, "property", f"call_inline vs call: {d}", {}, {}))
    ins_g, got_g, want_g = witness_d20g()
    if got_g != want_g:
        what = f"op.Clip(x, max=0.5) builds Clip({', '.join(ins_g)}): onnxruntime {got_g}, NumPy clip(x, None, 0.5) = {want_g}"
        if "D20g" in findings:
            run.known("D20g", what)
        else:
            all_problems.append(({"witness": "D20g"}, "property", what, {}, {}))
    di = witness_d20i()
    if di["call"] != di["call_inline"]:
        what = f"call(f, x, 2.0) -> {di['call']}; call_inline(f, x, 2.0) -> {di['call_inline']}"
        if "D20i" in findings:
            run.known("D20i", what)
        else:
            all_problems.append(({"witness": "D20i"}, "property", what, {}, {}))
    nw = nn_witnesses()
    if not nw["D20j_raised"]:
        all_problems.append(({"witness": "D20j"}, "tie", "call_inline with too many operands and a _prefix no longer raises"))
    for fid in ("D20b", "D20e", "D20j"):
        got, want = nw[fid]
        if sorted(got) != sorted(want):
            if fid in findings:
                run.known(fid, f"initializers {got} vs root.name + state_dict keys {want}")
            else:
                all_problems.append(({"witness": fid}, "property", f"initializers {got} vs {want}", {}, {}))
    stats["shared_instance_witness"] = str(nw["shared"])

    # ---- verdict
    tie_broken, prop_fail = [], []
    known_counts: Counter = Counter()
    for p in all_problems:
        c, kind, detail = p[0], p[1], p[2]
        if kind == "tie":
            tie_broken.append((c, detail))
            continue
        fid = None
        if "trace" in c:
            fid = classify_builder_failure(c, p[3] if len(p) > 3 else {}, p[4] if len(p) > 4 else {})
        elif "prog" in c and c.get("diverging"):
            fid = "D20b"
        if fid and fid in findings:
            known_counts[fid] += 1
            if known_counts[fid] == 1:
                run.known(fid, detail[:300])
        else:
            prop_fail.append((c, detail))
    for k, v in known_counts.items():
        stats["known_in_stream_" + k] = v

    def jcase(c):
        return case_json(c) if "trace" in c else {k: v for k, v in c.items() if k in ("prog", "explicit", "diverging", "witness", "ctl", "partition", "abort_at")}

    if prop_fail:
        prop_fail.sort(key=lambda x: len(json.dumps(jcase(x[0]))))
        c, detail = prop_fail[0]
        extra = {}
        if "trace" in c:
            standalone, hist = history_of(case_json(c), EXECUTED[: c.get("seq", 0)])
            extra = {"standalone": standalone, "history": hist}
            if not standalone:
                detail += (" [fails only after earlier builders in the same process: history of "
                           f"{len(hist)} trace(s) attached]" if hist else " [history-dependent; no short history found]")
        run.violation({**jcase(c), **extra, "detail": detail, "others": len(prop_fail) - 1}, "real code violates the property: " + detail[:400])
    elif tie_broken:
        tie_broken.sort(key=lambda x: len(json.dumps(jcase(x[0]))))
        c, detail = tie_broken[0]
        run.violation(
            {**jcase(c), "detail": detail, "broken": "correspondence OV.C18.build / OV.C18.realize vs implementation",
             "others": len(tie_broken) - 1},
            "correspondence broken: " + detail[:300] + "; no input found on which the implementation violates the property",
            no_input=True,
        )
    if not audit["ok"]:
        run.violation(
            {"broken": "proof obligations of OV.Props.C18", "problems": audit["problems"], "log": audit["build_log"][-1500:]},
            "Lean proof obligations for C18 do not check: " + "; ".join(audit["problems"][:3]),
            no_input=True,
        )

    run.coverage.update(
        evaluations=stats["builder_cases"] + stats["nn_cases"] + stats["part_cases"],
        distinct_nontrivial=len(distinct),
        rule="distinct builder traces (≥3 operator calls beside the inputs) and distinct module-construction programs "
        "(the 1500 argument-partition cases are counted in evaluations only); "
        "each is executed on the real GraphBuilder / nn classes and on the Lean model, and judged by the oracles",
        traces_validated_against_impl=stats["builder_cases"] + stats["nn_cases"] + stats["part_cases"],
        distribution={k: v for k, v in sorted(stats.items())},
        exhaustive=False,
    )
    if stats["builder_cases"] and stats["builder_real_error"] > 0.3 * stats["builder_cases"]:
        raise core.Infra("generator degenerated: >30% of traces refused by the builder")
    for need in ("If", "Loop", "inline", "call", "two_overloads_in_trace", "call_overloaded_name", "inline_passthrough", "default_attr_omitted", "plain_attr", "nested_list_after_naming", "nn_param_in_depth2_subgraph", "bool_lit_where", "bool_lit_if", "bool_lit_loop", "bool_lit_call", "bool_lit_sibling", "none_operand", "keyword_input_after_omitted", "refusal_pop_empty", "refusal_inline_too_many_inputs", "refusal_inline_outputs_mismatch", "inline_literal_arg", "part_ok", "part_extra-kwargs", "part_missing", "part_too-many", "reduce_axes_attr", "default_attr_omitted_s_leaky0", "default_attr_omitted_s_softmax0", "lit_list", "multi_output", "push", "append_after_naming", "slice", "kind_seq", "kind_list",
                 "fault_inline_too_many_prefixed", "fault_inline_too_many_plain", "fault_sub_abort", "fault_sub_mismatch",
                 "fault_then_continue", "fault_refusals_observed", "nn_abort_then_call", "nn_abort_partial",
                 "inline_unnamed_body_twice", "loop_literal_carried_f32", "loop_literal_carried_i64"):
        if not stats[need]:
            raise core.Infra(f"generator never produced construct {need}")


if __name__ == "__main__":
    import sys

    if len(sys.argv) == 3 and sys.argv[1] == "subreplay":
        sys.exit(subreplay(sys.argv[2]))
