"""C02 — every proto the converter emits is well-formed ONNX; bad programs are refused.

Proof obligations: lean/OV/Props/C02.lean (model shared with C01).
Tie: the C01 correspondence stream (real `script()` vs the Lean `convert`, structure and refusal class)
plus near-miss programs (one grammar-violating edit each) that must be refused by both, with the same
exception class.  Oracles run on every accepted program's REAL protos:
  * `onnx.checker.check_function(to_function_proto())`
  * `onnx.checker.check_model(to_model_proto(), full_check=True)` (strict, with shape inference)
  * an independent pure-Python SSA / scope walker (`c01_enc.scope_walk`)
  * opset-import audit: every domain used at any depth is imported, with one version
  * the executable Lean decision procedure `OV.C01.wfGraph` (read as Prop clauses by `wfGraph_sound`) on the real proto parsed back
    into the model's `Graph`.
"""
from __future__ import annotations

import json
from collections import Counter

from harness import core
from harness import c01
from harness import c01_enc as enc
from harness import c01_gen as gen
from harness import c02_env
from harness import c02_gen

PROP_MODULES = ["OV.Props.C02", "OV.Props.C02Collect"]


def domains_used(nodes, acc: set):
    import onnx

    for n in nodes:
        acc.add(n.domain)
        for a in n.attribute:
            if a.type == onnx.AttributeProto.GRAPH:
                domains_used(a.g.node, acc)
            elif a.type == onnx.AttributeProto.GRAPHS:
                for g in a.graphs:
                    domains_used(g.node, acc)
    return acc


def attr_refs(nodes) -> list[str]:
    import onnx

    out = []
    for n in nodes:
        for a in n.attribute:
            if a.ref_attr_name:
                out.append(a.ref_attr_name)
            if a.type == onnx.AttributeProto.GRAPH:
                out += attr_refs(a.g.node)
            elif a.type == onnx.AttributeProto.GRAPHS:
                for g in a.graphs:
                    out += attr_refs(g.node)
    return out


def import_problems(opset_import, nodes, where: str) -> list[str]:
    out = []
    imported = Counter(o.domain for o in opset_import)
    for d, k in imported.items():
        if k > 1:
            out.append(f"{where}: domain {d!r} imported {k} times")
    for d in sorted(domains_used(nodes, set())):
        if d not in imported:
            out.append(f"{where}: operator domain {d!r} is used but not imported")
    return out


def structural_oracle(fn, meta: dict, real_neutral, stats: Counter) -> list[str]:
    """The property's structural oracle on the protos of one accepted program."""
    import onnx

    problems: list[str] = []
    stats["structural_evaluations"] += 1
    try:
        fp = fn.to_function_proto()
    except Exception as e:  # an accepted program whose proto cannot even be produced
        return [f"to_function_proto() raises {type(e).__name__} on a program the decorator accepted: "
                + " ".join(str(e).split())[:160]]
    try:
        onnx.checker.check_function(fp)
    except Exception as e:
        problems.append("onnx.checker.check_function rejects to_function_proto(): " + str(e).strip().split("\n")[0][:200])
    problems += import_problems(fp.opset_import, fp.node, "FunctionProto")
    neutral = enc.proto_to_neutral(fp)
    for pr in enc.scope_walk(neutral):
        problems.append("scope walker (FunctionProto): " + pr)
    if all(len(a) > 2 and a[2] is not None for a in meta["attrs"]):
        try:
            out_types = [c01._Ty(c01.type_proto(t, meta["shape"])) for _, t in meta["rets"]]
            mp = fn.to_model_proto(output_types=out_types)
        except Exception as e:
            problems.append(f"to_model_proto() raises {type(e).__name__}: {str(e)[:160]}")
            return problems
        stats["model_protos_checked"] += 1
        try:
            onnx.checker.check_model(mp, full_check=True)
        except Exception as e:
            problems.append("onnx.checker.check_model(full_check=True) rejects to_model_proto(): "
                            + " ".join(str(e).split())[:220])
        problems += import_problems(mp.opset_import, list(mp.graph.node) + [n for f in mp.functions for n in f.node],
                                    "ModelProto")
        for pr in enc.scope_walk(enc.proto_to_neutral(mp.graph)):
            problems.append("scope walker (ModelProto graph): " + pr)
        for r in attr_refs(mp.graph.node):
            problems.append(f"ModelProto main graph refers to attribute parameter @{r} (nothing binds it in a model)")
        if mp.ir_version < 3:
            problems.append(f"ir_version {mp.ir_version}")
        problems += annotated_export_problems(fn, meta, stats)
    return problems


def annotated_export_problems(fn, meta: dict, stats: Counter) -> list[str]:
    """"strict mode … when inputs and outputs are typed": a program that DECLARES its return types is exported with
    nothing overridden (`output_types=` above re-types every output and would hide a missing or wrong declared type);
    every graph output must then carry a type, the declared one, and the model must pass the strict checker."""
    import onnx

    head = [ln for ln in meta["src"].split("\n") if ln.startswith("def ")]
    if not head or "->" not in head[0]:
        return []
    stats["annotated_model_protos_checked"] += 1
    names = [r for r, _ in meta["rets"]]
    if len(set(names)) < len(names):
        stats["annotated_duplicate_return_protos"] += 1
    try:
        mp = fn.to_model_proto()
    except Exception as e:
        return [f"to_model_proto() of an annotated function raises {type(e).__name__}: {str(e)[:160]}"]
    out = []
    want = [c01.type_proto(t, meta["shape"]).tensor_type.elem_type for _, t in meta["rets"]]
    for k, o in enumerate(mp.graph.output):
        et = o.type.tensor_type.elem_type if o.HasField("type") else 0
        if et == 0:
            out.append(f"output {k} ({o.name}) of to_model_proto() carries no type although the function declares "
                       "its return types")
        elif k < len(want) and et != want[k]:
            out.append(f"output {k} ({o.name}) of to_model_proto(): declared element type {want[k]}, the proto says {et}")
    try:
        onnx.checker.check_model(mp, full_check=True)
    except Exception as e:
        out.append("onnx.checker.check_model(full_check=True) rejects to_model_proto() of an annotated function "
                   "(declared types, nothing overridden): " + " ".join(str(e).split())[:200])
    return out


def main(run: core.Run) -> None:
    run.assumptions += [
        "the ONNX checker's type/shape inference is an oracle, not a theorem",
        "nested function definitions (@graph) are outside the Lean model; their protos are checked by the "
        "checker and the scope walker only",
        "opset-import bookkeeping and the called-function collection (IRFunction.append_node, Converter._exit_scope, "
        "get_called_functions, _to_model_proto) are modelled (OV.Model.C02Collect) and tied on worlds of script functions; "
        "the model's input (domain, version, callee of every node) is read off the real function_ir objects",
    ]
    audit = run.prove(PROP_MODULES)
    findings = {f["id"]: f for f in run.open_findings()}

    if run.replay_path:
        body = json.loads(open(run.replay_path).read())
        m = dict(body["case"]["meta"])
        if m.get("env"):
            stats, features = Counter(), Counter()
            eties, efails = c02_env.run_stream(run, core.Driver("C02"), 0, stats, features, only_src=m["src"],
                                               only_kwargs=m.get("kwargs"))
            for t in eties:
                print("REPLAY tie:", t["tie"], "\n real :", t["real"], "\n model:", t["model"])
            for f in efails:
                print("REPLAY structural:", f["what"])
            if efails:
                run.violation({"meta": m, "what": efails[0]["what"]}, "replayed case still fails: " + efails[0]["what"])
            elif eties:
                run.violation({"meta": m, "tie": eties[0]["tie"]}, "replayed correspondence still broken: " + eties[0]["tie"],
                              no_input=True)
            run.coverage.update(evaluations=stats.get("env_worlds", 0), distinct_nontrivial=1)
            return
        res = c01.run_batches(run, [{"progs": [m], "seed": 1, "n_inputs": 1, "semantic": False, "structural": True}], 1)
        stats, features, ties, pf, sf, refusals = c01.merge(res)
        for t in ties:
            print("REPLAY tie:", t["tie"])
        for f in sf:
            print("REPLAY structural:", f["what"])
        sf = c01.split_known(run, sf, findings)
        if sf:
            run.violation({"meta": m, "what": sf[0]["what"]}, "replayed case still fails: " + sf[0]["what"])
        elif ties:
            run.violation({"meta": m, "tie": ties[0]["tie"]}, "replayed correspondence still broken: " + ties[0]["tie"], no_input=True)
        run.coverage.update(evaluations=stats.get("structural_evaluations", 0), distinct_nontrivial=1)
        return

    n_prog = run.size(260, 4000)
    n_near = run.size(8, 70)  # base programs; each yields ~23 near-misses
    drift = core.fingerprint_drift("C02", "onnxscript/_internal/converter.py", c01.FINGERPRINT_FUNCS)
    run.coverage["fingerprint_drift"] = drift
    if drift and run.tier == "quick":
        n_prog = int(n_prog * 1.5)
    corpus = [m for m in c01.load_corpus()]
    tasks, progs = c01.generate_tasks(run, n_prog, 1, 25, semantic=False, structural=True)
    # programs with constant subscripts in every scope (structure only; constant subscripts are in the Lean converter
    # model, so they are tied as well; checker, scope walker and the Lean checker wfGraph see their protos)
    stasks, sprogs = c01.generate_tasks(run, run.size(120, 1200), 1, 25, subscripts=True, prefix="g",
                                        semantic=False, structural=True)
    tasks += stasks
    # dedicated streams: subscripts with shared integers in sibling loop bodies / branches (an index-constant cache that
    # outlives its expression or its subgraph), and user variables named like generated names (`x_0`, `x_sliced`, …)
    sib = [gen.sibling_subscript_program(run.rng, f"s{k}") for k in range(run.size(40, 300))]
    col = [gen.name_collision_program(run.rng, f"u{k}", subscripts=(k % 2 == 0)) for k in range(run.size(50, 400))]
    ded = sib + col + [gen.nested_callee_program(run.rng, f"h{k}") for k in range(run.size(4, 30))]
    # C02's own classes: block -> enclosing-scope subscript histories; declared return types x one value returned twice
    ded += [c02_gen.after_block_subscript_program(run.rng, f"ab{k}") for k in range(run.size(40, 300))]
    ded += [c02_gen.typed_duplicate_return_program(run.rng, f"td{k}") for k in range(run.size(20, 150))]
    # must-pass regression cases of fixed findings (C02-D2: declared return types x nested function definition)
    ded += c02_gen.regression_programs()
    for k in range(0, len(ded), 25):
        tasks.append({"progs": ded[k:k + 25], "seed": run.rng.randrange(1 << 30), "n_inputs": 1, "semantic": False,
                      "structural": True})
    # near-miss programs
    near = []
    for k in range(n_near):
        base = progs[run.rng.randrange(len(progs))]
        p = gen.Prog()
        p.params = [tuple(x) for x in base["params"]]
        p.attrs = [tuple(x) for x in base["attrs"]]
        p.shape = tuple(base["shape"])
        p.src = base["src"]
        for j, (kind, cls, src) in enumerate(gen.near_misses(run.rng, p)):
            name = f"nm{k}x{j}"
            src = src.replace(f"def {base['name']}(", f"def {name}(")
            near.append({"name": name, "src": src, "shape": base["shape"], "params": base["params"],
                         "attrs": base["attrs"], "rets": [], "near_miss": kind, "expect": cls, "features": []})
    for k in range(0, len(near), 60):
        tasks.append({"progs": near[k:k + 60], "seed": 3, "n_inputs": 1, "semantic": False, "structural": False})
    if corpus:
        tasks.insert(0, {"progs": corpus, "seed": 7, "n_inputs": 1, "semantic": False, "structural": True})
    results = c01.run_batches(run, tasks, c01.workers_for(run))
    stats, features, ties, pf, sf, refusals = c01.merge(results)
    stats["corpus_programs"] = len(corpus)
    # near-miss refusals: class must be the expected one as well (documents which refusal path was hit)
    for r in refusals:
        m = r["meta"]
        if m.get("near_miss") and m.get("expect") and r["cls"] != m["expect"]:
            stats["near_miss_other_class"] += 1
            stats[f"near_miss_other_class_{m['near_miss']}_{r['cls']}"] += 1
    for m in progs[:3]:
        run.sample({"src": m["src"]})
    for m in near[:3]:
        run.sample({"near_miss": m["near_miss"], "src": m["src"]})
    # second stream: import lists and ModelProto.functions of worlds of script functions (OV.Model.C02Collect)
    eties, efails = c02_env.run_stream(run, core.Driver("C02"), run.size(100, 800), stats, features)
    if eties and not efails:
        # tie broken: the oracle ran on the same worlds and found nothing; widen the search before saying "no input"
        _, more = c02_env.run_stream(run, core.Driver("C02"), run.size(300, 1500), Counter(), Counter())
        efails += more
    gen_ties = [t for t in ties if not t["meta"].get("near_miss")]
    if gen_ties:
        _, ssf, sstats = c01.guarded_search(run, gen_ties, semantic=False, structural=True)
        sf += ssf
        stats.update(sstats)
    sf = c01.split_known(run, sf, findings) + efails
    ties = ties + eties
    c01.verdict(run, audit, stats, features, ties, sf, "C02", PROP_MODULES, refusals)
    c01.require_coverage(stats, features,
                         ["export_ties", "verified_wf_checks_on_real_protos", "model_protos_checked",
                          "near_miss_programs", "refused_TranslationError", "refused_ValueError", "refused_SyntaxError",
                          "near_miss_loop-without-state", "near_miss_return-not-last",
                          "near_miss_loop-var-read-after-loop", "near_miss_mixed-opset-in-branch", "corpus_programs"]
                         + ["annotated_model_protos_checked", "annotated_duplicate_return_protos"]
                         + c02_env.REQUIRED_STATS,
                         ["subscript", "sibling-subgraphs", "sibling-for", "sibling-while", "sibling-if",
                          "user-names-like-generated", "for", "while", "callee-calls-inside-control-flow"]
                         + ["subscript-after-block", "subscript-after-nested-block", "typed-duplicate-return",
                            "typed-duplicate-return-from-branch", "typed-duplicate-return-from-loop",
                            "typed-duplicate-return-with-input", "regression-C02-D2"]
                         + c02_env.REQUIRED_FEATURES)
    gen_refused = stats["refused"] - stats.get("near_miss_programs", 0) + sum(
        1 for f in sf if f.get("near_miss_accepted"))
    if stats["programs"] >= 20 and gen_refused > 0.3 * max(1, stats["programs"] - stats.get("near_miss_programs", 0)):
        raise core.Infra(f"generator degenerated: {gen_refused} generated programs refused")
