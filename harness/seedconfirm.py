"""Confirm a seeded change independently: demo passes on clean tree, fails with the patch;
the unit tests named in meta.json give the same summary with and without the patch.

usage: python harness/seedconfirm.py <seed-id> <worktree-path-used-by-the-author>
Writes seeded/<id>/confirmed.json.
"""
import json
import os
import re
import subprocess
import sys
from pathlib import Path

V = Path(__file__).resolve().parent.parent


def sh(cmd, cwd, env=None, timeout=3000):
    p = subprocess.run(cmd, shell=True, cwd=cwd, env=env, capture_output=True, text=True, timeout=timeout)
    return p.returncode, (p.stdout + p.stderr)


def summary(out):
    lines = [re.sub(r"\x1b\[[0-9;]*m", "", l) for l in out.splitlines()]
    s = [l for l in lines if re.search(r"\d+ (passed|failed|error)", l)]
    s = s[-1] if s else (lines[-1] if lines else "")
    return re.sub(r" in [0-9.]+s.*", "", s).strip("= ")


def main():
    sid, author_wt = sys.argv[1], sys.argv[2].rstrip("/")
    seed = V / "seeded" / sid
    meta = json.loads((seed / "meta.json").read_text())
    wt = f"/tmp/seedconfirm_{sid}_{os.getpid()}"
    subprocess.run(["git", "-C", "/repo", "worktree", "add", "-q", "--detach", wt, "HEAD"], check=True)
    env = dict(os.environ, PYTHONPATH=wt, PYTHONWARNINGS="ignore")
    res = {}
    try:
        demo = f"/venv/bin/python {seed / 'demo.py'}"
        res["demo_clean_exit"], _ = sh(demo, wt, env)
        tests = meta.get("tests_run", "").replace(author_wt, wt)
        tests = re.sub(r"^cd \S+ && ", "", tests)
        # keep only the runnable pytest command (authors sometimes append prose)
        m = re.search(r"((?:PYTHONPATH=\S+ )?\S*python\S* -m pytest[^;&|(]*)", tests)
        tests = m.group(1).strip() if m else ""
        if tests:
            _, out = sh(tests, wt, env)
            res["tests_clean"] = summary(out)
        subprocess.run(["git", "-C", wt, "apply", str(seed / "patch.diff")], check=True)
        res["demo_patched_exit"], out = sh(demo, wt, env)
        res["demo_patched_tail"] = out.strip().splitlines()[-3:]
        if tests:
            _, out = sh(tests, wt, env)
            res["tests_patched"] = summary(out)
        res["tests_cmd"] = tests
        res["confirmed"] = (
            res["demo_clean_exit"] == 0
            and res["demo_patched_exit"] != 0
            and res.get("tests_clean") == res.get("tests_patched")
        )
    finally:
        subprocess.run(["git", "-C", "/repo", "worktree", "remove", "--force", wt])
    (seed / "confirmed.json").write_text(json.dumps(res, indent=1))
    print(sid, json.dumps(res)[:600])


if __name__ == "__main__":
    main()
