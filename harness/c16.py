"""C16 — every registered torch_lib overload binds correctly to its ATen schema.

Proof obligations: lean/OV/Props/C16.lean (model OV/Model/C16Bind.lean, lemmas OV/Lemmas/C16Bind.lean).

Tie (re-established on every run against `core.REPO`):
  1. translator — `extract_registry.load()` imports the real registry (`get_torchlib_ops()`), calls the real
     `op_signature_from_function` on every registered function, resolves every name with the exporter's own
     `_get_overload`, and regenerates `OV/Gen/C16Registry*.lean`; the table theorems are re-checked by
     `lake build` (`decide +kernel`);
  2. correspondence — the compiled Lean model (`drv_c16`) and the real code on the same cases:
     a. `bind`: for every row, conforming calls (every admissible positional count × keyword subsets) and
        non-conforming ones go through the exporter's real binder
        (`torch.onnx._internal.exporter._building._construct_named_inputs_and_attrs` for scripted functions,
        `inspect.signature(func).bind` = CPython's call binding for trace-only ones) and through Lean `bind`;
     b. `nameOk` vs the real `_check_and_normalize_names` on registry names + generated near-miss strings;
     c. `register`/`torchlibOps` vs a real `Registry()` driven with generated registration sequences and the
        real `get_torchlib_ops()` run on it;
     d. the Python twin of `Entry.defects` (used to locate failing rows) vs Lean on every row.
Oracle (search / replay): the property's clauses evaluated on what the *real* binder did with a conforming
call; `onnx.checker.check_function` on every scripted function's FunctionProto; existence of the overload in
the installed PyTorch; three end-to-end `torch.onnx.export(dynamo=True)` witnesses of listed findings.
"""
from __future__ import annotations

import inspect
import itertools
import json
import re
import warnings
from collections import Counter

from harness import core, extract_registry as ex

PROP_MODULES = ["OV.Props.C16"]
DROPPABLE = ["generator", "layout", "device", "pin_memory", "memory_format", "requires_grad"]
CLAUSES = ["paramsModelled", "posFits", "posAccepts", "posNames", "kwBound", "kwPlaced", "requiredBound"]

# ----------------------------------------------------------------------------- twin of the Lean rule

INPUT_OK = {"scalar", "int", "symint", "float", "bool", "dtype", "pyobj"}
ATTR_OK = {
    "int": (False, {"int", "symint", "bool", "dtype"}),  # + a Scalar of an integer-only operator, see accepts()
    "float": (False, {"float", "scalar", "int", "symint"}),
    "string": (False, {"str", "device", "layout", "memfmt"}),
    "ints": (True, {"int", "symint", "bool"}),
    "floats": (True, {"float"}),
    "strings": (True, {"str"}),
}


def accepts(traced: bool, p: dict, arg: dict) -> bool:
    if arg["base"] == "tensor":
        return p["isInput"]
    if arg["name"] in DROPPABLE and p["name"] == arg["name"]:
        return True
    if p["isInput"]:
        return traced or arg["base"] in INPUT_OK
    if p["attr"] == "int" and not arg["isList"] and arg["base"] == "scalar" and arg.get("intScalar"):
        return True  # bitwise / shift operators: the Scalar is an integer by the operator's meaning
    spec = ATTR_OK.get(p["attr"])
    return bool(spec) and spec[0] == arg["isList"] and arg["base"] in spec[1]


def failing_clauses(r: dict) -> list[str]:
    a, s, traced = r["aten"], r["sig"], r["traceOnly"]
    pos, kw = a["positional"], a["kwonly"]
    drops = not traced
    out = []
    if not all(p["pok"] and not p["variadic"] for p in s):
        out.append("paramsModelled")
    if not all(i < len(s) or (drops and x["name"] in DROPPABLE) for i, x in enumerate(pos)):
        out.append("posFits")
    if not all(accepts(traced, s[i], x) for i, x in enumerate(pos) if i < len(s)):
        out.append("posAccepts")
    if not all(len(s) <= i or q["name"] != x["name"] or j == i for i, x in enumerate(pos) for j, q in enumerate(s)):
        out.append("posNames")
    if not all(any(q["name"] == x["name"] for q in s) or (drops and x["name"] in DROPPABLE) for x in kw):
        out.append("kwBound")
    if not all(q["name"] != x["name"] or (len(pos) <= j and accepts(traced, q, x)) for x in kw for j, q in enumerate(s)):
        out.append("kwPlaced")

    def must(j):
        return any(not x["hasDefault"] for x in pos[j:])

    if not all(
        (not p["required"])
        or must(j)
        or (len(pos) <= j and any(x["name"] == p["name"] and not x["hasDefault"] for x in kw))
        for j, p in enumerate(s)
    ):
        out.append("requiredBound")
    return out


def k_reasons(r: dict) -> list[str]:
    """Twin of Lean `kReasons`: why the row is outside the wide call model's theorem (`bindsOkK`)."""
    a, s = r["aten"], r["sig"]
    pos, kw = a["positional"], a["kwonly"]
    names = [p["name"] for p in s]
    anames = [x["name"] for x in pos + kw]
    out = []
    if failing_clauses(r):
        out.append("ruleFails")
    if not all(s[i]["name"] == x["name"] for i, x in enumerate(pos) if i < len(s)):
        out.append("posName")
    if not all((not p["required"]) or j >= len(pos) or not pos[j]["hasDefault"] for j, p in enumerate(s)):
        out.append("requiredOwn")
    if len(set(names)) != len(names) or len(set(anames)) != len(anames):
        out.append("dupNames")
    return out


def lean_outside_k() -> dict:
    """`outsideK` of OV/Props/C16.lean: {(qualified, isComplex | None): [reasons]}."""
    src = core.strip_comments((core.LEAN / "OV" / "Props" / "C16.lean").read_text())
    out = {}
    for m in re.finditer(r'\|\s*"([^"]+)",\s*(_|true|false)\s*=>\s*\[([^\]]*)\]', src):
        kind = None if m.group(2) == "_" else m.group(2) == "true"
        out[(m.group(1), kind)] = [d.strip().lstrip(".") for d in m.group(3).split(",") if d.strip()]
    return out


def binds_ok_k(r: dict) -> bool:
    """Twin of Lean `bindsOkK`: the row is also right for calls that pass positional schema arguments by keyword."""
    a, s = r["aten"], r["sig"]
    pos, kw = a["positional"], a["kwonly"]
    names = [p["name"] for p in s]
    anames = [x["name"] for x in pos + kw]
    return (not failing_clauses(r)
            and all(s[i]["name"] == x["name"] for i, x in enumerate(pos) if i < len(s))
            and all((not p["required"]) or j >= len(pos) or not pos[j]["hasDefault"] for j, p in enumerate(s))
            and len(set(names)) == len(names) and len(set(anames)) == len(anames))


def real_name_ok(name: str) -> bool:
    from onnxscript.function_libs.torch_lib import registration

    try:
        registration._check_and_normalize_names(name)
        return True
    except ValueError:
        return False


# independent restatement of the property's name clause (NOT the code under test): '<ns>::<name>[.<overload>]',
# default overloads spelled without '.default'
_SPEC_NAME = re.compile(r"[a-zA-Z0-9_]+::[a-zA-Z0-9_]+(\.[a-zA-Z0-9._]+)?")


def spec_name_ok(name: str) -> bool:
    return _SPEC_NAME.fullmatch(name) is not None and not name.endswith(".default")


CLASSIFY = {
    "missing": (True, "none"), "otherOrigin": (True, "none"), "otherPlain": (True, "none"),
    "base:int": (False, "int"), "base:float": (False, "float"), "base:str": (False, "string"), "base:bool": (False, "int"),
    "base:tensor": (False, "other"), "base:graph": (False, "other"),
    "seqOf:int": (False, "ints"), "seqOf:float": (False, "floats"), "seqOf:str": (False, "strings"), "seqOf:bool": (False, "ints"),
    "seqOf:tensor": (False, "other"), "seqOf:graph": (False, "other"),
}


def sig_faithful(sig: list[dict]) -> bool:
    """Twin of Lean `sigFaithful`: the recorded classification is what the transcription of
    `op_signature_from_function` / `get_attr_type` yields from the annotation category."""
    return all(
        CLASSIFY[p["annot"]] == (p["isInput"], p["attr"]) and p["required"] == (not p["pyDefault"]) and not p["variadic"]
        for p in sig
    )


def twin_defects(r: dict) -> list[str]:
    out = []
    if not spec_name_ok(r["qualified"]):
        out.append("badName")
    base_name = r["qualified"].split("::", 1)[-1].split(".", 1)[0]
    if r["func"].endswith("_complex") and not base_name.endswith("complex") and not r["isComplex"]:
        out.append("complexName")
    if any(x.get("intScalar") and not (x["base"] == "scalar" and r["qualified"].startswith(ex.INT_ONLY_PREFIXES))
           for x in r["aten"]["positional"] + r["aten"]["kwonly"]):
        out.append("schemaFlag")
    if not sig_faithful(r["sig"]):
        out.append("sigClass")
    if r["res"] == "undefined":
        out.append("undefinedOp")
    elif r["res"] != "lib_absent":
        out += failing_clauses(r)
    return out


# ----------------------------------------------------------------------------- driver encodings


def enc_aarg(a: dict) -> str:
    return "/".join([a["name"], a["base"], "L" if a["isList"] else "-", "O" if a["optional"] else "-", "D" if a["hasDefault"] else "-",
                     "I" if a.get("intScalar") else "-"])


def enc_param(p: dict) -> str:
    return "/".join(
        [p["name"], "I" if p["isInput"] else "A", p["attr"], "R" if p["required"] else "-", "V" if p["variadic"] else "-", "P" if p["pok"] else "-",
         p.get("annot", "otherPlain"), "D" if p.get("pyDefault") else "-"]
    )


def enc_codes(s: str) -> str:
    return ",".join(str(ord(c)) for c in s) or "-"


def row_line(r: dict) -> str:
    return " ".join(
        ["row", enc_codes(r["qualified"]), "1" if r["isComplex"] else "0", "traced" if r["traceOnly"] else "scripted", r["res"],
         enc_codes(r["func"]), "P"]
        + [enc_aarg(a) for a in r["aten"]["positional"]]
        + ["K"]
        + [enc_aarg(a) for a in r["aten"]["kwonly"]]
        + ["S"]
        + [enc_param(p) for p in r["sig"]]
    )


def bind_line(r: dict, npos: int, kws: list[str]) -> str:
    return " ".join(
        ["bind", "traced" if r["traceOnly"] else "scripted", str(npos), ",".join(kws) or "-", "S"] + [enc_param(p) for p in r["sig"]]
    )


# ----------------------------------------------------------------------------- defaults of omitted arguments


def enc_dval(d) -> str:
    k = d[0]
    if k in ("absent", "none", "opaque"):
        return k[0]
    if k == "bool":
        return "bT" if d[1] else "bF"
    if k == "num":
        return f"q{d[1]}_{d[2]}"
    if k == "str":
        return "s" + (",".join(str(ord(c)) for c in d[1]) or "-")
    return "l" + (";".join(f"{n}_{m}" for n, m in d[1]) or "-")


def dflt_line(r: dict, pdef=None) -> str:
    return " ".join(["dflt", "traced" if r["traceOnly"] else "scripted", "P"] + [enc_aarg(a) for a in r["aten"]["positional"]] + ["K"]
                    + [enc_aarg(a) for a in r["aten"]["kwonly"]] + ["S"] + [enc_param(p) for p in r["sig"]]
                    + ["D"] + [enc_dval(d) for d in r["adef"]] + ["E"] + [enc_dval(d) for d in (pdef if pdef is not None else r["pdef"])])


def dv_judged(d) -> bool:
    return d[0] in ("bool", "num", "str", "nums")


def dv_agree(u, v) -> bool:
    norm = lambda d: ["num", int(d[1]), 1] if d[0] == "bool" else d  # python's True == 1
    return not (dv_judged(u) and dv_judged(v)) or json.dumps(norm(u)) == json.dumps(norm(v))


def eff_defaults(r: dict, pdef=None) -> list:
    """Twin of Lean `effDefaults`: the scripted binder fills an unbound input with None."""
    pdef = r["pdef"] if pdef is None else pdef
    return [("none",) if (not r["traceOnly"]) and p["isInput"] and d[0] != "absent" else d for p, d in zip(r["sig"], pdef)]


def default_pairs(r: dict) -> list[tuple[int, int]]:
    """(schema argument number, parameter number) pairs `bind` pairs: positional i with parameter i, keyword-only with its name."""
    pos, kw, s = r["aten"]["positional"], r["aten"]["kwonly"], r["sig"]
    return [(i, i) for i in range(len(pos)) if i < len(s)] + [
        (len(pos) + k, j) for k, x in enumerate(kw) for j, p in enumerate(s) if p["name"] == x["name"]]


def defaults_twin(r: dict, pdef=None) -> str:
    """Twin of the driver's `dflt` answer."""
    args, s = r["aten"]["positional"] + r["aten"]["kwonly"], r["sig"]
    adef, pd = r["adef"], (r["pdef"] if pdef is None else pdef)
    if (len(adef) != len(args) or len(pd) != len(s) or any(x["hasDefault"] != (d[0] != "absent") for x, d in zip(args, adef))
            or any(p["pyDefault"] != (d[0] != "absent") for p, d in zip(s, pd))):
        return "shape"
    eff = eff_defaults(r, pd)
    bad = [(i, j) for i, j in default_pairs(r) if not dv_agree(adef[i], eff[j])]
    return ",".join(f"{i}:{j}" for i, j in bad) or "ok"


def mutate_dval(rng, d):
    """A different concrete default of the same kind (generator of the class 'python default drifted from the schema')."""
    k = d[0]
    if k == "bool":
        return ("bool", not d[1])
    if k == "num":
        return rng.choice([("num", d[1] + d[2], d[2]), ("num", -d[1] - 1, d[2]), ("num", 2 * d[1] + 1, 2 * d[2]), ("bool", True), ("none",)])
    if k == "str":
        return ("str", d[1] + "x")
    if k == "nums":
        return rng.choice([("nums", d[1] + [[1, 1]]), ("nums", [[n + m, m] for n, m in d[1]] or [[0, 1]]), ("num", 1, 1)])
    return rng.choice([("num", 0, 1), ("bool", False), ("str", "")])


def defaults_stream(run, drv, rows, objs, rb, stats, problems, tie_broken) -> None:
    """Defaults of omitted arguments.
    (1) twin = Lean `dflt` on every row with a schema (real rows), and on rows whose python defaults were perturbed
        (boundary generator: the same kind with another value, another kind, None) — model-level tie of `defaultsOk`/`effDefaults`;
    (2) real code: the *minimal* conforming call goes through the real binder; the value every unbound parameter is really
        filled with (`param.default` of the exporter's OpSignature / the function's python default) must (a) be the default the
        row records (`pdef` through `effDefaults`) and (b) not be a different concrete value from the structured schema default
        (`torch._C.Argument.default_value`) of the schema argument it is paired with — the property's oracle."""
    idx = [i for i, r in enumerate(rows) if r["res"] in ("resolved", "builtin")]
    outs = drv.ask([dflt_line(rows[i]) for i in idx])
    for i, o in zip(idx, outs):
        r = rows[i]
        stats["default_rows"] += 1
        t = defaults_twin(r)
        if t != o:
            raise core.Infra(f"python twin and Lean model disagree on defaults of {r['qualified']}: twin={t} lean={o}")
        for a, j in default_pairs(r):
            u, v = r["adef"][a], eff_defaults(r)[j]
            stats["default_pairs"] += 1
            if dv_judged(u) and dv_judged(v):
                stats["default_pairs_judged"] += 1
                stats["default_pairs_judged_" + u[0]] += 1
            elif u[0] != "absent" and v[0] != "absent":
                stats["default_pairs_not_judged_" + u[0] + "_" + v[0]] += 1
    # perturbed rows (model-level only)
    lines, want = [], []
    cand = [i for i in idx if any(d[0] != "absent" for d in rows[i]["pdef"])]
    for i in run.rng.sample(cand, min(len(cand), run.size(150, len(cand)))):
        r = rows[i]
        js = [j for j, d in enumerate(r["pdef"]) if d[0] != "absent"]
        j = run.rng.choice(js)
        pd = list(r["pdef"])
        pd[j] = mutate_dval(run.rng, pd[j])
        lines.append(dflt_line(r, pd))
        want.append((r, defaults_twin(r, pd)))
    for (r, t), o in zip(want, drv.ask(lines)):
        stats["default_perturbed_rows"] += 1
        stats["default_perturbed_" + ("ok" if t == "ok" else "differs")] += 1
        if t != o:
            raise core.Infra(f"python twin and Lean model disagree on perturbed defaults of {r['qualified']}: twin={t} lean={o}")
    # real binder on the minimal call
    for i in idx:
        r, f = rows[i], objs[i]
        if r["res"] != "resolved":
            continue
        npos = nreq_pos(r["aten"])
        kws = [k["name"] for k in r["aten"]["kwonly"] if not k["hasDefault"]]
        res = judge_defaults(r, f, rb, npos, kws)
        if res is None:
            stats["default_min_call_rejected"] += 1  # binding failure: reported by the bind stream
            continue
        stats["default_min_calls"] += 1
        bad, ties, n = res
        stats["default_fills_checked"] += n
        for t in ties:
            tie_broken.append({"kind": "default-fill", "qualified": r["qualified"], "npos": npos, "kws": kws, "detail": t})
        for omitted, detail in bad:
            stats["default_fills_differing"] += 1
            problems.append({"kind": "call", "qualified": r["qualified"], "isComplex": r["isComplex"], "npos": npos, "kws": kws,
                             "defects": ["defaultDiffers"], "schema": r["schemaText"], "function": r["func"], "omitted": omitted,
                             "detail": detail})


def judge_defaults(r: dict, f, rb, npos: int, kws: list[str]):
    """The property's oracle for omitted arguments on the real binder: -> None (call rejected) |
    ([(omitted argument, what differs)], [tie disagreements], number of fills looked at)."""
    filled = rb.fill(f, npos, kws)
    if filled is None:
        return None
    again = rb.fill(f, npos, kws)  # second use of the same function object / OpSignature: the fill-ins must not have moved
    eff = eff_defaults(r)
    args = r["aten"]["positional"] + r["aten"]["kwonly"]
    bad, ties, n = [], [], 0
    if again is None or {k: ex.dval(v) for k, v in again.items()} != {k: ex.dval(v) for k, v in filled.items()}:
        ties.append(f"binding the same call a second time fills {again!r}, the first time {filled!r}")
    for a, j in default_pairs(r):
        x, p = args[a], r["sig"][j]
        if a < npos or x["name"] in kws or p["name"] not in filled:
            continue
        real = ex.dval(filled[p["name"]])
        n += 1
        if not loosely_equal(real, eff[j]):
            ties.append(f"the real binder fills parameter '{p['name']}' with {filled[p['name']]!r}; the row records {eff[j]}")
        u = r["adef"][a]
        if dv_judged(u) and dv_judged(real) and not loosely_equal(u, real):
            bad.append((x["name"], f"argument '{x['name']}' ({x['type']}) is omitted: ATen computes with its schema default "
                        f"{show_dval(u)}, the function's parameter '{p['name']}' is filled with {filled[p['name']]!r}"))
    return bad, ties, n


def show_dval(d) -> str:
    k = d[0]
    if k == "num":
        return str(d[1]) if d[2] == 1 else f"{d[1]}/{d[2]}"
    if k == "nums":
        return "[" + ", ".join(str(n) if m == 1 else f"{n}/{m}" for n, m in d[1]) + "]"
    return repr(d[1]) if len(d) > 1 else k


def loosely_equal(u, v) -> bool:
    """python's `==` on the values the DVals stand for (False == 0, (1,) vs [1])."""
    def val(d):
        from fractions import Fraction
        k = d[0]
        if k == "bool":
            return ("n", Fraction(int(d[1])))
        if k == "num":
            return ("n", Fraction(d[1], d[2]))
        if k == "nums":
            return ("l", [Fraction(n, m) for n, m in d[1]])
        if k == "str":
            return ("s", d[1])
        return (k,)
    return val(u) == val(v)


# ----------------------------------------------------------------------------- transcription basis (AST decision tokens)

# The branch structure of every function OV.Model.C16Bind transcribes, as it was when the model was written: the tests of
# `if`/`while`/conditional expressions, loop headers, filters of comprehensions, raised exception types and returned
# expressions, in `ast.walk` order.  Torch-side functions are environment: drift means the model must be re-transcribed
# (exit 2, with the difference).  /repo-side functions are the code under test: a structural change is not a verdict (the
# per-case streams decide behaviour); it is recorded in the evidence (`transcription_drift_repo`).
TRANSCRIBED_TORCH = {
    "_building._construct_named_inputs_and_attrs": ("bindS / bindStk / effDefaults", [
        "for param in signature.params", "return (named_inputs, named_attrs)", "if isinstance(param, ir.schemas.Parameter)",
        "if reversed_args_stack", "if not isinstance(param, ir.schemas.AttributeParameter)", "if reversed_args_stack",
        "if attribute is None", "if isinstance(attribute, ir.Attr)",
        "if isinstance(attribute, int) and param.type == ir.AttributeType.FLOAT", "if param.variadic", "if param.name in kwargs",
        "raise AssertionError", "if param.name in kwargs", "if param.required", "if param.required",
        "if param.default is not None", "raise ValueError", "raise ValueError"]),
    "_registration._get_overload": ("resolveKey", [
        "if namespace == '_operator'", "if namespace == 'math'", "if namespace == 'torchvision'", "return getattr(operator, op_name)",
        "return getattr(math, op_name)", "if importlib.util.find_spec('torchvision') is None", "if maybe_overload",
        "return getattr(op_packet, overload)", "return None",
        "if 'default' in op_packet._overload_names or '' in op_packet._overload_names", "if qualified_name.endswith('getitem')",
        "return None", "return None", "return None", "return None"]),
    "_dispatching.dispatch": ("dispatch", [
        "if is_complex", "return (decomp_metas[0].onnx_function, 'The first implementation is used')", "if not decomp_metas",
        "if not decomp_metas", "return (None, 'No decompositions registered for the complex-valued input')",
        "return (None, 'No decompositions registered for the real-valued input')", "comp decomp_metas if decomp.is_complex",
        "comp decomp_metas if not decomp.is_complex", "comp node.args if ", "comp node.kwargs.values() if "]),
    "_core._convert_fx_arg_to_onnx_arg": ("attrAccepts (dtype -> int, device/layout/memory_format -> str)", [
        "if arg is None", "if hasattr(arg, 'name')", "if isinstance(arg, (list, tuple))",
        "if isinstance(arg, (torch.device, torch.memory_format, torch.layout))", "if isinstance(arg, torch.dtype)", "return arg",
        "return None", "if isinstance(arg, torch.fx.Node) and arg.target is operator.getitem",
        "if isinstance(arg, torch.fx.Node) and arg.op == 'get_attr'", "return node_name_to_values[arg.name]",
        "return [_convert_fx_arg_to_onnx_arg(elem, node_name_to_values, node_name_to_local_funct", "return str(arg)",
        "return torch_dtype_to_onnx_dtype(arg)", "if isinstance(source_outputs, Sequence)", "if arg.name in node_name_to_values",
        "return node_name_to_local_functions[arg.name]", "return _handle_getitem_node(arg, node_name_to_values)",
        "return node_name_to_values[arg.name]", "comp arg if "]),
}
TRANSCRIBED_REPO = {
    "registration._check_and_normalize_names": ("nameOkCodes", [
        "if isinstance(name, str)", "if not isinstance(names, tuple)", "for name_ in names", "return names", "raise TypeError",
        "if name_.endswith('.default') or not _QUALIFIED_OPERATOR_NAME_REGEX.fullmatch(name_)", "raise ValueError"]),
    "registration.Registry.register": ("register / addTo", [
        "if complex", "if overloaded_function.complex", "if overloaded_function.overloads"]),
    "registration.torch_op": ("torchOp", [
        "if registry is None", "return wrapper", "if trace_only", "for name_ in _check_and_normalize_names(name)",
        "return processed_func", "if private"]),
    "torch_2_5.get_torchlib_ops": ("torchlibOps", [
        "for (qualified_name, aten_overloads_func) in torchlib_registry.items()", "return function_metas",
        "if qualified_name.startswith('internal::')", "for overload_func in aten_overloads_func.overloads",
        "for complex_func in aten_overloads_func.complex"]),
    "_schemas.get_attr_type": ("classify", [
        "return ir.AttributeType.UNDEFINED", "if type_ in _PY_TYPE_TO_ATTR_TYPE", "if origin_type is None",
        "if origin_type in (collections.abc.Sequence, Sequence, typing.List, list, typing.Tuple, tuple)",
        "return _PY_TYPE_TO_ATTR_TYPE[type_]", "return ir.AttributeType.UNDEFINED", "if inner_type in _LIST_TYPE_TO_ATTR_TYPE",
        "return _LIST_TYPE_TO_ATTR_TYPE[inner_type]"]),
}


def decision_tokens(fn) -> list[str]:
    import ast
    import textwrap

    tree = ast.parse(textwrap.dedent(inspect.getsource(fn)))
    out = []
    for node in ast.walk(tree):
        if isinstance(node, (ast.If, ast.While, ast.IfExp)):
            out.append("if " + ast.unparse(node.test))
        elif isinstance(node, ast.For):
            out.append("for " + ast.unparse(node.target) + " in " + ast.unparse(node.iter))
        elif isinstance(node, ast.Raise) and node.exc is not None:
            e = node.exc
            out.append("raise " + ast.unparse(e.func if isinstance(e, ast.Call) else e))
        elif isinstance(node, ast.Return) and node.value is not None:
            out.append("return " + ast.unparse(node.value)[:80])
        elif isinstance(node, ast.comprehension):
            out.append("comp " + ast.unparse(node.iter) + " if " + ";".join(ast.unparse(i) for i in node.ifs))
    return out


def transcription_drift(run) -> None:
    from torch.onnx._internal.exporter import _building, _core, _dispatching, _registration

    from onnxscript._framework_apis import torch_2_5
    from onnxscript.function_libs.torch_lib import registration
    from onnxscript.ir import _schemas

    mods = {"_building": _building, "_core": _core, "_dispatching": _dispatching, "_registration": _registration,
            "torch_2_5": torch_2_5, "registration": registration, "_schemas": _schemas}

    def current(qual):
        obj = mods[qual.split(".")[0]]
        for part in qual.split(".")[1:]:
            obj = getattr(obj, part)
        return decision_tokens(obj)

    def diff(want, got):
        cw, cg = Counter(want), Counter(got)
        return {"added": sorted((cg - cw).elements()), "removed": sorted((cw - cg).elements()),
                "reordered": not (cg - cw) and not (cw - cg) and want != got}

    n = 0
    drift_repo = {}
    for qual, (lean, want) in TRANSCRIBED_REPO.items():
        try:
            got = current(qual)
        except Exception as e:  # the function is gone / not parseable: behaviour is judged by the streams
            drift_repo[qual] = {"error": f"{type(e).__name__}: {e}"[:200], "lean": lean}
            continue
        n += len(got)
        if got != want:
            drift_repo[qual] = dict(diff(want, got), lean=lean)
    run.coverage["transcription_drift_repo"] = drift_repo
    for qual, (lean, want) in TRANSCRIBED_TORCH.items():
        try:
            got = current(qual)
        except Exception as e:
            raise core.Infra(f"cannot read the installed torch's {qual} (transcribed as {lean}): {type(e).__name__}: {e}") from e
        n += len(got)
        if got != want:
            raise core.Infra(f"the installed torch's {qual} no longer has the decision structure transcribed as Lean `{lean}`: "
                             f"{json.dumps(diff(want, got))[:600]} — re-transcribe OV/Model/C16Bind.lean and update TRANSCRIBED_TORCH")
    run.coverage["transcription_decision_tokens"] = n


# ----------------------------------------------------------------------------- the real binders


class Sent:
    """Opaque argument value; remembers which argument of the call it is."""

    def __init__(self, tag: str):
        self.tag = tag

    def __repr__(self):
        return f"<{self.tag}>"


class RealBinder:
    def __init__(self):
        import onnx_ir as ir
        import onnxscript
        from torch.onnx._internal.exporter import _building, _schemas as t_schemas

        self.ir = ir
        self.onnxscript = onnxscript
        self.building = _building
        self.t_schemas = t_schemas
        self._sig: dict[int, object] = {}

    def exporter_signature(self, f):
        """The OpSignature the exporter binds a scripted function with (OnnxDecompMeta.__post_init__)."""
        k = id(f)
        if k not in self._sig:
            self._sig[k] = self.t_schemas.op_signature_from_function(
                f, f.function_ir.domain, f.name, since_version=f.opset.version
            )
        return self._sig[k]

    def bind(self, f, npos: int, kws: list[str]):
        """-> ("ok", [slot per parameter], classification {param: isInput}) | ("err", kind, message)."""
        args = [Sent(f"p{i}") for i in range(npos)]
        kwargs = {n: Sent(f"k:{n}") for n in kws}
        if isinstance(f, self.onnxscript.OnnxFunction):
            sig = self.exporter_signature(f)
            try:
                named_inputs, named_attrs = self.building._construct_named_inputs_and_attrs(sig, args, kwargs)
            except ValueError as e:
                return ("err", "missing", str(e)[:200])
            slots, cls = [], {}
            for p in sig.params:
                is_in = isinstance(p, self.ir.schemas.Parameter)
                v = (named_inputs if is_in else named_attrs).get(p.name)
                slots.append(v.tag if isinstance(v, Sent) else "-")
                cls[p.name] = is_in
            return ("ok", slots, cls)
        pysig = inspect.signature(f.func)
        stub = self._stub(f.func, pysig)
        try:
            bound = stub(*args, **kwargs)  # a real CPython call of a function with the same parameter list
        except TypeError as e:
            res = ("err", "TypeError", str(e).replace("stub()", f.func.__name__ + "()")[:200])
        else:
            res = ("ok", [bound[n].tag if isinstance(bound.get(n), Sent) else "-" for n in pysig.parameters], None)
        # cross-check CPython against inspect.Signature.bind (the emulation PEP 362 specifies)
        try:
            ba = pysig.bind(*args, **kwargs)
            emu = ("ok", [ba.arguments[n].tag if isinstance(ba.arguments.get(n), Sent) else "-" for n in pysig.parameters], None)
        except TypeError:
            emu = ("err",)
        if emu[0] != res[0] or (emu[0] == "ok" and emu[1] != res[1]):
            raise core.Infra(f"CPython call and inspect.Signature.bind disagree for {f.func.__name__}{pysig} on {args} {kwargs}")
        return res

    def fill(self, f, npos: int, kws: list[str]):
        """{parameter name: value the real binder / CPython fills in} for the parameters the call leaves unbound; None when
        the call is rejected."""
        args = [Sent(f"p{i}") for i in range(npos)]
        kwargs = {n: Sent(f"k:{n}") for n in kws}
        if isinstance(f, self.onnxscript.OnnxFunction):
            sig = self.exporter_signature(f)
            try:
                named_inputs, named_attrs = self.building._construct_named_inputs_and_attrs(sig, args, kwargs)
            except ValueError:
                return None
            out = {}
            for p in sig.params:
                is_in = isinstance(p, self.ir.schemas.Parameter)
                v = (named_inputs if is_in else named_attrs).get(p.name)
                if isinstance(v, Sent):
                    continue
                out[p.name] = v.value if isinstance(v, self.ir.Attr) else v
            return out
        pysig = inspect.signature(f.func)
        try:
            ba = pysig.bind(*args, **kwargs)
        except TypeError:
            return None
        supplied = set(ba.arguments)
        ba.apply_defaults()
        return {n: v for n, v in ba.arguments.items() if n not in supplied}

    def _stub(self, func, pysig):
        k = ("stub", id(func))
        if k not in self._sig:
            parts, seen_kwonly = [], False
            for p in pysig.parameters.values():
                d = "" if p.default is p.empty else "=None"
                if p.kind is p.VAR_POSITIONAL:
                    parts.append("*" + p.name)
                    seen_kwonly = True
                elif p.kind is p.VAR_KEYWORD:
                    parts.append("**" + p.name)
                elif p.kind is p.KEYWORD_ONLY:
                    if not seen_kwonly:
                        parts.append("*")
                        seen_kwonly = True
                    parts.append(p.name + d)
                else:
                    parts.append(p.name + d)
            ns: dict = {}
            exec(f"def stub({', '.join(parts)}):\n    return dict(locals())\n", ns)  # noqa: S102 - harness-generated source
            self._sig[k] = ns["stub"]
        return self._sig[k]


def nreq_pos(aten: dict) -> int:
    n = 0
    for i, a in enumerate(aten["positional"]):
        if not a["hasDefault"]:
            n = i + 1
    return n


def conforming_calls(aten: dict, rng, cap: int) -> list[tuple[int, list[str]]]:
    pos, kw = aten["positional"], aten["kwonly"]
    req = [k["name"] for k in kw if not k["hasDefault"]]
    opt = [k["name"] for k in kw if k["hasDefault"]]
    sets = [[], list(opt)] + [[o] for o in opt]
    if len(opt) <= 3:
        sets = [list(c) for n in range(len(opt) + 1) for c in itertools.combinations(opt, n)]
    else:
        for _ in range(4):
            sets.append([o for o in opt if rng.random() < 0.5])
    seen, out = set(), []
    for n in range(nreq_pos(aten), len(pos) + 1):
        for s in sets:
            kws = req + s
            key = (n, tuple(kws))
            if key not in seen:
                seen.add(key)
                out.append((n, kws))
    if len(out) > cap:
        head = [out[0], out[-1]]
        rest = out[1:-1]
        rng.shuffle(rest)
        out = head + rest[: cap - 2]
    return out


def nonconforming_calls(r: dict) -> list[tuple[int, list[str]]]:
    pos = r["aten"]["positional"]
    req = [k["name"] for k in r["aten"]["kwonly"] if not k["hasDefault"]]
    out = [(len(r["sig"]) + 1, req), (len(pos), req + ["zz_unknown_kw"])]
    if r["sig"] and len(pos) >= 1:
        out.append((len(pos), req + [r["sig"][0]["name"]]))
    if nreq_pos(r["aten"]) >= 1:
        out.append((nreq_pos(r["aten"]) - 1, req))
    out.append((0, []))
    return out


def judge_binding(r: dict, f, npos: int, kws: list[str], res) -> list[str]:
    """The property's clauses on what the real binder did with a conforming call."""
    traced = r["traceOnly"]
    if res[0] == "err":
        return [f"conforming call rejected by the binder ({res[1]}: {res[2]})"]
    slots, cls = res[1], res[2]
    params = r["sig"]
    names = [p["name"] for p in params]
    if len(slots) != len(params):
        return [f"binder knows {len(slots)} parameters, op_signature {len(params)}"]
    problems = []
    where = {t: j for j, t in enumerate(slots) if t != "-"}

    def check(arg, tag):
        j = where.get(tag)
        if j is None:
            if arg["name"] not in DROPPABLE:
                problems.append(f"argument '{arg['name']}' ({arg['type']}) is dropped and is not droppable")
            return
        p = dict(params[j])
        if cls is not None:  # classification the exporter really used
            p["isInput"] = cls[p["name"]]
        if arg["base"] == "tensor" and not p["isInput"]:
            problems.append(f"tensor argument '{arg['name']}' lands on attribute parameter '{p['name']}' ({p['attr']})")
        elif not accepts(traced, p, arg):
            problems.append(f"argument '{arg['name']}' ({arg['type']}) lands on parameter '{p['name']}' which does not accept it")
        if arg["name"] in names and names[j] != arg["name"]:
            problems.append(f"argument '{arg['name']}' lands on parameter '{names[j]}' although a parameter '{arg['name']}' exists")

    for i in range(npos):
        check(r["aten"]["positional"][i], f"p{i}")
    for k in r["aten"]["kwonly"]:
        if k["name"] in kws:
            check(k, f"k:{k['name']}")
    for i, x in enumerate(r["aten"]["positional"]):
        if i >= npos and x["name"] in kws:  # positional schema argument passed by keyword (wide call model)
            check(x, f"k:{x['name']}")
    for j, p in enumerate(params):
        if p["required"] and slots[j] == "-":
            problems.append(f"required parameter '{p['name']}' unbound")
    return problems


def by_keyword_calls(r: dict, rng) -> list[tuple[int, list[str]]]:
    """Calls of the wide model: the positional schema arguments from some index on are passed by keyword."""
    pos, kw = r["aten"]["positional"], r["aten"]["kwonly"]
    req_kw = [k["name"] for k in kw if not k["hasDefault"]]
    out = []
    for npos in range(0, len(pos)):
        rest = pos[npos:]
        must = [a["name"] for a in rest if not a["hasDefault"]]
        opt = [a["name"] for a in rest if a["hasDefault"]]
        out.append((npos, must + opt + req_kw))
        if opt and must:
            out.append((npos, must + req_kw))
        if len(opt) > 1:
            out.append((npos, must + [rng.choice(opt)] + req_kw))
    out = [c for c in out if any(k in [a["name"] for a in pos] for k in c[1])]
    rng.shuffle(out)
    return out[:4]


# ----------------------------------------------------------------------------- names / registry generators

ALPH = list("abzAZ09_") + [".", ":", "-", " ", "\n", "é", "/"]


def gen_names(rng, base: list[str], n: int) -> list[str]:
    out = ["aten::add", "aten::add.Tensor", "aten::add.default", "aten::add.Tensor.default", "aten::add.", "aten:add", "::add",
           "aten::", "aten::a.b.c", "aten::a..b", "aten::.x", "a::b::c", "aten::add\n", " aten::add", "aten::add.defaultx",
           "aten::default", "x::y.default_", "aten::add.Tensor_é", "", ".default", "aten::a-b", "aten-x::a", "aten::a.b-c"]
    while len(out) < n:
        s = rng.choice(base)
        k = rng.random()
        if k < 0.25:
            i = rng.randint(0, len(s))
            s = s[:i] + rng.choice(ALPH) + s[i:]
        elif k < 0.45 and s:
            i = rng.randrange(len(s))
            s = s[:i] + s[i + 1 :]
        elif k < 0.6:
            s = s + rng.choice([".default", ".Default", ".default.x", "default", ".", ".x"])
        elif k < 0.75 and s:
            i = rng.randrange(len(s))
            s = s[:i] + rng.choice(ALPH) + s[i + 1 :]
        elif k < 0.9:
            s = "".join(rng.choice(ALPH) for _ in range(rng.randint(1, 5))) + "::" + "".join(rng.choice(ALPH) for _ in range(rng.randint(0, 5)))
        out.append(s)
    return out


class _StubIR:
    domain = "stub"


class _StubFn:
    def __init__(self, i):
        self.i = i
        self.function_ir = _StubIR()
        self.name = f"f{i}"

    def __repr__(self):
        return f"f{self.i}"


def real_registry_run(seq):
    """Drive a real Registry with (func id, name, complex) and run the real get_torchlib_ops over it."""
    from onnxscript._framework_apis import torch_2_5
    from onnxscript.function_libs.torch_lib import registration

    reg = registration.Registry()
    with warnings.catch_warnings():
        warnings.simplefilter("ignore")
        for i, name, cx in seq:
            reg.register(_StubFn(i), name, complex=cx)
    dump = ";".join(
        f"{n}=[{','.join(str(f.i) for f in o.overloads)}]|[{','.join(str(f.i) for f in o.complex)}]" for n, o in reg.items()
    )
    saved = registration.default_registry
    registration.default_registry = reg
    try:
        with warnings.catch_warnings():
            warnings.simplefilter("ignore")
            metas = torch_2_5.get_torchlib_ops()
    finally:
        registration.default_registry = saved
    ops = ";".join(f"{m.qualified_name}/{m.function.i}/{'c' if m.is_complex else 'r'}" for m in metas)
    return dump + " # " + ops


def real_decls_run(decls) -> str:
    """Run the real `torch_op` decorator (trace_only, scratch Registry) over declarations; dump or ValueError."""
    from onnxscript.function_libs.torch_lib import registration

    reg = registration.Registry()
    ids = {}
    try:
        with warnings.catch_warnings():
            warnings.simplefilter("ignore")
            for i, names, private, cx in decls:
                def f(self):  # the decorated python function; never called
                    return self

                f.__name__ = f"f{i}"
                name_arg = names[0] if len(names) == 1 else tuple(names)
                obj = registration.torch_op(name_arg, registry=reg, trace_only=True, private=private, complex=cx)(f)
                ids[id(obj)] = i
    except ValueError:
        return "ValueError"
    return ";".join(
        f"{n}=[{','.join(str(ids[id(g)]) for g in o.overloads)}]|[{','.join(str(ids[id(g)]) for g in o.complex)}]" for n, o in reg.items()
    )


def gen_decls(rng):
    good = ["aten::add", "aten::add.Tensor", "aten::mul", "prims::sum", "internal::h", "aten::_p"]
    bad = ["aten::add.default", "aten:add", "aten::a-b", "::x", "aten::"]
    out = []
    for i in range(rng.randint(1, 8)):
        names = [rng.choice(good) for _ in range(rng.randint(1, 3))]
        if rng.random() < 0.12:
            names[rng.randrange(len(names))] = rng.choice(bad)
        out.append((i, names, rng.random() < 0.25, rng.random() < 0.3))
    return out


def gen_reg_seq(rng):
    names = ["aten::add", "aten::add.Tensor", "aten::mul", "internal::helper", "internal::x.y", "prims::sum", "internalx::z", "aten::internal::"]
    names = names[: rng.randint(2, len(names))]
    return [(i, rng.choice(names), rng.random() < 0.35) for i in range(rng.randint(1, 14))]


# ----------------------------------------------------------------------------- known findings


def load_waivers(run: core.Run) -> tuple[dict[str, list[str]], dict[str, str]]:
    """rows waived by open findings: {qualified: [defects]}, and {qualified: finding id}."""
    waived, owner = {}, {}
    frag = core.VERIF / "known_findings.d" / "C16.json"
    # the fragment is authoritative when present (the assembled known_findings.json may lag behind it)
    src = json.loads(frag.read_text()).get("findings", []) if frag.exists() else run.open_findings()
    for f in src:
        if f.get("status") != "open":
            continue
        for name, defects in (f.get("predicate", {}).get("rows") or {}).items():
            waived[name] = list(defects)
            owner[name] = f["id"]
    return waived, owner


def lean_waivers() -> dict[str, list[str]]:
    src = core.strip_comments((core.LEAN / "OV" / "Props" / "C16.lean").read_text())
    out = {}
    for m in re.finditer(r'\|\s*"([^"]+)"\s*=>\s*\[([^\]]*)\]', src):
        ds = [d.strip().replace(".clause .", "").lstrip(".") for d in m.group(2).split(",") if d.strip()]
        out[m.group(1)] = ds
    return out


E2E = {
    "amax_no_dim": ("FIXED", "torch.amax(x) [aten::amax, dim omitted]"),
    # fixed by 50e6b6d (C16-kw-rejected-like-ops): must export now; reproducing again is a VIOLATION
    "rand_like_memory_format": ("FIXED", "torch.rand_like(x, memory_format=torch.preserve_format) [aten::rand_like]"),
    "mean_dtype": ("C16-mean-dtype-dropped", "x.mean(dtype=torch.float64) [aten::mean, dtype silently dropped]"),
    "quantize_per_tensor_tensor": ("FIXED", "quantized_decomposed.quantize_per_tensor.tensor(x, scale_t, zp_t, -128, 127, int8)"),
}


def run_e2e(which: str) -> tuple[bool, str]:
    """True = the finding reproduces through the real exporter."""
    import torch
    import torch.ao.quantization.fx._decomposed  # noqa: F401  (registers quantized_decomposed::*)

    class M(torch.nn.Module):
        def forward(self, x):
            if which == "quantize_per_tensor_tensor":
                return torch.ops.quantized_decomposed.quantize_per_tensor.tensor(
                    x, torch.tensor(0.1), torch.tensor(0, dtype=torch.int64), -128, 127, torch.int8
                )
            if which == "amax_no_dim":
                return torch.amax(x)
            if which == "rand_like_memory_format":
                return torch.rand_like(x, memory_format=torch.preserve_format)
            return x.mean(dtype=torch.float64)

    x = torch.ones(2, 3)
    try:
        with warnings.catch_warnings():
            warnings.simplefilter("ignore")
            prog = torch.onnx.export(M().eval(), (x,), dynamo=True, verbose=False)
    except Exception as e:  # ConversionError from the binder
        msg = str(e)
        if which != "mean_dtype" and ("Error when calling function" in msg or "GraphConstructionError" in msg):
            return True, f"export raises {type(e).__name__}"
        return False, f"export raised {type(e).__name__} (not the binder)"
    if which == "mean_dtype":
        dt = prog.model.graph.outputs[0].dtype
        return (str(dt) != "DOUBLE"), f"exported output dtype {dt}, eager dtype torch.float64"
    return False, "export succeeded"


def opinfo_calls(run, stats) -> dict:
    """Real call shapes: PyTorch's OpInfo samples are traced with torch.export; every call_function node gives one
    (qualified name, number of positional args, keyword names) as the dispatcher really produces it."""
    import logging

    import torch

    try:
        from torch.testing._internal import common_methods_invocations as cmi
    except Exception as e:  # the sample database is test-only infrastructure of torch
        stats["opinfo_unavailable"] = 1
        return {}
    ops = sorted(cmi.op_db, key=lambda o: (o.name, o.variant_test_name))
    n = run.size(140, len(ops))
    if n < len(ops):
        ops = run.rng.sample(ops, n)
    out: dict = {}
    logging.disable(logging.CRITICAL)
    try:
        for op in ops:
            try:
                samples = list(op.sample_inputs("cpu", torch.float32, requires_grad=False))[:2]
            except Exception:
                continue
            for smp in samples:
                if not isinstance(smp.input, torch.Tensor):
                    continue

                class M(torch.nn.Module):
                    def forward(self, x):
                        return op.op(x, *smp.args, **smp.kwargs)

                try:
                    with warnings.catch_warnings():
                        warnings.simplefilter("ignore")
                        ep = torch.export.export(M().eval(), (smp.input,), strict=False)
                except Exception:
                    stats["opinfo_samples_not_exportable"] += 1
                    continue
                stats["opinfo_samples_traced"] += 1
                for node in ep.graph.nodes:
                    if node.op == "call_function" and isinstance(node.target, torch._ops.OpOverload):
                        q = node.target.name()
                        q = q[: -len(".default")] if q.endswith(".default") else q
                        out.setdefault(q, set()).add((len(node.args), tuple(node.kwargs)))
    finally:
        logging.disable(logging.NOTSET)
    stats["opinfo_ops"] = len(ops)
    stats["opinfo_distinct_calls"] = sum(len(v) for v in out.values())
    return out


def classify_call(r: dict, npos: int, kws: list[str]) -> str:
    """conforming | by_keyword (positional schema arguments passed by keyword) | malformed"""
    pos, kw = r["aten"]["positional"], r["aten"]["kwonly"]
    kwnames = [a["name"] for a in kw]
    by_kw = [k for k in kws if k not in kwnames]
    later = [a["name"] for a in pos[npos:]]
    supplied = set(range(npos)) | {i for i, a in enumerate(pos) if a["name"] in by_kw}
    ok = (npos <= len(pos) and all(k in later for k in by_kw) and len(set(kws)) == len(kws)
          and all(i in supplied for i, a in enumerate(pos) if not a["hasDefault"])
          and all(a["name"] in kws for a in kw if not a["hasDefault"]))
    if not ok:
        return "malformed"
    return "by_keyword" if by_kw else "conforming"


def _fx_ops():
    import torch
    import torch.nn.functional as F

    OPS = {
     "add_alpha": lambda x: torch.add(x, x, alpha=2),
     "sub_alpha": lambda x: torch.sub(x, x, alpha=3),
     "rsub": lambda x: 1 - x,
     "sum_dim": lambda x: x.sum(dim=1),
     "sum_dtype": lambda x: x.sum(dim=1, keepdim=True, dtype=torch.float64),
     "softmax": lambda x: torch.softmax(x, -1),
     "log_softmax_dtype": lambda x: torch.log_softmax(x, 1, dtype=torch.float64),
     "mean_dim": lambda x: x.mean(dim=[0], keepdim=True),
     "transpose": lambda x: x.transpose(0, 1),
     "clamp_min": lambda x: x.clamp(min=0.1),
     "clamp_both": lambda x: x.clamp(0.1, 0.5),
     "zeros_like": lambda x: torch.zeros_like(x),
     "full": lambda x: x + torch.full((2, 3), 1.5),
     "arange": lambda x: x[0] + torch.arange(3),
     "cat": lambda x: torch.cat([x, x], dim=1),
     "argmax": lambda x: x.argmax(dim=1),
     "topk": lambda x: x.topk(2)[0],
     "where": lambda x: torch.where(x > 0.5, x, 0.0),
     "to_dtype": lambda x: x.to(torch.float64),
     "gelu_tanh": lambda x: F.gelu(x, approximate="tanh"),
     "layer_norm": lambda x: F.layer_norm(x, (3,)),
     "cumsum": lambda x: x.cumsum(1),
     "slice": lambda x: x[:, 1:],
     "unsqueeze": lambda x: x.unsqueeze(0),
     "flatten": lambda x: x.flatten(),
     "expand": lambda x: x.unsqueeze(0).expand(2, 2, 3),
     "permute": lambda x: x.permute(1, 0),
     "reshape": lambda x: x.reshape(3, 2),
     "div_floor": lambda x: torch.div(x, 2, rounding_mode="floor"),
     "var_dim": lambda x: x.var(dim=1),
     "amax_dim": lambda x: torch.amax(x, 1),
     "max_dim": lambda x: x.max(dim=1)[0],
     "pad": lambda x: F.pad(x, (1, 1)),
     "matmul": lambda x: x @ x.t(),
     "addmm": lambda x: torch.addmm(x[:, :2], x, x.t()[:, :2], beta=0.5, alpha=2.0),
     "pow": lambda x: x.pow(2),
     "leaky_relu": lambda x: F.leaky_relu(x, 0.2),
     "hardtanh": lambda x: F.hardtanh(x, -0.5, 0.5),
     "squeeze_dim": lambda x: x.unsqueeze(1).squeeze(1),
     "std_corr": lambda x: x.std(dim=1, correction=0),
     "norm": lambda x: torch.linalg.vector_norm(x, ord=2, dim=1),
     "isclose": lambda x: torch.isclose(x, x, rtol=1e-3),
     "tril": lambda x: x.tril(-1),
     "roll": lambda x: x.roll(1, 1),
     "repeat": lambda x: x.repeat(2, 1),
     "narrow": lambda x: x.narrow(1, 0, 2),
     "select": lambda x: x.select(1, 0),
     "index_select": lambda x: x.index_select(1, torch.tensor([0, 2])),
     "gather": lambda x: x.gather(1, torch.zeros(2, 1, dtype=torch.int64)),
     "scatter_add": lambda x: x.scatter_add(1, torch.zeros(2, 1, dtype=torch.int64), x[:, :1]),
     "ones": lambda x: x + torch.ones(2, 3, dtype=torch.float32),
     "new_zeros": lambda x: x.new_zeros((2, 3)),
     "rand_like_mf": lambda x: torch.rand_like(x, memory_format=torch.preserve_format) * 0 + x,
    }
    return OPS


def fx_stream(run, drv, rows, objs, stats, problems, tie_broken, waived, shadowed) -> None:
    """Real FX calls: one module using ~50 operators is exported by the real exporter; every call_function node
    the exporter lowered (`ONNXProgram.exported_program`) is checked against the call model (`Conforms`) and against
    Lean `bind`'s prediction for its row — the export succeeded, so every such call was bound by the real binder."""
    import torch

    ops = _fx_ops()

    def export(fs):
        class M(torch.nn.Module):
            def forward(self, x):
                return tuple(f(x) for f in fs)

        with warnings.catch_warnings():
            warnings.simplefilter("ignore")
            return torch.onnx.export(M().eval(), (torch.rand(2, 3),), dynamo=True, verbose=False)

    stats["fx_ops"] = len(ops)
    progs = []
    try:
        progs.append(export(list(ops.values())))
    except Exception:
        # slow path: find the operators whose lowering fails
        for label, f in ops.items():
            try:
                progs.append(export([f]))
            except Exception as e:
                msg = str(e)
                m = re.search(r"Error when calling function '\w+\(<function (\w+) at", msg)
                fname = m.group(1) if m else None
                hit = [r for r in rows if r["func"] == fname]
                stats["fx_ops_failing"] += 1
                if hit and all(r["qualified"] in waived for r in hit):
                    stats["fx_ops_failing_known"] += 1
                elif fname:
                    problems.append({"kind": "e2e", "qualified": label, "function": fname,
                                     "detail": f"torch.onnx.export of the operator sample '{label}' fails while calling {fname}: {msg[-300:]}"})
                else:
                    stats["fx_ops_failing_elsewhere"] += 1
    index = {(r["qualified"], r["isComplex"]): i for i, r in enumerate(rows)}
    lines, meta = [], []
    for prog in progs:
        for node in prog.exported_program.graph.nodes:
            if node.op != "call_function" or not isinstance(node.target, torch._ops.OpOverload):
                continue
            stats["fx_nodes"] += 1
            q = node.target.name()
            q = q[: -len(".default")] if q.endswith(".default") else q
            i = index.get((q, False))
            if i is None:
                stats["fx_nodes_without_repo_row"] += 1
                continue
            if q in shadowed:
                stats["fx_nodes_shadowed"] += 1
                continue
            r = rows[i]
            npos, kws = len(node.args), list(node.kwargs)
            pos, kw = r["aten"]["positional"], r["aten"]["kwonly"]
            kwnames = [a["name"] for a in kw]
            by_kw = [k for k in kws if k not in kwnames]  # positional schema arguments passed by keyword
            later = [a["name"] for a in pos[npos:]]
            supplied = set(range(npos)) | {pos.index(a) for a in pos if a["name"] in by_kw}
            wellformed = (npos <= len(pos) and all(k in later for k in by_kw)
                          and all(i in supplied for i, a in enumerate(pos) if not a["hasDefault"])
                          and all(a["name"] in kws for a in kw if not a["hasDefault"]))
            if not wellformed:
                raise core.Infra(f"the exporter lowered {q} with {npos} positionals and keywords {kws}: not a call of {r['schemaText']}")
            if by_kw and not r.get("bindsOkK"):
                stats["fx_calls_positional_by_keyword_outside_theorem"] += 1
            if by_kw:
                # python decompositions call operators with keywords for positional schema arguments; the exporter passes
                # them on by name.  Outside the property's call model (`Conforms`), still bound by the same `bind`.
                stats["fx_calls_positional_by_keyword"] += 1
            else:
                stats["fx_calls_conforming"] += 1
            lines.append(bind_line(r, npos, kws))
            meta.append((r, npos, kws))
    seen = set()
    for (r, npos, kws), out in zip(meta, drv.ask(lines)):
        stats["fx_calls_checked"] += 1
        seen.add(r["qualified"])
        if not out.startswith("ok"):
            tie_broken.append({"kind": "fx", "qualified": r["qualified"], "npos": npos, "kws": kws,
                               "detail": f"the real exporter lowered this call, Lean bind predicts {out}"})
    stats["fx_distinct_rows"] = len(seen)


def accept_matrix(run, drv, stats, tie_broken) -> None:
    """`accepts` (attribute parameters) vs the real exporter: whatever the rule accepts must survive the exporter's own
    argument conversion (`_core._convert_fx_arg_to_onnx_arg`), the int→float fix-up of the binder, and ONNX IR
    attribute construction + serialization.  (One direction only: the IR is laxer than the rule, e.g. it truncates a
    float into an INT attribute.)"""
    import onnx_ir as ir
    import torch
    from torch.onnx._internal.exporter import _core

    samples = {
        ("scalar", False): [2.5, 3], ("int", False): [3], ("symint", False): [4], ("float", False): [2.5], ("bool", False): [True],
        ("str", False): ["s"], ("dtype", False): [torch.float32], ("layout", False): [torch.strided],
        ("device", False): [torch.device("cpu")], ("memfmt", False): [torch.contiguous_format],
        ("int", True): [[1, 2]], ("symint", True): [[3, 4]], ("bool", True): [[True, False]], ("float", True): [[1.5]], ("str", True): [["a"]],
    }
    expect_type = {"dtype": int, "layout": str, "device": str, "memfmt": str}
    attrs = {"int": ir.AttributeType.INT, "float": ir.AttributeType.FLOAT, "string": ir.AttributeType.STRING,
             "ints": ir.AttributeType.INTS, "floats": ir.AttributeType.FLOATS, "strings": ir.AttributeType.STRINGS}
    lines, meta = [], []
    for (base, is_list), vals in samples.items():
        for v in vals:
            conv = _core._convert_fx_arg_to_onnx_arg(v, {}, {})
            if base in expect_type and not isinstance(conv, expect_type[base]):
                tie_broken.append({"kind": "convert", "qualified": base, "detail": f"_convert_fx_arg_to_onnx_arg({v!r}) gives {type(conv).__name__}, the rule assumes {expect_type[base].__name__}"})
            for an, at in attrs.items():
                prm = {"name": "p", "isInput": False, "attr": an, "required": True, "variadic": False, "pok": True, "annot": "otherPlain", "pyDefault": False}
                arg = {"name": "x", "base": base, "isList": is_list, "optional": False, "hasDefault": False,
                       "intScalar": base == "scalar" and isinstance(v, int)}
                lines.append(f"accepts scripted {enc_param(prm)} {enc_aarg(arg)}")
                meta.append((an, at, base, is_list, conv))
    for (an, at, base, is_list, conv), out in zip(meta, drv.ask(lines)):
        stats["accept_matrix_cells"] += 1
        if out != "true":
            continue
        stats["accept_matrix_accepted"] += 1
        try:
            v = float(conv) if isinstance(conv, int) and not isinstance(conv, bool) and at == ir.AttributeType.FLOAT else conv
            ir.serde.serialize_attribute(ir.Attr("p", at, v))
        except Exception as e:
            tie_broken.append({"kind": "accepts", "qualified": f"{base}{'[]' if is_list else ''}->{an}",
                               "detail": f"the rule accepts it, the exporter cannot build the attribute: {type(e).__name__}: {str(e)[:150]}"})


def resolve_and_dispatch(run, drv, rows, objs, stats, problems, tie_broken) -> set:
    """Lean `resolveKey` / `dispatch` vs the exporter's `_get_overload`, `ONNXRegistry.from_torchlib()` and
    `_dispatching.dispatch`; every (PyTorch overload, real/complex) must be served by exactly one /repo function."""
    import math
    import operator
    import types

    import torch
    from torch.onnx._internal.exporter import _dispatching, _registration as t_reg

    # --- resolveKey: look the operator up again from Lean's (ns, name, overload) and compare identities
    outs = drv.ask(["resolve " + enc_codes(r["qualified"]) for r in rows])
    targets = []
    for r, o in zip(rows, outs):
        ns, name, ovl = (o.split("|") + ["", "", ""])[:3]
        try:
            real = t_reg._get_overload(r["qualified"])
        except Exception:
            real = None
        targets.append(real)
        try:
            if ns == "_operator":
                mine = getattr(operator, name, None)
            elif ns == "math":
                mine = getattr(math, name, None)
            else:
                packet = getattr(getattr(torch.ops, ns), name)
                mine = getattr(packet, ovl, None)
        except Exception:
            mine = None
        stats["resolve_rows"] += 1
        same = (mine is real) or (mine is not None and real is not None and mine == real)
        if not same:
            tie_broken.append({"kind": "resolve", "qualified": r["qualified"],
                               "detail": f"_get_overload gives {real!r}; Lean resolveKey {o} looks up {mine!r}"})
        if "." not in r["qualified"].split("::", 1)[-1] and real is not None and ns not in ("_operator", "math"):
            stats["resolve_default_filled"] += 1

    # --- the exporter's registry built from /repo's torch_lib
    try:
        import warnings as _w

        with _w.catch_warnings():
            _w.simplefilter("ignore")
            reg = t_reg.ONNXRegistry.from_torchlib()
    except Exception as e:
        tie_broken.append({"kind": "registry", "qualified": "ONNXRegistry.from_torchlib", "detail": f"raised {type(e).__name__}: {str(e)[:200]}"})
        return set()
    shadowed: set = set()
    mine_ids = {id(f): i for i, f in enumerate(objs)}
    by_target: dict = {}
    for idx, (r, f, t) in enumerate(zip(rows, objs, targets)):
        if t is None:
            continue
        key = t.name() if isinstance(t, torch._ops.OpOverload) else t
        by_target.setdefault((key, r["isComplex"]), []).append(idx)
    g = torch.fx.Graph()
    cnode = g.placeholder("x")
    cnode.meta["val"] = torch.zeros(1, dtype=torch.complex64)
    lines, expect = [], []
    for (key, cx), idxs in by_target.items():
        stats["dispatch_targets"] += 1
        if len(idxs) > 1:
            names = sorted(rows[i]["qualified"] for i in idxs)
            problems.append({"kind": "duplicate", "qualified": names[0], "isComplex": cx, "names": names,
                             "detail": f"registered names {names} all resolve to the PyTorch operator {key!r} ({'complex' if cx else 'real'}): "
                             "that overload is served by more than one function"})
            continue
        t = targets[idxs[0]]
        decomps = reg.get_decomps(t)
        own = [d for d in decomps if id(d.onnx_function) in mine_ids and d.is_complex == cx]
        if len(own) != 1 or own[0].onnx_function is not objs[idxs[0]]:
            tie_broken.append({"kind": "registry", "qualified": rows[idxs[0]]["qualified"],
                               "detail": f"the exporter's registry holds {len(own)} /repo decompositions of kind {'complex' if cx else 'real'} for {key!r}"})
            continue
        node = types.SimpleNamespace(target=t, args=(cnode,) if cx else (), kwargs={})
        try:
            chosen, _ = _dispatching.dispatch(node, reg)
        except Exception as e:
            tie_broken.append({"kind": "dispatch", "qualified": rows[idxs[0]]["qualified"], "detail": f"dispatch raised {type(e).__name__}: {e}"})
            continue
        ids = {id(d.onnx_function): k for k, d in enumerate(decomps)}
        lines.append("dispatch " + ("c" if cx else "r") + " " + " ".join(f"{k}/{'c' if d.is_complex else 'r'}" for k, d in enumerate(decomps)))
        expect.append((rows[idxs[0]]["qualified"], str(ids.get(id(chosen), "none")) if chosen is not None else "none"))
        if chosen is objs[idxs[0]]:
            stats["dispatch_reaches_repo_function"] += 1
        else:
            stats["dispatch_shadowed_by_torch_builtin"] += 1
            shadowed.add(rows[idxs[0]]["qualified"])
    for (q, want), got in zip(expect, drv.ask(lines)):
        stats["dispatch_calls"] += 1
        if want != got:
            tie_broken.append({"kind": "dispatch", "qualified": q, "detail": f"real dispatch picks decomposition {want}, Lean dispatch {got}"})
    return shadowed


def tree_fingerprint() -> str:
    """Hash of the anchored sources: a tree edited while the check runs gives meaningless mixtures."""
    import hashlib

    h = hashlib.sha1()
    base = core.REPO / "onnxscript"
    files = sorted((base / "function_libs" / "torch_lib").rglob("*.py")) + [base / "ir" / "_schemas.py", base / "_internal" / "values.py"] + sorted(
        (base / "_framework_apis").glob("*.py"))
    for f in files:
        try:
            h.update(f.read_bytes())
        except OSError:
            h.update(b"?")
    return h.hexdigest()


# ----------------------------------------------------------------------------- main


def main(run: core.Run) -> None:
    run.assumptions += [
        "schemas are those of the installed PyTorch (torch.__version__ in the evidence); names are resolved with the "
        "exporter's own _get_overload after importing torch.ao.quantization.fx._decomposed and torchvision",
        "A-py: CPython's binding of func(*args, **kwargs) = inspect.Signature.bind (used for trace-only functions, "
        "whose bodies are not executed here)",
        "'cannot affect the result' is the property's fixed list of droppable names, not a semantic proof",
        "FX calls are modelled as: a prefix of the positional schema arguments covering every one without default, "
        "plus any subset of keyword-only arguments containing those without default",
    ]
    fp0 = tree_fingerprint()
    try:
        data = ex.load()
    except core.Infra:
        raise
    except Exception as e:
        import traceback

        tb = traceback.format_exc()
        if tree_fingerprint() != fp0:
            raise core.Infra("the anchored sources under VERIF_REPO changed while the registry was being imported; rerun") from e
        if str(core.REPO) in tb:
            # the tree itself cannot build its registry (a registered function does not compile, a name is refused at
            # import, …): a behavioural difference of the code under test, not an infrastructure failure
            frames = [l.strip() for l in tb.splitlines() if str(core.REPO) in l]
            run.violation({"kind": "import", "error": f"{type(e).__name__}: {str(e)[:400]}", "where": frames[-3:]},
                          f"the torch_lib registry cannot be built from the tree: {type(e).__name__}: {str(e)[:300]}", no_input=True)
            run.coverage.update(evaluations=0, distinct_nontrivial=0)
            return
        raise
    rows = data["rows"]
    objs = data["objs"]
    stats: Counter = Counter()
    phases: dict = {"load": round(run.elapsed(), 1)}
    run.coverage["phase_s"] = phases

    def mark(name: str) -> None:
        phases[name] = round(run.elapsed() - sum(phases.values()), 1)

    stats["rows"] = len(rows)
    for r in rows:
        stats["res_" + r["res"]] += 1
        stats["traced" if r["traceOnly"] else "scripted"] += 1
    if len(rows) < 100:
        raise core.Infra(f"registry degenerated: only {len(rows)} entries")

    # ---- replay of a recorded case
    if run.replay_path:
        replay(run, rows, objs, data)
        return

    # ---- translator + proof obligations
    gen = ex.emit(rows, core.LEAN / "OV" / "Gen")
    run.coverage["translator"] = gen
    audit = run.prove(PROP_MODULES)
    drv = core.Driver("C16")
    mark('prove_and_build')

    waived, owner = load_waivers(run)
    lw = lean_waivers()
    if {k: sorted(v) for k, v in lw.items()} != {k: sorted(v) for k, v in waived.items()}:
        raise core.Infra(
            "known_findings.d/C16.json and `waived` in OV/Props/C16.lean differ on rows: "
            + str(sorted(k for k in set(lw) | set(waived) if sorted(lw.get(k, [])) != sorted(waived.get(k, []))))
        )

    # ---- (d) twin vs Lean on every row
    lean_def = drv.ask([row_line(r) for r in rows])
    twin_def = [twin_defects(r) for r in rows]
    for r, l, t in zip(rows, lean_def, twin_def):
        if (",".join(t) or "ok") != l:
            raise core.Infra(f"python twin and Lean model disagree on row {r['qualified']}: twin={t} lean={l}")
    stats["rows_with_defects"] = sum(1 for t in twin_def if t)
    lean_k = drv.ask(["rowk" + row_line(r)[3:] for r in rows])
    listed_k = lean_outside_k()
    k_unlisted = []
    for idx, (r, l) in enumerate(zip(rows, lean_k)):
        kr = k_reasons(r)
        r["bindsOkK"] = (not kr) and r["res"] in ("resolved", "builtin")
        if (",".join(kr) or "ok") != l:
            raise core.Infra(f"python twin and Lean model disagree on kReasons for {r['qualified']}: twin={kr} lean={l}")
        want = listed_k.get((r["qualified"], r["isComplex"]), listed_k.get((r["qualified"], None), []))
        if kr != want:
            k_unlisted.append((idx, kr, want))
    stats["rows_right_for_positional_by_keyword"] = sum(1 for r in rows if r["bindsOkK"])

    problems: list[dict] = []  # property failures with a concrete input on the real code
    tie_broken: list[dict] = []

    # ---- the /repo signature the rows carry vs the one the exporter binds with
    rb = RealBinder()
    for r, f in zip(rows, objs):
        if not r["carriedSigSame"]:
            tie_broken.append({"kind": "sig", "qualified": r["qualified"], "detail": "function object's op_signature differs from op_signature_from_function(func)"})
        if not r["traceOnly"]:
            tsig = ex.sig_rows(rb.exporter_signature(f), f.function)
            strip = lambda ps: [(p["name"], p["isInput"], p["attr"], p["required"]) for p in ps]
            if strip(tsig) != strip(r["sig"]):
                tie_broken.append({"kind": "sig", "qualified": r["qualified"], "detail": f"/repo classifies {strip(r['sig'])}, the exporter {strip(tsig)}"})

    transcription_drift(run)
    mark('rows_twin')
    # ---- (a) bind correspondence + oracle on the real binder
    real_calls = opinfo_calls(run, stats)
    cap = run.size(40, 400)
    lines, meta = [], []
    corpus = [json.loads(l) for l in (core.VERIF / "harness" / "corpus_c16.jsonl").read_text().splitlines() if l.strip()]
    stats["corpus_calls"] = len(corpus)
    for idx, (r, f) in enumerate(zip(rows, objs)):
        if r["res"] in ("undefined", "lib_absent"):
            continue
        calls = conforming_calls(r["aten"], run.rng, cap)
        for c in corpus:  # witnesses of known findings + minimised past disagreements, always run
            if c["qualified"] == r["qualified"] and c.get("isComplex", False) == r["isComplex"] and (c["npos"], c["kws"]) not in calls:
                if nreq_pos(r["aten"]) <= c["npos"] <= len(r["aten"]["positional"]):
                    calls.append((c["npos"], c["kws"]))
        extra_tie_only = []
        if not r["isComplex"]:
            for npos, kws in sorted(real_calls.get(r["qualified"], ())):
                kind = classify_call(r, npos, list(kws))
                stats["opinfo_calls_" + kind] += 1
                if kind == "malformed":
                    raise core.Infra(f"torch traced {r['qualified']} with {npos} positionals and keywords {list(kws)}: not a call of {r['schemaText']}")
                if kind == "conforming":
                    if (npos, list(kws)) not in calls:
                        calls.append((npos, list(kws)))
                        stats["opinfo_calls_beyond_enumeration"] += 1
                else:
                    extra_tie_only.append((npos, list(kws)))
                    if not r.get("bindsOkK"):
                        stats["opinfo_by_keyword_calls_outside_theorem"] += 1
        for npos, kws in calls:
            lines.append(bind_line(r, npos, kws))
            meta.append((idx, npos, kws, True))
        if r["res"] == "resolved":
            for npos, kws in by_keyword_calls(r, run.rng):
                lines.append(bind_line(r, npos, kws))
                meta.append((idx, npos, kws, "K"))
        for npos, kws in extra_tie_only + nonconforming_calls(r):
            lines.append(bind_line(r, npos, kws))
            meta.append((idx, npos, kws, False))
    outs = drv.ask(lines)
    row_call_fail: dict[int, list] = {}
    k_call_fail: dict[int, list] = {}
    for (idx, npos, kws, conf), mout in zip(meta, outs):
        r, f = rows[idx], objs[idx]
        res = rb.bind(f, npos, kws)
        stats["bind_calls"] += 1
        stats["bind_conforming" if conf is True else "bind_by_keyword" if conf == "K" else "bind_nonconforming"] += 1
        if res[0] == "ok":
            real = "ok " + ",".join(t if t == "-" else (t if t.startswith("p") else t) for t in res[1])
            stats["bind_ok"] += 1
        else:
            real = "err"
            stats["bind_err_" + res[1]] += 1
        model = mout if mout.startswith("ok") else "err"
        if mout.startswith("err:"):
            stats["model_" + mout] += 1
        if model != real:
            tie_broken.append({"kind": "bind", "qualified": r["qualified"], "isComplex": r["isComplex"], "npos": npos, "kws": kws,
                               "detail": f"real binder: {real} ; Lean bind: {mout}"})
        if conf == "K":
            # wide call model: `bind_ok_sound_by_keyword` promises a right binding exactly for the bindsOkK rows
            stats["by_keyword_calls"] += 1
            bad = judge_binding(r, f, npos, kws, res)
            if r.get("bindsOkK"):
                stats["by_keyword_calls_on_bindsOkK_rows"] += 1
                if bad:
                    tie_broken.append({"kind": "bind-by-keyword", "qualified": r["qualified"], "npos": npos, "kws": kws,
                                       "detail": "bindsOkK holds but the real binder does not bind this call right: " + "; ".join(bad)})
            elif bad:
                stats["by_keyword_calls_failing_outside_theorem"] += 1
                k_call_fail.setdefault(idx, []).append((npos, kws, bad))
        elif conf:
            bad = judge_binding(r, f, npos, kws, res)
            if bad:
                row_call_fail.setdefault(idx, []).append((npos, kws, bad))
                stats["conforming_calls_failing_oracle"] += 1

    mark('opinfo_and_bind')
    defaults_stream(run, drv, rows, objs, rb, stats, problems, tie_broken)
    mark('defaults')
    # ---- rows whose standing w.r.t. the wide call model differs from the kernel-checked list `outsideK`
    for idx, kr, want in k_unlisted:
        r = rows[idx]
        new_reasons = [x for x in kr if x not in want]
        fails = k_call_fail.get(idx, [])
        if new_reasons and fails and "ruleFails" not in new_reasons:
            npos, kws, bad = fails[0]
            problems.append({"kind": "call", "qualified": r["qualified"], "isComplex": r["isComplex"], "npos": npos, "kws": kws,
                             "defects": kr, "schema": r["schemaText"], "function": r["func"], "wide_call_model": True,
                             "detail": "a call passing positional schema arguments by keyword (as python decompositions do) is "
                             "no longer bound right: " + "; ".join(bad)})
        elif "ruleFails" not in new_reasons:
            tie_broken.append({"kind": "outsideK", "qualified": r["qualified"],
                               "detail": f"registry_outsideK_exact lists {want} for this row, the tree gives {kr}"})
    # ---- verdict per row
    known_rows: dict[str, list[str]] = {}
    for idx, (r, t) in enumerate(zip(rows, twin_def)):
        allowed = waived.get(r["qualified"], [])
        extra = [d for d in t if d not in allowed]
        calls = row_call_fail.get(idx, [])
        if t and not extra:
            # inside an open finding: confirm it on the real code
            if "undefinedOp" in t or calls:
                known_rows.setdefault(owner[r["qualified"]], []).append(r["qualified"])
            continue
        if "complexName" in extra:
            # a function written for complex inputs owns a (name, real) pair: its real twin was discarded / never registered
            problems.append({"kind": "kind", "qualified": r["qualified"], "isComplex": r["isComplex"], "function": r["func"],
                             "detail": f"({r['qualified']}, real) resolves to {r['func']}, a function written for complex inputs "
                             f"(complex=True missing on its @torch_op?); duplicate-registration warnings at import: {data['dup_warnings'][:2]}"})
        elif "badName" in extra:
            # the registry holds it, so the real _check_and_normalize_names accepted it: the name is the failing input
            problems.append({"kind": "name", "name": r["qualified"], "registered": True,
                             "detail": f"registered name {r['qualified']!r} (function {r['func']}) is not '<ns>::<name>[.<overload>]' "
                             f"without '.default'; _check_and_normalize_names accepts it: {real_name_ok(r['qualified'])}"})
        elif "undefinedOp" in extra:
            problems.append({"kind": "undefined", "qualified": r["qualified"], "isComplex": r["isComplex"],
                             "detail": f"the exporter's resolver finds no operator '{r['qualified']}' in torch {data['torch_version']}"})
        elif extra or calls:
            if calls:
                npos, kws, bad = min(calls, key=lambda c: (c[0] + len(c[1]), len(c[2])))
                problems.append({"kind": "call", "qualified": r["qualified"], "isComplex": r["isComplex"], "npos": npos, "kws": kws,
                                 "defects": t, "schema": r["schemaText"], "function": r["func"], "detail": "; ".join(bad)})
            else:
                tie_broken.append({"kind": "row", "qualified": r["qualified"], "defects": t, "schema": r["schemaText"],
                                   "detail": f"bindsOk fails ({extra}) but no generated conforming call mis-binds"})
    stats["rows_in_known_findings"] = sum(len(v) for v in known_rows.values())

    mark('verdict_rows')
    # ---- (e) resolution + dispatch through the exporter's own registry
    shadowed = resolve_and_dispatch(run, drv, rows, objs, stats, problems, tie_broken)

    accept_matrix(run, drv, stats, tie_broken)

    # ---- (f) real FX calls lowered by the real exporter
    fx_stream(run, drv, rows, objs, stats, problems, tie_broken, waived, shadowed)

    mark('resolve_dispatch_fx')
    # ---- uniqueness (table theorem registry_unique + real data)
    keys = Counter((r["qualified"], r["isComplex"]) for r in rows)
    for k, n in keys.items():
        if n > 1:
            problems.append({"kind": "duplicate", "qualified": k[0], "isComplex": k[1], "detail": f"get_torchlib_ops() returns {n} functions for {k}"})
    for o in data["registry"].values():
        if len(o.overloads) > 1 or len(o.complex) > 1:
            problems.append({"kind": "duplicate", "qualified": o.name, "detail": f"registry record holds {len(o.overloads)} real / {len(o.complex)} complex functions"})
    stats["duplicate_registration_warnings"] = len(data["dup_warnings"])
    for w in data["dup_warnings"][:3]:
        # "…overload for '<name>' already registered: [<first function>]": a decorated function was silently discarded
        m = re.search(r"(Real|Complex) overload for '([^']+)' already registered", w)
        problems.append({"kind": "duplicate", "qualified": m.group(2) if m else "?", "isComplex": bool(m and m.group(1) == "Complex"),
                         "detail": "a second function is registered for the same (name, kind) pair and silently discarded at import: " + w[:300]})
    # the real registry's contents replayed through Lean register/torchlibOps must give get_torchlib_ops()'s list, in order
    seq, fid = [], {}
    for name, o in data["registry"].items():
        for g, cx in [(g, False) for g in o.overloads] + [(g, True) for g in o.complex]:
            fid.setdefault(id(g), len(fid))
            seq.append((fid[id(g)], name, cx))
    if all(" " not in n and "/" not in n for _, n, _ in seq):
        out = drv.ask(["reg " + " ".join(f"{i}/{n}/{'c' if c else 'r'}" for i, n, c in seq)])[0]
        model_ops = [tuple(x.rsplit("/", 2)) for x in out.split(" # ")[1].split(";") if x] if " # " in out else []
        real_ops = [(r["qualified"], str(fid.get(id(f), -1)), "c" if r["isComplex"] else "r") for r, f in zip(rows, objs)]
        stats["real_registry_replayed_entries"] = len(seq)
        if model_ops != real_ops:
            k = next((i for i, (a, b) in enumerate(zip(model_ops, real_ops)) if a != b), min(len(model_ops), len(real_ops)))
            tie_broken.append({"kind": "ops", "qualified": "get_torchlib_ops", "detail": f"get_torchlib_ops() returns {len(real_ops)} entries, Lean torchlibOps of the "
                               f"same registry {len(model_ops)}; first difference at {k}: real {real_ops[k:k+1]} model {model_ops[k:k+1]}"})

    # ---- (b) names
    base = sorted({r["qualified"] for r in rows})
    # every registered default-overload name re-spelled with '.default', and '.default' behind every overload
    dflt = [b + ".default" for b in base if not b.endswith(".default")]
    names = base + dflt + gen_names(run.rng, base, run.size(1500, 20000))
    names = [n for n in dict.fromkeys(names)]
    nouts = drv.ask(["name " + enc_codes(n) for n in names])
    for n, mo in zip(names, nouts):
        real = real_name_ok(n)
        stats["names"] += 1
        stats["names_accepted" if real else "names_refused"] += 1
        if n.endswith(".default"):
            stats["names_dot_default"] += 1
        if spec_name_ok(n) != (mo == "true"):
            raise core.Infra(f"python restatement of the name rule and Lean nameOk disagree on {n!r}")
        if (mo == "true") != real:
            if real:  # the real check admits a name the property calls malformed
                problems.append({"kind": "name", "name": n, "detail": f"_check_and_normalize_names accepts {n!r}, which is not "
                                 "'<ns>::<name>[.<overload>]' without '.default'"})
            else:
                tie_broken.append({"kind": "name", "name": n, "detail": f"real check refuses {n!r}, Lean nameOk accepts it"})
    for r in rows:
        if not real_name_ok(r["qualified"]):
            problems.append({"kind": "name", "name": r["qualified"], "detail": "registered name is refused by _check_and_normalize_names"})

    mark('names')
    # ---- (c) registry state machine
    seqs = [gen_reg_seq(run.rng) for _ in range(run.size(300, 5000))]
    seqs.insert(0, [(1, "aten::add", False), (2, "aten::add", False), (3, "aten::add", True), (4, "aten::add", True), (5, "internal::x", False)])
    routs = drv.ask(["reg " + " ".join(f"{i}/{n}/{'c' if c else 'r'}" for i, n, c in s) for s in seqs])
    for s, mo in zip(seqs, routs):
        real = real_registry_run(s)
        stats["reg_sequences"] += 1
        stats["reg_registrations"] += len(s)
        if any(s[i][1:] == s[j][1:] for i in range(len(s)) for j in range(i)):
            stats["reg_sequences_with_duplicate"] += 1
        if real != mo:
            ops = real.split(" # ")[1].split(";") if " # " in real else []
            ks = Counter(tuple(o.rsplit("/", 2)[::2]) for o in ops if o)
            if any(v > 1 for v in ks.values()):
                problems.append({"kind": "reg", "seq": s, "detail": f"a (name, kind) pair resolves to more than one function: {real}"})
            else:
                tie_broken.append({"kind": "reg", "seq": s, "detail": f"real: {real} ; Lean: {mo}"})

    # ---- (c') the decorator itself: real torch_op on a scratch Registry vs Lean runDecls
    dseqs = [gen_decls(run.rng) for _ in range(run.size(200, 3000))]
    dseqs.insert(0, [(0, ["aten::a", "aten::b"], False, False), (1, ["aten::c"], True, False), (2, ["aten::a"], False, True)])
    dseqs.insert(1, [(0, ["aten::a", "aten::b.default"], False, False)])
    douts = drv.ask(["decls " + " ".join(f"{i}/{'p' if pv else '-'}{'c' if cx else 'r'}/" + ";".join(enc_codes(n) for n in names)
                                          for i, names, pv, cx in d) for d in dseqs])
    for d, mo in zip(dseqs, douts):
        real = real_decls_run(d)
        stats["decl_sequences"] += 1
        stats["decl_valueerror" if real == "ValueError" else "decl_ok"] += 1
        if any(pv for _, _, pv, _ in d):
            stats["decl_sequences_with_private"] += 1
        if real != mo:
            if real != "ValueError" and mo == "ValueError":
                bad_names = [n for _, names, _, _ in d for n in names if not spec_name_ok(n)]
                problems.append({"kind": "name", "name": bad_names[0] if bad_names else str(d), "decls": d,
                                 "detail": f"@torch_op accepts the malformed name(s) {bad_names}: registry {real}"})
            else:
                tie_broken.append({"kind": "decls", "seq": d, "detail": f"real torch_op: {real} ; Lean runDecls: {mo}"})

    mark('registry_decorator')
    # ---- oracle extras: FunctionProtos of scripted functions
    import onnx

    for r, f in zip(rows, objs):
        if r["traceOnly"]:
            continue
        stats["function_protos_checked"] += 1
        try:
            fp = f.to_function_proto()
            onnx.checker.check_function(fp)
        except Exception as e:
            problems.append({"kind": "proto", "qualified": r["qualified"], "detail": f"FunctionProto rejected by onnx.checker: {type(e).__name__}: {str(e)[:300]}"})
            continue
        ins = [p["name"] for p in r["sig"] if p["isInput"]]
        ats = sorted(p["name"] for p in r["sig"] if not p["isInput"])
        pats = sorted(list(fp.attribute) + [a.name for a in fp.attribute_proto])
        ptypes = {a.name: onnx.AttributeProto.AttributeType.Name(a.type) for a in fp.attribute_proto}
        want = {"int": "INT", "float": "FLOAT", "string": "STRING", "ints": "INTS", "floats": "FLOATS", "strings": "STRINGS"}
        wrong = [(p["name"], p["attr"], ptypes[p["name"]]) for p in r["sig"]
                 if not p["isInput"] and p["name"] in ptypes and p["attr"] in want and want[p["attr"]] != ptypes[p["name"]]]
        if wrong:
            problems.append({"kind": "proto", "qualified": r["qualified"],
                             "detail": f"attribute types differ between op_signature and the FunctionProto: {wrong}"})
        stats["function_proto_attrs_typed"] += len(ptypes)
        if ins != list(fp.input) or ats != pats:
            problems.append({"kind": "proto", "qualified": r["qualified"],
                             "detail": f"op_signature says inputs {ins} attributes {ats}; the FunctionProto has inputs {list(fp.input)} attributes {pats}"})

    mark('protos')
    # ---- known findings: print what reproduces (binding level), plus end-to-end witnesses
    e2e = {}
    for which, (fid, what) in E2E.items():
        try:
            ok, detail = run_e2e(which)
        except Exception as e:
            ok, detail = False, f"witness could not run: {type(e).__name__}"
        e2e[which] = {"reproduces": ok, "detail": detail}
        if ok and fid == "FIXED":
            problems.append({"kind": "e2e", "qualified": which, "detail": f"{what}: {detail} (was fixed; the failure is back)"})
        elif ok:
            known_rows.setdefault(fid, [])
    run.coverage["e2e_exporter_witnesses"] = e2e
    findings = {f["id"]: f for f in run.open_findings()}
    for fid, names_ in sorted(known_rows.items()):
        if fid in findings:
            ev = [f"{w}: {e2e[w]['detail']}" for w, (i, _) in E2E.items() if i == fid and e2e[w]["reproduces"]]
            run.known(fid, f"{findings[fid]['what']} — rows: {', '.join(sorted(set(names_))) or '-'}" + (f" — exporter: {'; '.join(ev)}" if ev else ""))

    mark('e2e_witnesses')
    if tree_fingerprint() != fp0:
        raise core.Infra("the anchored sources under VERIF_REPO changed while the check was running; rerun")
    # ---- verdict
    order = {"call": 0, "kind": 0, "undefined": 1, "duplicate": 2, "name": 3, "reg": 4, "proto": 5, "e2e": 6}
    problems.sort(key=lambda p: (order.get(p["kind"], 9), not p.get("registered", False), len(json.dumps(p, default=str))))
    reported = set()
    for p in problems:
        key = p["kind"] if p["kind"] in ("name", "reg") else (p["kind"], p.get("qualified"))
        if key in reported or len(reported) >= 4:
            continue
        reported.add(key)
        run.violation(p, f"{p['kind']}: {p.get('qualified') or p.get('name') or p.get('seq')}: {p['detail']}")
    if not problems and tie_broken:
        t = tie_broken[0]
        run.violation({"broken": "correspondence OV.Model.C16Bind vs implementation", "first": t, "count": len(tie_broken)},
                      f"correspondence broken ({t['kind']}): {t.get('qualified') or t.get('name') or t.get('seq')}: {t['detail']}; "
                      "no conforming call found that mis-binds on the real code", no_input=True)
    if not audit["ok"] and not problems:
        run.violation({"broken": "proof obligations of OV.Props.C16", "problems": audit["problems"], "log": audit["build_log"][-1500:]},
                      "Lean proof obligations for C16 do not check and no failing row was located: " + "; ".join(audit["problems"][:3]),
                      no_input=True)
    elif not audit["ok"]:
        run.coverage["proof_broken_by"] = [p.get("qualified") or p.get("name") for p in problems[:10]]

    for r in rows[:3]:
        run.sample(row_line(r))
    for ln in lines[:3]:
        run.sample(ln)
    run.coverage.update(
        evaluations=len(rows) + stats["bind_calls"] + stats["names"] + stats["reg_sequences"],
        distinct_nontrivial=stats["bind_conforming"],
        rule="distinct (registry row, positional count, keyword set) conforming calls bound by the real exporter binder and by "
        "Lean `bind` and judged against the property's clauses; rows, names and registration sequences counted in `distribution`",
        traces_validated_against_impl=stats["bind_calls"] + stats["names"] + stats["reg_sequences"] + len(rows),
        distribution=dict(stats),
        exhaustive=True,
        explanation="every (qualified name, function) pair of get_torchlib_ops() is a row of the Lean table; conforming calls per row are "
        f"enumerated completely up to {cap} per row (all positional counts × keyword subsets; sampled above the cap)",
        torch_version=data["torch_version"],
        tie_broken=len(tie_broken),
    )
    if stats["bind_conforming"] < 1000:
        raise core.Infra("generator degenerated: fewer than 1000 conforming calls")
    if not run.violations:
        required = ["model_err:tooMany", "model_err:unexpectedKw", "model_err:multipleValues", "model_err:missing", "bind_err_missing",
                    "bind_err_TypeError", "bind_ok", "names_dot_default", "names_refused", "names_accepted", "reg_sequences_with_duplicate",
                    "dispatch_calls", "resolve_default_filled", "fx_calls_checked", "decl_valueerror", "decl_ok", "decl_sequences_with_private", "accept_matrix_accepted", "function_protos_checked", "scripted", "traced",
                    "default_pairs_judged", "default_pairs_judged_num", "default_pairs_judged_bool", "default_pairs_judged_nums",
                    "default_perturbed_differs", "default_perturbed_ok", "default_fills_checked"]
        zero = [k for k in required if not stats.get(k)]
        if zero:
            raise core.Infra(f"required coverage counters are zero: {zero}")


def replay(run: core.Run, rows, objs, data) -> None:
    body = json.loads(open(run.replay_path).read())
    case = body.get("case", {})
    kind = case.get("kind")
    rb = RealBinder()
    n = 0
    waived, owner = load_waivers(run)

    def report(what: str) -> None:
        q = case.get("qualified")
        if q in waived:
            run.known(owner[q], what)
        else:
            run.violation(case, what)

    if kind == "call":
        for r, f in zip(rows, objs):
            if r["qualified"] == case["qualified"] and r["isComplex"] == case.get("isComplex", False):
                n += 1
                res = rb.bind(f, case["npos"], case["kws"])
                bad = judge_binding(r, f, case["npos"], case["kws"], res)
                if r["res"] == "resolved" and r["adef"]:
                    dres = judge_defaults(r, f, rb, case["npos"], case["kws"])
                    bad = bad + [d for _, d in (dres[0] if dres else [])]
                print(f"REPLAY call {r['qualified']} npos={case['npos']} kws={case['kws']} schema={r['schemaText']} -> {res[:2]} :: {bad}")
                if bad:
                    report(f"replayed call {r['qualified']} npos={case['npos']} kws={case['kws']} still mis-binds: " + "; ".join(bad))
    elif kind == "undefined":
        for r in rows:
            if r["qualified"] == case["qualified"]:
                n += 1
                print(f"REPLAY undefined {r['qualified']} -> {r['res']}")
                if r["res"] == "undefined":
                    report(f"'{r['qualified']}' still resolves to no PyTorch operator")
    elif kind == "name":
        n = 1
        ok = real_name_ok(case["name"])
        print(f"REPLAY name {case['name']!r} accepted={ok}")
        if ok:
            run.violation(case, f"_check_and_normalize_names still accepts {case['name']!r}")
    elif kind == "reg":
        n = 1
        real = real_registry_run([tuple(x) for x in case["seq"]])
        print(f"REPLAY reg {case['seq']} -> {real}")
        ops = real.split(" # ")[1].split(";")
        ks = Counter(tuple(o.rsplit("/", 2)[::2]) for o in ops if o)
        if any(v > 1 for v in ks.values()):
            run.violation(case, "a (name, kind) pair still resolves to more than one function")
    elif kind == "duplicate":
        n = 1
        c = sum(1 for r in rows if r["qualified"] == case["qualified"] and r["isComplex"] == case.get("isComplex", False))
        dups = [w for w in data["dup_warnings"] if f"'{case['qualified']}'" in w]
        print(f"REPLAY duplicate {case['qualified']} -> {c} functions, {len(dups)} duplicate-registration warnings at import")
        if c > 1:
            run.violation(case, "still more than one function for the pair")
        elif dups:
            run.violation(case, "a second registration for the pair is still discarded at import: " + dups[0][:200])
    elif kind == "kind":
        for r in rows:
            if r["qualified"] == case["qualified"] and r["isComplex"] == case.get("isComplex", False):
                n += 1
                print(f"REPLAY kind ({r['qualified']}, {'complex' if r['isComplex'] else 'real'}) -> {r['func']}")
                if "complexName" in twin_defects(r):
                    run.violation(case, f"({r['qualified']}, real) still resolves to {r['func']}, a function written for complex inputs")
    elif kind == "e2e":
        import torch

        ops = _fx_ops()
        label = case.get("qualified")
        if label in ops:
            n = 1

            class M(torch.nn.Module):
                def forward(self, x):
                    return ops[label](x)

            try:
                with warnings.catch_warnings():
                    warnings.simplefilter("ignore")
                    torch.onnx.export(M().eval(), (torch.rand(2, 3),), dynamo=True, verbose=False)
                print(f"REPLAY e2e {label}: exports")
            except Exception as e:
                print(f"REPLAY e2e {label}: {type(e).__name__}")
                run.violation(case, f"torch.onnx.export of the operator sample '{label}' still fails: {str(e)[-300:]}")
        elif label in E2E:
            n = 1
            ok, detail = run_e2e(label)
            print(f"REPLAY e2e {label}: {detail}")
            if ok:
                run.violation(case, f"{E2E[label][1]}: {detail}")
    elif kind == "proto":
        import onnx

        for r, f in zip(rows, objs):
            if r["qualified"] == case["qualified"] and not r["traceOnly"]:
                n += 1
                try:
                    onnx.checker.check_function(f.to_function_proto())
                    print("REPLAY proto ok")
                except Exception as e:
                    run.violation(case, f"FunctionProto still rejected: {e}")
    else:
        print("REPLAY: the replay file names a broken proof/correspondence, not an input; run the check itself")
    run.coverage.update(evaluations=n, distinct_nontrivial=n)
