"""C16 — every registered torch_lib overload binds correctly to its ATen schema.

Proof obligations: lean/OV/Props/C16.lean (model OV/Model/C16Bind.lean, lemmas OV/Lemmas/C16Bind.lean).

Tie (re-established on every run against `core.REPO`):
  1. translator — `extract_registry.load()` imports the real registry (`get_torchlib_ops()`), calls the real
     `op_signature_from_function` on every registered function, resolves every name with the exporter's own
     `_get_overload`, and regenerates `OV/Gen/C16Registry*.lean`; the table theorems are re-checked by
     `lake build` (`decide +kernel`);
  2. correspondence — the compiled Lean model (`drv_c16`) and the real code on the same cases:
     a. `bind`: for every row, conforming calls (every admissible positional count × keyword subsets) and
        non-conforming ones go through the exporter's real binder
        (`torch.onnx._internal.exporter._building._construct_named_inputs_and_attrs` for scripted functions,
        `inspect.signature(func).bind` = CPython's call binding for trace-only ones) and through Lean `bind`;
     b. `nameOk` vs the real `_check_and_normalize_names` on registry names + generated near-miss strings;
     c. `register`/`torchlibOps` vs a real `Registry()` driven with generated registration sequences and the
        real `get_torchlib_ops()` run on it;
     d. the Python twin of `Entry.defects` (used to locate failing rows) vs Lean on every row.
Oracle (search / replay): the property's clauses evaluated on what the *real* binder did with a conforming
call; `onnx.checker.check_function` on every scripted function's FunctionProto; existence of the overload in
the installed PyTorch; three end-to-end `torch.onnx.export(dynamo=True)` witnesses of listed findings.
"""
from __future__ import annotations

import inspect
import itertools
import json
import re
import warnings
from collections import Counter

from harness import core, extract_registry as ex

PROP_MODULES = ["OV.Props.C16"]
DROPPABLE = ["generator", "layout", "device", "pin_memory", "memory_format", "requires_grad"]
CLAUSES = ["paramsModelled", "posFits", "posAccepts", "posNames", "kwBound", "kwPlaced", "requiredBound"]

# ----------------------------------------------------------------------------- twin of the Lean rule

INPUT_OK = {"scalar", "int", "symint", "float", "bool", "dtype", "pyobj"}
ATTR_OK = {
    "int": (False, {"int", "symint", "bool", "dtype", "scalar"}),
    "float": (False, {"float", "scalar", "int", "symint"}),
    "string": (False, {"str", "device", "layout", "memfmt"}),
    "ints": (True, {"int", "symint", "bool"}),
    "floats": (True, {"float"}),
    "strings": (True, {"str"}),
}


def accepts(traced: bool, p: dict, arg: dict) -> bool:
    if arg["base"] == "tensor":
        return p["isInput"]
    if arg["name"] in DROPPABLE and p["name"] == arg["name"]:
        return True
    if p["isInput"]:
        return traced or arg["base"] in INPUT_OK
    spec = ATTR_OK.get(p["attr"])
    return bool(spec) and spec[0] == arg["isList"] and arg["base"] in spec[1]


def failing_clauses(r: dict) -> list[str]:
    a, s, traced = r["aten"], r["sig"], r["traceOnly"]
    pos, kw = a["positional"], a["kwonly"]
    drops = not traced
    out = []
    if not all(p["pok"] and not p["variadic"] for p in s):
        out.append("paramsModelled")
    if not all(i < len(s) or (drops and x["name"] in DROPPABLE) for i, x in enumerate(pos)):
        out.append("posFits")
    if not all(accepts(traced, s[i], x) for i, x in enumerate(pos) if i < len(s)):
        out.append("posAccepts")
    if not all(q["name"] != x["name"] or j == i for i, x in enumerate(pos) for j, q in enumerate(s)):
        out.append("posNames")
    if not all(any(q["name"] == x["name"] for q in s) or (drops and x["name"] in DROPPABLE) for x in kw):
        out.append("kwBound")
    if not all(q["name"] != x["name"] or (len(pos) <= j and accepts(traced, q, x)) for x in kw for j, q in enumerate(s)):
        out.append("kwPlaced")

    def must(j):
        return any(not x["hasDefault"] for x in pos[j:])

    if not all(
        (not p["required"])
        or must(j)
        or (len(pos) <= j and any(x["name"] == p["name"] and not x["hasDefault"] for x in kw))
        for j, p in enumerate(s)
    ):
        out.append("requiredBound")
    return out


def real_name_ok(name: str) -> bool:
    from onnxscript.function_libs.torch_lib import registration

    try:
        registration._check_and_normalize_names(name)
        return True
    except ValueError:
        return False


# independent restatement of the property's name clause (NOT the code under test): '<ns>::<name>[.<overload>]',
# default overloads spelled without '.default'
_SPEC_NAME = re.compile(r"[a-zA-Z0-9_]+::[a-zA-Z0-9_]+(\.[a-zA-Z0-9._]+)?")


def spec_name_ok(name: str) -> bool:
    return _SPEC_NAME.fullmatch(name) is not None and not name.endswith(".default")


def twin_defects(r: dict) -> list[str]:
    out = []
    if not spec_name_ok(r["qualified"]):
        out.append("badName")
    if r["res"] == "undefined":
        out.append("undefinedOp")
    elif r["res"] != "lib_absent":
        out += failing_clauses(r)
    return out


# ----------------------------------------------------------------------------- driver encodings


def enc_aarg(a: dict) -> str:
    return "/".join([a["name"], a["base"], "L" if a["isList"] else "-", "O" if a["optional"] else "-", "D" if a["hasDefault"] else "-"])


def enc_param(p: dict) -> str:
    return "/".join(
        [p["name"], "I" if p["isInput"] else "A", p["attr"], "R" if p["required"] else "-", "V" if p["variadic"] else "-", "P" if p["pok"] else "-"]
    )


def enc_codes(s: str) -> str:
    return ",".join(str(ord(c)) for c in s) or "-"


def row_line(r: dict) -> str:
    return " ".join(
        ["row", enc_codes(r["qualified"]), "1" if r["isComplex"] else "0", "traced" if r["traceOnly"] else "scripted", r["res"], "P"]
        + [enc_aarg(a) for a in r["aten"]["positional"]]
        + ["K"]
        + [enc_aarg(a) for a in r["aten"]["kwonly"]]
        + ["S"]
        + [enc_param(p) for p in r["sig"]]
    )


def bind_line(r: dict, npos: int, kws: list[str]) -> str:
    return " ".join(
        ["bind", "traced" if r["traceOnly"] else "scripted", str(npos), ",".join(kws) or "-", "S"] + [enc_param(p) for p in r["sig"]]
    )


# ----------------------------------------------------------------------------- the real binders


class Sent:
    """Opaque argument value; remembers which argument of the call it is."""

    def __init__(self, tag: str):
        self.tag = tag

    def __repr__(self):
        return f"<{self.tag}>"


class RealBinder:
    def __init__(self):
        import onnx_ir as ir
        import onnxscript
        from torch.onnx._internal.exporter import _building, _schemas as t_schemas

        self.ir = ir
        self.onnxscript = onnxscript
        self.building = _building
        self.t_schemas = t_schemas
        self._sig: dict[int, object] = {}

    def exporter_signature(self, f):
        """The OpSignature the exporter binds a scripted function with (OnnxDecompMeta.__post_init__)."""
        k = id(f)
        if k not in self._sig:
            self._sig[k] = self.t_schemas.op_signature_from_function(
                f, f.function_ir.domain, f.name, since_version=f.opset.version
            )
        return self._sig[k]

    def bind(self, f, npos: int, kws: list[str]):
        """-> ("ok", [slot per parameter], classification {param: isInput}) | ("err", kind, message)."""
        args = [Sent(f"p{i}") for i in range(npos)]
        kwargs = {n: Sent(f"k:{n}") for n in kws}
        if isinstance(f, self.onnxscript.OnnxFunction):
            sig = self.exporter_signature(f)
            try:
                named_inputs, named_attrs = self.building._construct_named_inputs_and_attrs(sig, args, kwargs)
            except ValueError as e:
                return ("err", "missing", str(e)[:200])
            slots, cls = [], {}
            for p in sig.params:
                is_in = isinstance(p, self.ir.schemas.Parameter)
                v = (named_inputs if is_in else named_attrs).get(p.name)
                slots.append(v.tag if isinstance(v, Sent) else "-")
                cls[p.name] = is_in
            return ("ok", slots, cls)
        pysig = inspect.signature(f.func)
        try:
            ba = pysig.bind(*args, **kwargs)
        except TypeError as e:
            return ("err", "TypeError", str(e)[:200])
        slots = []
        for name in pysig.parameters:
            v = ba.arguments.get(name)
            slots.append(v.tag if isinstance(v, Sent) else "-")
        return ("ok", slots, None)


def nreq_pos(aten: dict) -> int:
    n = 0
    for i, a in enumerate(aten["positional"]):
        if not a["hasDefault"]:
            n = i + 1
    return n


def conforming_calls(aten: dict, rng, cap: int) -> list[tuple[int, list[str]]]:
    pos, kw = aten["positional"], aten["kwonly"]
    req = [k["name"] for k in kw if not k["hasDefault"]]
    opt = [k["name"] for k in kw if k["hasDefault"]]
    sets = [[], list(opt)] + [[o] for o in opt]
    if len(opt) <= 3:
        sets = [list(c) for n in range(len(opt) + 1) for c in itertools.combinations(opt, n)]
    else:
        for _ in range(4):
            sets.append([o for o in opt if rng.random() < 0.5])
    seen, out = set(), []
    for n in range(nreq_pos(aten), len(pos) + 1):
        for s in sets:
            kws = req + s
            key = (n, tuple(kws))
            if key not in seen:
                seen.add(key)
                out.append((n, kws))
    if len(out) > cap:
        head = [out[0], out[-1]]
        rest = out[1:-1]
        rng.shuffle(rest)
        out = head + rest[: cap - 2]
    return out


def nonconforming_calls(r: dict) -> list[tuple[int, list[str]]]:
    pos = r["aten"]["positional"]
    req = [k["name"] for k in r["aten"]["kwonly"] if not k["hasDefault"]]
    out = [(len(r["sig"]) + 1, req), (len(pos), req + ["zz_unknown_kw"])]
    if r["sig"] and len(pos) >= 1:
        out.append((len(pos), req + [r["sig"][0]["name"]]))
    if nreq_pos(r["aten"]) >= 1:
        out.append((nreq_pos(r["aten"]) - 1, req))
    out.append((0, []))
    return out


def judge_binding(r: dict, f, npos: int, kws: list[str], res) -> list[str]:
    """The property's clauses on what the real binder did with a conforming call."""
    traced = r["traceOnly"]
    if res[0] == "err":
        return [f"conforming call rejected by the binder ({res[1]}: {res[2]})"]
    slots, cls = res[1], res[2]
    params = r["sig"]
    names = [p["name"] for p in params]
    if len(slots) != len(params):
        return [f"binder knows {len(slots)} parameters, op_signature {len(params)}"]
    problems = []
    where = {t: j for j, t in enumerate(slots) if t != "-"}

    def check(arg, tag):
        j = where.get(tag)
        if j is None:
            if arg["name"] not in DROPPABLE:
                problems.append(f"argument '{arg['name']}' ({arg['type']}) is dropped and is not droppable")
            return
        p = dict(params[j])
        if cls is not None:  # classification the exporter really used
            p["isInput"] = cls[p["name"]]
        if arg["base"] == "tensor" and not p["isInput"]:
            problems.append(f"tensor argument '{arg['name']}' lands on attribute parameter '{p['name']}' ({p['attr']})")
        elif not accepts(traced, p, arg):
            problems.append(f"argument '{arg['name']}' ({arg['type']}) lands on parameter '{p['name']}' which does not accept it")
        if arg["name"] in names and names[j] != arg["name"]:
            problems.append(f"argument '{arg['name']}' lands on parameter '{names[j]}' although a parameter '{arg['name']}' exists")

    for i in range(npos):
        check(r["aten"]["positional"][i], f"p{i}")
    for k in r["aten"]["kwonly"]:
        if k["name"] in kws:
            check(k, f"k:{k['name']}")
    for j, p in enumerate(params):
        if p["required"] and slots[j] == "-":
            problems.append(f"required parameter '{p['name']}' unbound")
    return problems


# ----------------------------------------------------------------------------- names / registry generators

ALPH = list("abzAZ09_") + [".", ":", "-", " ", "\n", "é", "/"]


def gen_names(rng, base: list[str], n: int) -> list[str]:
    out = ["aten::add", "aten::add.Tensor", "aten::add.default", "aten::add.Tensor.default", "aten::add.", "aten:add", "::add",
           "aten::", "aten::a.b.c", "aten::a..b", "aten::.x", "a::b::c", "aten::add\n", " aten::add", "aten::add.defaultx",
           "aten::default", "x::y.default_", "aten::add.Tensor_é", "", ".default", "aten::a-b", "aten-x::a", "aten::a.b-c"]
    while len(out) < n:
        s = rng.choice(base)
        k = rng.random()
        if k < 0.25:
            i = rng.randint(0, len(s))
            s = s[:i] + rng.choice(ALPH) + s[i:]
        elif k < 0.45 and s:
            i = rng.randrange(len(s))
            s = s[:i] + s[i + 1 :]
        elif k < 0.6:
            s = s + rng.choice([".default", ".Default", ".default.x", "default", ".", ".x"])
        elif k < 0.75 and s:
            i = rng.randrange(len(s))
            s = s[:i] + rng.choice(ALPH) + s[i + 1 :]
        elif k < 0.9:
            s = "".join(rng.choice(ALPH) for _ in range(rng.randint(1, 5))) + "::" + "".join(rng.choice(ALPH) for _ in range(rng.randint(0, 5)))
        out.append(s)
    return out


class _StubIR:
    domain = "stub"


class _StubFn:
    def __init__(self, i):
        self.i = i
        self.function_ir = _StubIR()
        self.name = f"f{i}"

    def __repr__(self):
        return f"f{self.i}"


def real_registry_run(seq):
    """Drive a real Registry with (func id, name, complex) and run the real get_torchlib_ops over it."""
    from onnxscript._framework_apis import torch_2_5
    from onnxscript.function_libs.torch_lib import registration

    reg = registration.Registry()
    with warnings.catch_warnings():
        warnings.simplefilter("ignore")
        for i, name, cx in seq:
            reg.register(_StubFn(i), name, complex=cx)
    dump = ";".join(
        f"{n}=[{','.join(str(f.i) for f in o.overloads)}]|[{','.join(str(f.i) for f in o.complex)}]" for n, o in reg.items()
    )
    saved = registration.default_registry
    registration.default_registry = reg
    try:
        with warnings.catch_warnings():
            warnings.simplefilter("ignore")
            metas = torch_2_5.get_torchlib_ops()
    finally:
        registration.default_registry = saved
    ops = ";".join(f"{m.qualified_name}/{m.function.i}/{'c' if m.is_complex else 'r'}" for m in metas)
    return dump + " # " + ops


def gen_reg_seq(rng):
    names = ["aten::add", "aten::add.Tensor", "aten::mul", "internal::helper", "internal::x.y", "prims::sum", "internalx::z", "aten::internal::"]
    names = names[: rng.randint(2, len(names))]
    return [(i, rng.choice(names), rng.random() < 0.35) for i in range(rng.randint(1, 14))]


# ----------------------------------------------------------------------------- known findings


def load_waivers(run: core.Run) -> tuple[dict[str, list[str]], dict[str, str]]:
    """rows waived by open findings: {qualified: [defects]}, and {qualified: finding id}."""
    waived, owner = {}, {}
    for f in run.open_findings():
        for name, defects in (f.get("predicate", {}).get("rows") or {}).items():
            waived[name] = list(defects)
            owner[name] = f["id"]
    return waived, owner


def lean_waivers() -> dict[str, list[str]]:
    src = core.strip_comments((core.LEAN / "OV" / "Props" / "C16.lean").read_text())
    out = {}
    for m in re.finditer(r'\|\s*"([^"]+)"\s*=>\s*\[([^\]]*)\]', src):
        ds = [d.strip().replace(".clause .", "").lstrip(".") for d in m.group(2).split(",") if d.strip()]
        out[m.group(1)] = ds
    return out


E2E = {
    "amax_no_dim": ("C16-required-unbound", "torch.amax(x) [aten::amax, dim omitted]"),
    # fixed by 50e6b6d (C16-kw-rejected-like-ops): must export now; reproducing again is a VIOLATION
    "rand_like_memory_format": ("FIXED", "torch.rand_like(x, memory_format=torch.preserve_format) [aten::rand_like]"),
    "mean_dtype": ("FIXED", "x.mean(dtype=torch.float64) [aten::mean, dtype silently dropped]"),
    "quantize_per_tensor_tensor": ("FIXED", "quantized_decomposed.quantize_per_tensor.tensor(x, scale_t, zp_t, -128, 127, int8)"),
}


def run_e2e(which: str) -> tuple[bool, str]:
    """True = the finding reproduces through the real exporter."""
    import torch
    import torch.ao.quantization.fx._decomposed  # noqa: F401  (registers quantized_decomposed::*)

    class M(torch.nn.Module):
        def forward(self, x):
            if which == "quantize_per_tensor_tensor":
                return torch.ops.quantized_decomposed.quantize_per_tensor.tensor(
                    x, torch.tensor(0.1), torch.tensor(0, dtype=torch.int64), -128, 127, torch.int8
                )
            if which == "amax_no_dim":
                return torch.amax(x)
            if which == "rand_like_memory_format":
                return torch.rand_like(x, memory_format=torch.preserve_format)
            return x.mean(dtype=torch.float64)

    x = torch.ones(2, 3)
    try:
        with warnings.catch_warnings():
            warnings.simplefilter("ignore")
            prog = torch.onnx.export(M().eval(), (x,), dynamo=True, verbose=False)
    except Exception as e:  # ConversionError from the binder
        msg = str(e)
        if which != "mean_dtype" and ("Error when calling function" in msg or "GraphConstructionError" in msg):
            return True, f"export raises {type(e).__name__}"
        return False, f"export raised {type(e).__name__} (not the binder)"
    if which == "mean_dtype":
        dt = prog.model.graph.outputs[0].dtype
        return (str(dt) != "DOUBLE"), f"exported output dtype {dt}, eager dtype torch.float64"
    return False, "export succeeded"


# ----------------------------------------------------------------------------- main


def main(run: core.Run) -> None:
    run.assumptions += [
        "schemas are those of the installed PyTorch (torch.__version__ in the evidence); names are resolved with the "
        "exporter's own _get_overload after importing torch.ao.quantization.fx._decomposed and torchvision",
        "A-py: CPython's binding of func(*args, **kwargs) = inspect.Signature.bind (used for trace-only functions, "
        "whose bodies are not executed here)",
        "'cannot affect the result' is the property's fixed list of droppable names, not a semantic proof",
        "FX calls are modelled as: a prefix of the positional schema arguments covering every one without default, "
        "plus any subset of keyword-only arguments containing those without default",
    ]
    data = ex.load()
    rows = data["rows"]
    objs = data["objs"]
    stats: Counter = Counter()
    stats["rows"] = len(rows)
    for r in rows:
        stats["res_" + r["res"]] += 1
        stats["traced" if r["traceOnly"] else "scripted"] += 1
    if len(rows) < 100:
        raise core.Infra(f"registry degenerated: only {len(rows)} entries")

    # ---- replay of a recorded case
    if run.replay_path:
        replay(run, rows, objs)
        return

    # ---- translator + proof obligations
    gen = ex.emit(rows, core.LEAN / "OV" / "Gen")
    run.coverage["translator"] = gen
    audit = run.prove(PROP_MODULES)
    drv = core.Driver("C16")

    waived, owner = load_waivers(run)
    lw = lean_waivers()
    if {k: sorted(v) for k, v in lw.items()} != {k: sorted(v) for k, v in waived.items()}:
        raise core.Infra(
            "known_findings.d/C16.json and `waived` in OV/Props/C16.lean differ on rows: "
            + str(sorted(k for k in set(lw) | set(waived) if sorted(lw.get(k, [])) != sorted(waived.get(k, []))))
        )

    # ---- (d) twin vs Lean on every row
    lean_def = drv.ask([row_line(r) for r in rows])
    twin_def = [twin_defects(r) for r in rows]
    for r, l, t in zip(rows, lean_def, twin_def):
        if (",".join(t) or "ok") != l:
            raise core.Infra(f"python twin and Lean model disagree on row {r['qualified']}: twin={t} lean={l}")
    stats["rows_with_defects"] = sum(1 for t in twin_def if t)

    problems: list[dict] = []  # property failures with a concrete input on the real code
    tie_broken: list[dict] = []

    # ---- the /repo signature the rows carry vs the one the exporter binds with
    rb = RealBinder()
    for r, f in zip(rows, objs):
        if not r["carriedSigSame"]:
            tie_broken.append({"kind": "sig", "qualified": r["qualified"], "detail": "function object's op_signature differs from op_signature_from_function(func)"})
        if not r["traceOnly"]:
            tsig = ex.sig_rows(rb.exporter_signature(f), f.function)
            strip = lambda ps: [(p["name"], p["isInput"], p["attr"], p["required"]) for p in ps]
            if strip(tsig) != strip(r["sig"]):
                tie_broken.append({"kind": "sig", "qualified": r["qualified"], "detail": f"/repo classifies {strip(r['sig'])}, the exporter {strip(tsig)}"})

    # ---- (a) bind correspondence + oracle on the real binder
    cap = run.size(40, 400)
    lines, meta = [], []
    corpus = [json.loads(l) for l in (core.VERIF / "harness" / "corpus_c16.jsonl").read_text().splitlines() if l.strip()]
    stats["corpus_calls"] = len(corpus)
    for idx, (r, f) in enumerate(zip(rows, objs)):
        if r["res"] in ("undefined", "lib_absent"):
            continue
        calls = conforming_calls(r["aten"], run.rng, cap)
        for c in corpus:  # witnesses of known findings + minimised past disagreements, always run
            if c["qualified"] == r["qualified"] and c.get("isComplex", False) == r["isComplex"] and (c["npos"], c["kws"]) not in calls:
                if nreq_pos(r["aten"]) <= c["npos"] <= len(r["aten"]["positional"]):
                    calls.append((c["npos"], c["kws"]))
        for npos, kws in calls:
            lines.append(bind_line(r, npos, kws))
            meta.append((idx, npos, kws, True))
        for npos, kws in nonconforming_calls(r):
            lines.append(bind_line(r, npos, kws))
            meta.append((idx, npos, kws, False))
    outs = drv.ask(lines)
    row_call_fail: dict[int, list] = {}
    for (idx, npos, kws, conf), mout in zip(meta, outs):
        r, f = rows[idx], objs[idx]
        res = rb.bind(f, npos, kws)
        stats["bind_calls"] += 1
        stats["bind_conforming" if conf else "bind_nonconforming"] += 1
        if res[0] == "ok":
            real = "ok " + ",".join(t if t == "-" else (t if t.startswith("p") else t) for t in res[1])
            stats["bind_ok"] += 1
        else:
            real = "err"
            stats["bind_err_" + res[1]] += 1
        model = mout if mout.startswith("ok") else "err"
        if mout.startswith("err:"):
            stats["model_" + mout] += 1
        if model != real:
            tie_broken.append({"kind": "bind", "qualified": r["qualified"], "isComplex": r["isComplex"], "npos": npos, "kws": kws,
                               "detail": f"real binder: {real} ; Lean bind: {mout}"})
        if conf:
            bad = judge_binding(r, f, npos, kws, res)
            if bad:
                row_call_fail.setdefault(idx, []).append((npos, kws, bad))
                stats["conforming_calls_failing_oracle"] += 1

    # ---- verdict per row
    known_rows: dict[str, list[str]] = {}
    for idx, (r, t) in enumerate(zip(rows, twin_def)):
        allowed = waived.get(r["qualified"], [])
        extra = [d for d in t if d not in allowed]
        calls = row_call_fail.get(idx, [])
        if t and not extra:
            # inside an open finding: confirm it on the real code
            if "undefinedOp" in t or calls:
                known_rows.setdefault(owner[r["qualified"]], []).append(r["qualified"])
            continue
        if "badName" in extra:
            # the registry holds it, so the real _check_and_normalize_names accepted it: the name is the failing input
            problems.append({"kind": "name", "name": r["qualified"], "registered": True,
                             "detail": f"registered name {r['qualified']!r} (function {r['func']}) is not '<ns>::<name>[.<overload>]' "
                             f"without '.default'; _check_and_normalize_names accepts it: {real_name_ok(r['qualified'])}"})
        elif "undefinedOp" in extra:
            problems.append({"kind": "undefined", "qualified": r["qualified"], "isComplex": r["isComplex"],
                             "detail": f"the exporter's resolver finds no operator '{r['qualified']}' in torch {data['torch_version']}"})
        elif extra or calls:
            if calls:
                npos, kws, bad = min(calls, key=lambda c: (c[0] + len(c[1]), len(c[2])))
                problems.append({"kind": "call", "qualified": r["qualified"], "isComplex": r["isComplex"], "npos": npos, "kws": kws,
                                 "defects": t, "schema": r["schemaText"], "function": r["func"], "detail": "; ".join(bad)})
            else:
                tie_broken.append({"kind": "row", "qualified": r["qualified"], "defects": t, "schema": r["schemaText"],
                                   "detail": f"bindsOk fails ({extra}) but no generated conforming call mis-binds"})
    stats["rows_in_known_findings"] = sum(len(v) for v in known_rows.values())

    # ---- uniqueness (table theorem registry_unique + real data)
    keys = Counter((r["qualified"], r["isComplex"]) for r in rows)
    for k, n in keys.items():
        if n > 1:
            problems.append({"kind": "duplicate", "qualified": k[0], "isComplex": k[1], "detail": f"get_torchlib_ops() returns {n} functions for {k}"})
    for o in data["registry"].values():
        if len(o.overloads) > 1 or len(o.complex) > 1:
            problems.append({"kind": "duplicate", "qualified": o.name, "detail": f"registry record holds {len(o.overloads)} real / {len(o.complex)} complex functions"})
    stats["duplicate_registration_warnings"] = len(data["dup_warnings"])

    # ---- (b) names
    base = sorted({r["qualified"] for r in rows})
    # every registered default-overload name re-spelled with '.default', and '.default' behind every overload
    dflt = [b + ".default" for b in base if not b.endswith(".default")]
    names = base + dflt + gen_names(run.rng, base, run.size(1500, 20000))
    names = [n for n in dict.fromkeys(names)]
    nouts = drv.ask(["name " + enc_codes(n) for n in names])
    for n, mo in zip(names, nouts):
        real = real_name_ok(n)
        stats["names"] += 1
        stats["names_accepted" if real else "names_refused"] += 1
        if n.endswith(".default"):
            stats["names_dot_default"] += 1
        if spec_name_ok(n) != (mo == "true"):
            raise core.Infra(f"python restatement of the name rule and Lean nameOk disagree on {n!r}")
        if (mo == "true") != real:
            if real:  # the real check admits a name the property calls malformed
                problems.append({"kind": "name", "name": n, "detail": f"_check_and_normalize_names accepts {n!r}, which is not "
                                 "'<ns>::<name>[.<overload>]' without '.default'"})
            else:
                tie_broken.append({"kind": "name", "name": n, "detail": f"real check refuses {n!r}, Lean nameOk accepts it"})
    for r in rows:
        if not real_name_ok(r["qualified"]):
            problems.append({"kind": "name", "name": r["qualified"], "detail": "registered name is refused by _check_and_normalize_names"})

    # ---- (c) registry state machine
    seqs = [gen_reg_seq(run.rng) for _ in range(run.size(300, 5000))]
    seqs.insert(0, [(1, "aten::add", False), (2, "aten::add", False), (3, "aten::add", True), (4, "aten::add", True), (5, "internal::x", False)])
    routs = drv.ask(["reg " + " ".join(f"{i}/{n}/{'c' if c else 'r'}" for i, n, c in s) for s in seqs])
    for s, mo in zip(seqs, routs):
        real = real_registry_run(s)
        stats["reg_sequences"] += 1
        stats["reg_registrations"] += len(s)
        if any(s[i][1:] == s[j][1:] for i in range(len(s)) for j in range(i)):
            stats["reg_sequences_with_duplicate"] += 1
        if real != mo:
            ops = real.split(" # ")[1].split(";") if " # " in real else []
            ks = Counter(tuple(o.rsplit("/", 2)[::2]) for o in ops if o)
            if any(v > 1 for v in ks.values()):
                problems.append({"kind": "reg", "seq": s, "detail": f"a (name, kind) pair resolves to more than one function: {real}"})
            else:
                tie_broken.append({"kind": "reg", "seq": s, "detail": f"real: {real} ; Lean: {mo}"})

    # ---- oracle extras: FunctionProtos of scripted functions
    import onnx

    for r, f in zip(rows, objs):
        if r["traceOnly"]:
            continue
        stats["function_protos_checked"] += 1
        try:
            fp = f.to_function_proto()
            onnx.checker.check_function(fp)
        except Exception as e:
            problems.append({"kind": "proto", "qualified": r["qualified"], "detail": f"FunctionProto rejected by onnx.checker: {type(e).__name__}: {str(e)[:300]}"})
            continue
        ins = [p["name"] for p in r["sig"] if p["isInput"]]
        ats = sorted(p["name"] for p in r["sig"] if not p["isInput"])
        pats = sorted(list(fp.attribute) + [a.name for a in fp.attribute_proto])
        if ins != list(fp.input) or ats != pats:
            problems.append({"kind": "proto", "qualified": r["qualified"],
                             "detail": f"op_signature says inputs {ins} attributes {ats}; the FunctionProto has inputs {list(fp.input)} attributes {pats}"})

    # ---- known findings: print what reproduces (binding level), plus end-to-end witnesses
    e2e = {}
    for which, (fid, what) in E2E.items():
        try:
            ok, detail = run_e2e(which)
        except Exception as e:
            ok, detail = False, f"witness could not run: {type(e).__name__}"
        e2e[which] = {"reproduces": ok, "detail": detail}
        if ok and fid == "FIXED":
            problems.append({"kind": "e2e", "qualified": which, "detail": f"{what}: {detail} (was fixed; the failure is back)"})
        elif ok:
            known_rows.setdefault(fid, [])
    run.coverage["e2e_exporter_witnesses"] = e2e
    findings = {f["id"]: f for f in run.open_findings()}
    for fid, names_ in sorted(known_rows.items()):
        if fid in findings:
            ev = [f"{w}: {e2e[w]['detail']}" for w, (i, _) in E2E.items() if i == fid and e2e[w]["reproduces"]]
            run.known(fid, f"{findings[fid]['what']} — rows: {', '.join(sorted(set(names_))) or '-'}" + (f" — exporter: {'; '.join(ev)}" if ev else ""))

    # ---- verdict
    order = {"call": 0, "undefined": 1, "duplicate": 2, "name": 3, "reg": 4, "proto": 5}
    problems.sort(key=lambda p: (order.get(p["kind"], 9), not p.get("registered", False), len(json.dumps(p, default=str))))
    reported = set()
    for p in problems:
        key = p["kind"] if p["kind"] in ("name", "reg") else (p["kind"], p.get("qualified"))
        if key in reported or len(reported) >= 4:
            continue
        reported.add(key)
        run.violation(p, f"{p['kind']}: {p.get('qualified') or p.get('name') or p.get('seq')}: {p['detail']}")
    if not problems and tie_broken:
        t = tie_broken[0]
        run.violation({"broken": "correspondence OV.Model.C16Bind vs implementation", "first": t, "count": len(tie_broken)},
                      f"correspondence broken ({t['kind']}): {t.get('qualified') or t.get('name') or t.get('seq')}: {t['detail']}; "
                      "no conforming call found that mis-binds on the real code", no_input=True)
    if not audit["ok"] and not problems:
        run.violation({"broken": "proof obligations of OV.Props.C16", "problems": audit["problems"], "log": audit["build_log"][-1500:]},
                      "Lean proof obligations for C16 do not check and no failing row was located: " + "; ".join(audit["problems"][:3]),
                      no_input=True)
    elif not audit["ok"]:
        run.coverage["proof_broken_by"] = [p.get("qualified") or p.get("name") for p in problems[:10]]

    for r in rows[:3]:
        run.sample(row_line(r))
    for ln in lines[:3]:
        run.sample(ln)
    run.coverage.update(
        evaluations=len(rows) + stats["bind_calls"] + stats["names"] + stats["reg_sequences"],
        distinct_nontrivial=stats["bind_conforming"],
        rule="distinct (registry row, positional count, keyword set) conforming calls bound by the real exporter binder and by "
        "Lean `bind` and judged against the property's clauses; rows, names and registration sequences counted in `distribution`",
        traces_validated_against_impl=stats["bind_calls"] + stats["names"] + stats["reg_sequences"] + len(rows),
        distribution=dict(stats),
        exhaustive=True,
        explanation="every (qualified name, function) pair of get_torchlib_ops() is a row of the Lean table; conforming calls per row are "
        f"enumerated completely up to {cap} per row (all positional counts × keyword subsets; sampled above the cap)",
        torch_version=data["torch_version"],
        tie_broken=len(tie_broken),
    )
    if stats["bind_conforming"] < 1000:
        raise core.Infra("generator degenerated: fewer than 1000 conforming calls")


def replay(run: core.Run, rows, objs) -> None:
    body = json.loads(open(run.replay_path).read())
    case = body.get("case", {})
    kind = case.get("kind")
    rb = RealBinder()
    n = 0
    waived, owner = load_waivers(run)

    def report(what: str) -> None:
        q = case.get("qualified")
        if q in waived:
            run.known(owner[q], what)
        else:
            run.violation(case, what)

    if kind == "call":
        for r, f in zip(rows, objs):
            if r["qualified"] == case["qualified"] and r["isComplex"] == case.get("isComplex", False):
                n += 1
                res = rb.bind(f, case["npos"], case["kws"])
                bad = judge_binding(r, f, case["npos"], case["kws"], res)
                print(f"REPLAY call {r['qualified']} npos={case['npos']} kws={case['kws']} schema={r['schemaText']} -> {res[:2]} :: {bad}")
                if bad:
                    report(f"replayed call {r['qualified']} npos={case['npos']} kws={case['kws']} still mis-binds: " + "; ".join(bad))
    elif kind == "undefined":
        for r in rows:
            if r["qualified"] == case["qualified"]:
                n += 1
                print(f"REPLAY undefined {r['qualified']} -> {r['res']}")
                if r["res"] == "undefined":
                    report(f"'{r['qualified']}' still resolves to no PyTorch operator")
    elif kind == "name":
        n = 1
        ok = real_name_ok(case["name"])
        print(f"REPLAY name {case['name']!r} accepted={ok}")
        if ok:
            run.violation(case, f"_check_and_normalize_names still accepts {case['name']!r}")
    elif kind == "reg":
        n = 1
        real = real_registry_run([tuple(x) for x in case["seq"]])
        print(f"REPLAY reg {case['seq']} -> {real}")
        ops = real.split(" # ")[1].split(";")
        ks = Counter(tuple(o.rsplit("/", 2)[::2]) for o in ops if o)
        if any(v > 1 for v in ks.values()):
            run.violation(case, "a (name, kind) pair still resolves to more than one function")
    elif kind == "duplicate":
        n = 1
        c = sum(1 for r in rows if r["qualified"] == case["qualified"] and r["isComplex"] == case.get("isComplex", False))
        print(f"REPLAY duplicate {case['qualified']} -> {c} functions")
        if c > 1:
            run.violation(case, "still more than one function for the pair")
    elif kind == "proto":
        import onnx

        for r, f in zip(rows, objs):
            if r["qualified"] == case["qualified"] and not r["traceOnly"]:
                n += 1
                try:
                    onnx.checker.check_function(f.to_function_proto())
                    print("REPLAY proto ok")
                except Exception as e:
                    run.violation(case, f"FunctionProto still rejected: {e}")
    else:
        print("REPLAY: the replay file names a broken proof/correspondence, not an input; run the check itself")
    run.coverage.update(evaluations=n, distinct_nontrivial=n)
