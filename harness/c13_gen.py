"""C13 generators: tensor-typed models over standard-domain ops with If/Loop bodies (no scan
outputs), built directly with onnx.helper so that value names can be adversarial, plus the
refusal classes, plus @script templates (the documented ONNX Script <-> ONNX round trip)."""
from __future__ import annotations

import numpy as np
import onnx
from onnx import TensorProto as TP
from onnx import helper as H

OPSET = 18

KEYWORDS = ["if", "for", "None", "True", "lambda", "in", "is", "class", "def", "not", "return", "while"]
# soft keywords / builtins are ordinary names for the exporter
ODD_CLEAN = ["match", "case", "type", "print", "v1", "v2", "opset18", "r_x", "__1", "_0", "X", "x_1"]


class Namer:
    """Supplies value names.  scheme: clean | odd (needs clean-up, injective) | collide (D14 pairs)."""

    def __init__(self, rng, scheme: str):
        self.rng = rng
        self.scheme = scheme
        self.used: set[str] = set()
        self.k = 0
        self.pending: list[str] = []

    def _fresh_base(self) -> str:
        self.k += 1
        return f"t{self.k}"

    def _mangle(self, b: str) -> list[str]:
        r = self.rng
        c = r.randrange(12)
        if c == 0:
            return [b[0] + "." + b[1:]]
        if c == 1:
            return [str(r.randrange(10)) + b]
        if c == 2:
            return [r.choice(KEYWORDS)]
        if c == 3:
            return [b + r.choice(["-", ":", "/", " ", "$", "#", "[0]", "::", "@"]).strip() + str(r.randrange(3))]
        if c == 4:
            return ["layers." + str(r.randrange(3)) + "." + b]
        if c == 5:
            return [r.choice(ODD_CLEAN)]
        if c == 6:
            return ["_" + b]
        if c == 7:
            return [b + ":0"]
        if c == 8:
            return ["/" + b + "/out"]
        if c == 9:
            return [b.upper() + "~"]
        return [b]

    def _collide(self, b: str) -> list[str]:
        r = self.rng
        c = r.randrange(7)
        if c == 0:
            return [b[0] + "." + b[1:], b[0] + "_" + b[1:]]
        if c == 1:
            d = str(r.randrange(10))
            return [d + b, "__" + d + b]
        if c == 2:
            kw = r.choice(KEYWORDS)
            return [kw, "r_" + kw]
        if c == 3:
            return [b + ":0", b + ".0", b + "_0"][: r.choice([2, 3])]
        if c == 4:
            return [b + "-x", b + "/x"]
        if c == 5:
            return ["-" + b, "___" + b]
        return [b]

    def new(self) -> str:
        for _ in range(50):
            if self.pending:
                n = self.pending.pop(0)
            else:
                b = self._fresh_base()
                if self.scheme == "clean":
                    cand = [b]
                elif self.scheme == "odd":
                    cand = self._mangle(b)
                else:
                    cand = self._collide(b) if self.rng.random() < 0.35 else self._mangle(b)
                n, rest = cand[0], cand[1:]
                self.pending += rest
            if n and n not in self.used and " " not in n:
                self.used.add(n)
                return n
        self.k += 1
        n = f"t{self.k}_z"
        self.used.add(n)
        return n


FLOAT_SPECIAL = [float("nan"), float("inf"), float("-inf")]


def _fval(rng, special: bool) -> float:
    if special and rng.random() < 0.5:
        return rng.choice(FLOAT_SPECIAL)
    return rng.choice([0.0, 1.0, -1.0, 0.5, -2.5, 3.0, 1e-05, 100.0, -0.0, 0.1, 1e20, 7.0, 2.0])


class G:
    """One graph scope under construction."""

    def __init__(self, gen, parent=None):
        self.gen = gen
        self.parent = parent
        self.nodes: list = []
        self.inits: list = []
        self.vals: dict[str, list[str]] = {"F": [], "B": [], "S": [], "I": [], "FS": [], "L": [], "LNZ": [], "D": [], "U": [], "C": []}

    def pool(self, ty: str) -> list[str]:
        out = list(self.vals[ty])
        if self.parent is not None:
            out += self.parent.pool(ty)
        return out

    def add(self, ty: str, name: str) -> str:
        self.vals[ty].append(name)
        return name


class ModelGen:
    def __init__(self, rng, scheme="clean", special=False, refusal=None, size=6, depth=2, allow_loops=True, force_loop=None):
        self.force_loop = force_loop
        self.rng = rng
        self.namer = Namer(rng, scheme)
        self.special = special
        self.refusal = refusal
        self.size = size
        self.maxdepth = depth
        self.allow_loops = allow_loops
        self.flags: set[str] = set()
        self.nodecount = 0

    # ---- helpers
    def node(self, g: G, op, ins, outs, **attrs):
        self.nodecount += 1
        name = f"n{self.nodecount}" if self.rng.random() < 0.3 else ""
        g.nodes.append(H.make_node(op, ins, outs, name=name, **attrs))

    def pick(self, g: G, ty: str) -> str:
        p = g.pool(ty)
        return self.rng.choice(p)

    def const(self, g: G, tensor: onnx.TensorProto, as_init=False) -> str:
        n = self.namer.new()
        if as_init and g.parent is None:
            tensor.name = n
            g.inits.append(tensor)
            self.flags.add("init")
        else:
            self.node(g, "Constant", [], [n], value=tensor)
        return n

    def fscalar_const(self, g: G) -> str:
        """a FLOAT constant broadcastable against float[3]: rank 0, [1] or [3]; or 5+ elements reduced."""
        r = self.rng
        k = r.randrange(10)
        as_init = r.random() < 0.25
        if k < 4:
            v = _fval(r, self.special)
            self.flags.add("const0d")
            return self.const(g, H.make_tensor("value", TP.FLOAT, [], [v]), as_init)
        if k < 6:
            self.flags.add("const1d")
            return self.const(g, H.make_tensor("value", TP.FLOAT, [1], [_fval(r, self.special)]), as_init)
        if k < 8:
            self.flags.add("const1d")
            return self.const(g, H.make_tensor("value", TP.FLOAT, [3], [_fval(r, self.special) for _ in range(3)]), as_init)
        if k == 8:
            self.flags.add("const5")
            n = r.choice([5, 6, 8])
            c = self.const(g, H.make_tensor("value", TP.FLOAT, [n], [_fval(r, False) for _ in range(n)]), as_init)
            o = self.namer.new()
            self.node(g, "ReduceMax", [c], [o], keepdims=0)
            return o
        # INT64 scalar -> Cast
        self.flags.add("constint")
        c = self.const(g, H.make_tensor("value", TP.INT64, [], [r.choice([0, 1, -3, 7, 2**40])]), as_init)
        o = self.namer.new()
        self.node(g, "Cast", [c], [o], to=TP.FLOAT)
        return o

    def f_operand(self, g: G) -> str:
        if self.rng.random() < 0.3:
            return self.fscalar_const(g)
        return self.pick(g, "F")

    def bool_scalar(self, g: G) -> str:
        p = g.pool("S")
        if p and self.rng.random() < 0.4:
            return self.rng.choice(p)
        s = self.namer.new()
        self.node(g, "ReduceSum", [self.pick(g, "F")], [s], keepdims=0)
        c = self.const(g, H.make_tensor("value", TP.FLOAT, [], [self.rng.choice([0.0, 1.0, -1.0])]))
        b = self.namer.new()
        self.node(g, self.rng.choice(["Greater", "Less", "GreaterOrEqual"]), [s, c], [b])
        return g.add("S", b)

    # ---- statements
    # ---- other element types: ops whose ATTRIBUTES matter, constants of every dtype class
    def typed_step(self, g: G):
        r = self.rng
        kinds = ["fmod_float", "double", "dtype_const", "uint8", "xor"]
        if g.pool("L"):
            kinds += ["intmod", "intmod", "intarith"]
        kind = r.choice(kinds)
        self.flags.add("typed_" + kind)
        o = self.namer.new()
        if kind == "intmod":
            a = self.pick(g, "L")
            if g.pool("LNZ") and r.random() < 0.6:
                b = self.pick(g, "LNZ")
            else:
                b = self.const(g, H.make_tensor("value", TP.INT64, [3], [r.choice([-3, -2, 2, 3, 5]) for _ in range(3)]))
            self.node(g, "Mod", [a, b], [o], fmod=r.choice([0, 1, 1]))
            g.add("L", o)
            f = self.namer.new()
            self.node(g, "Cast", [o], [f], to=TP.FLOAT)
            g.add("F", f)
        elif kind == "intarith":
            self.node(g, r.choice(["Add", "Sub", "Mul"]), [self.pick(g, "L"), self.pick(g, "L")], [o])
            g.add("L", o)
            f = self.namer.new()
            self.node(g, "Cast", [o], [f], to=TP.FLOAT)
            g.add("F", f)
        elif kind == "fmod_float":
            b = self.const(g, H.make_tensor("value", TP.FLOAT, [], [r.choice([2.0, -3.0, 0.5, 1.5])]))
            self.node(g, "Mod", [self.pick(g, "F"), b], [o], fmod=1)
            g.add("F", o)
        elif kind == "double":
            d = self.namer.new()
            self.node(g, "Cast", [self.pick(g, "F")], [d], to=TP.DOUBLE)
            dims = r.choice([[], [], [1], [3], [5]])
            n = 1
            for q in dims:
                n *= q
            vals = [r.choice([16777217.0, 0.1, 1.0 / 3.0, 1e-30, 123456789.123456789, 2.0, -4294967297.0]) for _ in range(n)]
            c = self.const(g, H.make_tensor("value", TP.DOUBLE, dims, vals), r.random() < 0.3)
            if dims == [5]:
                c2 = self.namer.new()
                self.node(g, "ReduceMax", [c], [c2], keepdims=0)
                c = c2
            self.node(g, r.choice(["Add", "Mul", "Sub"]), [d, c], [o])
            g.add("D", o)
            if r.random() < 0.5:
                f = self.namer.new()
                self.node(g, "Cast", [o], [f], to=TP.FLOAT)
                g.add("F", f)
        elif kind == "dtype_const":
            dt, vals = r.choice([
                (TP.FLOAT16, [0.1]), (TP.INT32, [7]), (TP.UINT8, [200]), (TP.INT8, [-5]), (TP.DOUBLE, [0.1]),
                (TP.BOOL, [True]), (TP.INT16, [-300]), (TP.UINT64, [2**40]), (TP.BFLOAT16, [1.5]),
            ])  # fmt: skip
            dims = r.choice([[], [1], [6]])
            as_init = r.random() < 0.35
            if dt == TP.BFLOAT16 and dims == [6] and r.random() < 0.7:
                dims = [1]  # large BFLOAT16 initializers stay rare (generate_rand still refuses them)
            c = self.const(g, H.make_tensor("value", dt, dims, vals * (6 if dims == [6] else 1)), as_init)
            if dims == [6] and as_init:
                self.flags.add("big_init_" + TP.DataType.Name(dt))
            f = self.namer.new()
            self.node(g, "Cast", [c], [f], to=TP.FLOAT)
            if dims == [6]:
                f2 = self.namer.new()
                self.node(g, "ReduceMax", [f], [f2], keepdims=0)
                f = f2
            self.node(g, "Add", [self.pick(g, "F"), f], [o])
            g.add("F", o)
        elif kind == "uint8":
            a = self.namer.new()
            ab = self.namer.new()
            self.node(g, "Abs", [self.pick(g, "F")], [ab])
            self.node(g, "Cast", [ab], [a], to=TP.UINT8)
            g.add("U", a)
            sh = self.const(g, H.make_tensor("value", TP.UINT8, [3], [1, 2, 0]))
            u = self.namer.new()
            self.node(g, "BitShift", [self.pick(g, "U"), sh], [u], direction=r.choice(["LEFT", "RIGHT"]))
            g.add("U", u)
            u2 = self.namer.new()
            self.node(g, r.choice(["BitwiseXor", "BitwiseAnd", "BitwiseOr"]), [self.pick(g, "U"), self.pick(g, "U")], [u2])
            g.add("U", u2)
            self.node(g, "Cast", [u2], [o], to=TP.FLOAT)
            g.add("F", o)
        else:  # xor
            b1 = self.namer.new()
            self.node(g, "Less", [self.pick(g, "F"), self.pick(g, "F")], [b1])
            g.add("B", b1)
            self.node(g, "Xor", [b1, self.pick(g, "B")], [o])
            g.add("B", o)

    def step(self, g: G, depth: int):
        r = self.rng
        if r.random() < 0.2:
            return self.typed_step(g)
        k = r.random()
        o = self.namer.new()
        if k < 0.22:
            self.node(g, r.choice(["Relu", "Neg", "Abs", "Tanh", "Sigmoid", "Identity"]), [self.pick(g, "F")], [o])
            g.add("F", o)
        elif k < 0.50:
            op = r.choice(["Add", "Sub", "Mul", "Div", "Max", "Min", "Add", "Mul", "Sub", "Pow"])
            a, b = self.f_operand(g), self.f_operand(g)
            if r.random() < 0.5:
                a = self.pick(g, "F")
            else:
                b = self.pick(g, "F")
            self.node(g, op, [a, b], [o])
            g.add("F", o)
        elif k < 0.62:
            op = r.choice(["Less", "Greater", "Equal", "GreaterOrEqual", "LessOrEqual"])
            self.node(g, op, [self.pick(g, "F"), self.f_operand(g)], [o])
            g.add("B", o)
        elif k < 0.70 and g.pool("B"):
            if r.random() < 0.3:
                self.node(g, "Not", [self.pick(g, "B")], [o])
            else:
                self.node(g, r.choice(["And", "Or"]), [self.pick(g, "B"), self.pick(g, "B")], [o])
            g.add("B", o)
        elif k < 0.76 and g.pool("B"):
            self.node(g, "Where", [self.pick(g, "B"), self.f_operand(g), self.pick(g, "F")], [o])
            g.add("F", o)
        elif k < 0.82:
            # INT64 1-D constant as an operator input
            axes = self.const(g, H.make_tensor("value", TP.INT64, [1], [r.choice([0, -1])]), r.random() < 0.2)
            self.flags.add("constint1d")
            self.node(g, "ReduceSum", [self.pick(g, "F"), axes], [o], keepdims=1)
            o2 = self.namer.new()
            self.node(g, "Add", [self.pick(g, "F"), o], [o2])
            g.add("F", o2)
        elif k < 0.91 and depth < self.maxdepth:
            self.if_stmt(g, depth, o)
        elif depth < self.maxdepth and self.allow_loops:
            self.loop_stmt(g, depth, o)
        else:
            self.node(g, "Neg", [self.pick(g, "F")], [o])
            g.add("F", o)

    def body(self, g: G, depth: int, n: int):
        for _ in range(n):
            self.step(g, depth)

    def if_stmt(self, g: G, depth: int, o: str):
        self.flags.add("if")
        cond = self.bool_scalar(g)
        nout = self.rng.choice([1, 1, 2])
        outs = [o] + [self.namer.new() for _ in range(nout - 1)]
        branches = []
        for nm in ("then", "else"):
            sg = G(self, g)
            self.body(sg, depth + 1, self.rng.randrange(0, 3))
            bouts = []
            for _ in range(nout):
                if self.rng.random() < 0.15:
                    # constant as a branch output
                    bo = self.const(sg, H.make_tensor("value", TP.FLOAT, [3], [1.0, 2.0, 3.0]))
                    self.flags.add("const_branch_out")
                else:
                    bo = self.namer.new()
                    self.node(sg, self.rng.choice(["Neg", "Relu", "Identity", "Abs"]), [self.pick(sg, "F")], [bo])
                bouts.append(bo)
            branches.append(
                H.make_graph(sg.nodes, f"{nm}_g{self.nodecount}", [], [H.make_tensor_value_info(b, TP.FLOAT, [3]) for b in bouts])
            )
        attrs = {"then_branch": branches[0], "else_branch": branches[1]}
        if self.rng.random() < 0.3:
            attrs = {"else_branch": branches[1], "then_branch": branches[0]}
        self.node(g, "If", [cond], outs, **attrs)
        for x in outs:
            g.add("F", x)

    def loop_stmt(self, g: G, depth: int, o: str, force: str | None = None):
        r = self.rng
        form = r.choice(["for", "for", "while", "while", "forbreak", "forbreak", "forcond", "forcond"])
        if force == "condpass":
            # directed: trip count AND a run-time initial condition, the body only threads the condition through
            # (`cond_out = Identity(cond_in)`) — the conjunction is rare in the random forms
            form = "forcond"
        elif force:
            # directed: trip count, NO initial condition, cond_out = Identity(<computed boolean>) (or computed directly)
            form = "forbreak"
        if self.refusal == "nostop":
            form = "nostop"
            self.refusal = "nostop_done"
        self.flags.add("loop_" + form)
        nstate = r.choice([1, 1, 2])
        # state 0 is the counter that guarantees termination of while-forms
        init0 = self.namer.new()
        self.node(g, "Abs", [self.pick(g, "F")], [init0])
        inits = [init0] + [self.pick(g, "F") for _ in range(nstate - 1)]
        sg = G(self, g)
        it, cin = self.namer.new(), self.namer.new()
        sins = [self.namer.new() for _ in range(nstate)]
        for s in sins:
            sg.add("F", s)
        one = self.const(sg, H.make_tensor("value", TP.FLOAT, [], [1.0]))
        s0 = self.namer.new()
        self.node(sg, "Add", [sins[0], one], [s0])
        sg.add("F", s0)
        if form in ("for", "forbreak") and r.random() < 0.4:
            # use the iteration variable
            itf = self.namer.new()
            self.node(sg, "Cast", [it], [itf], to=TP.FLOAT)
            s0b = self.namer.new()
            self.node(sg, "Add", [s0, itf], [s0b])
            sg.add("F", s0b)
            s0 = s0b
            self.flags.add("loop_iter_used")
        self.body(sg, depth + 1, r.randrange(0, 3))
        souts = [s0]
        for _ in range(nstate - 1):
            so = self.namer.new()
            self.node(sg, r.choice(["Neg", "Identity", "Tanh"]), [self.pick(sg, "F")], [so])
            souts.append(so)
        cout = self.namer.new()
        cond_passthrough = form == "forcond" and (r.random() < 0.6 or force == "condpass")
        if cond_passthrough:
            self.flags.add("loop_cond_passthrough")
        if form in ("for", "nostop"):
            self.node(sg, "Identity", [cin], [cout])
        elif cond_passthrough:
            # the condition is threaded through unchanged, in one of several shapes
            shape = r.choice(["identity", "identity", "identity2", "and", "notnot"])
            if force == "condpass":
                shape = "identity"
            self.flags.add("loop_passthrough_" + shape)
            if shape == "identity":
                self.node(sg, "Identity", [cin], [cout])
            elif shape == "identity2":
                t = self.namer.new()
                self.node(sg, "Identity", [cin], [t])
                self.node(sg, "Identity", [t], [cout])
            elif shape == "and":
                self.node(sg, "And", [cin, cin], [cout])
            else:
                t = self.namer.new()
                self.node(sg, "Not", [cin], [t])
                self.node(sg, "Not", [t], [cout])
        elif force == "constfalse" or (not force and r.random() < 0.25):
            # cond_out = Constant(<bool>): False is "run at most once"; True (only with a trip count) is how some
            # exporters spell a plain for-loop.  The value matters, not only the element type.
            constc = False if (force or form == "while") else r.choice([False, True])
            self.node(sg, "Constant", [], [cout], value=H.make_tensor("value", TP.BOOL, [], [constc]))
            self.flags.add("loop_cond_const_" + str(constc).lower())
        else:
            tot = self.namer.new()
            self.node(sg, "ReduceSum", [s0], [tot], keepdims=0)
            thr = self.const(sg, H.make_tensor("value", TP.FLOAT, [], [r.choice([5.0, 5.0, 12.0, 30.0])]))
            if r.random() < 0.5 or force == "identity":
                # cond_out = Identity(<computed boolean>): the forwarding node is not "cond_out = Identity(cond_in)"
                below = self.namer.new()
                self.node(sg, "Less", [tot, thr], [below])
                self.node(sg, "Identity", [below], [cout])
                self.flags.add("loop_cond_identity_of_computed")
            else:
                self.node(sg, "Less", [tot, thr], [cout])
        body = H.make_graph(
            sg.nodes,
            f"loop_g{self.nodecount}",
            [H.make_tensor_value_info(it, TP.INT64, []), H.make_tensor_value_info(cin, TP.BOOL, [])]
            + [H.make_tensor_value_info(s, TP.FLOAT, [3]) for s in sins],
            [H.make_tensor_value_info(cout, TP.BOOL, [])] + [H.make_tensor_value_info(s, TP.FLOAT, [3]) for s in souts],
        )
        if form in ("for", "forbreak", "forcond"):
            if force != "constfalse" and r.random() < 0.5 and g.pool("I"):
                trip = self.pick(g, "I")
            else:
                # the directed constant-False loop needs a trip count >= 2 to be observable
                trip = self.const(g, H.make_tensor("value", TP.INT64, [], [r.choice([3, 4] if force == "constfalse" else [0, 1, 3, 4])]))
                self.flags.add("trip_const")
        else:
            trip = ""
        if form == "forcond":
            # trip count AND an initial condition that is a run-time value (graph input when there is one)
            cond = self.pick(g, "C") if g.pool("C") and (r.random() < 0.7 or force == "condpass") else self.bool_scalar(g)
        elif form == "while" or (form == "forbreak" and not force and r.random() < 0.3):
            cond = self.pick(g, "C") if g.pool("C") and r.random() < 0.3 else self.bool_scalar(g)
        else:
            cond = ""
        outs = [o] + [self.namer.new() for _ in range(nstate - 1)]
        self.node(g, "Loop", [trip, cond] + inits, outs, body=body)
        for x in outs:
            g.add("F", x)

    # ---- whole model
    def model(self):
        r = self.rng
        g = G(self)
        nin = r.choice([1, 2, 2, 3])
        inputs = []
        for _ in range(nin):
            n = self.namer.new()
            g.add("F", n)
            inputs.append(H.make_tensor_value_info(n, TP.FLOAT, [3]))
        if r.random() < 0.5:
            n = self.namer.new()
            g.add("I", n)
            inputs.append(H.make_tensor_value_info(n, TP.INT64, []))
        if (r.random() < 0.4 or self.force_loop == "condpass") and self.allow_loops:
            n = self.namer.new()
            g.add("C", n)
            g.add("S", n)
            inputs.append(H.make_tensor_value_info(n, TP.BOOL, []))
        if r.random() < 0.5:
            for _ in range(r.choice([1, 2])):
                n = self.namer.new()
                g.add("L", n)
                g.add("LNZ", n)
                inputs.append(H.make_tensor_value_info(n, TP.INT64, [3]))
        self.body(g, 0, r.randrange(1, self.size + 1))
        if self.refusal == "nostop":
            self.loop_stmt(g, 0, self.namer.new())
        if self.force_loop:
            self.loop_stmt(g, 0, self.namer.new(), force=self.force_loop)
            self.flags.add("forced_loop_" + self.force_loop)
        outs = []
        nout = r.choice([1, 1, 2])
        if r.random() < 0.9:
            # make every main-scope float value observable: fold the unused ones into one result
            used = set()
            for n in g.nodes:
                used.update(n.input)
                for a in n.attribute:
                    if a.HasField("g"):
                        for q in a.g.node:
                            used.update(q.input)
            dead = [v for v in g.vals["F"] if v not in used and v not in [i.name for i in inputs]]
            if len(dead) > 1:
                acc = dead[0]
                for v in dead[1:6]:
                    o = self.namer.new()
                    self.node(g, "Add", [acc, v], [o])
                    acc = o
                g.vals["F"].append(acc)
                g.vals["F"] = [v for v in g.vals["F"] if v not in dead[:6]] + []
        else:
            self.flags.add("dead_code_kept")
        produced = [v for v in g.vals["F"] + g.vals["B"] if v not in [i.name for i in inputs]]
        extra_typed = [v for v in g.vals["D"] + g.vals["L"] if v not in [i.name for i in inputs]]
        if not produced:
            o = self.namer.new()
            self.node(g, "Neg", [self.pick(g, "F")], [o])
            g.add("F", o)
            produced = [o]
        produced = produced[-3:]
        r.shuffle(produced)
        for v in produced[:nout]:
            outs.append(H.make_tensor_value_info(v, TP.FLOAT if v in g.vals["F"] else TP.BOOL, [3]))
        for v in extra_typed[-2:]:
            outs.append(H.make_tensor_value_info(v, TP.DOUBLE if v in g.vals["D"] else TP.INT64, [3]))
        self.apply_refusal(g)
        gname = r.choice(["g", "main_graph", "my.graph", "1st", "class", "torch-jit-export"]) if self.namer.scheme != "clean" else r.choice(["g", "main_graph"])
        if self.refusal == "empty_graph_name":
            gname = ""  # `_cleanup_variable_name("")`: AssertionError
        graph = H.make_graph(g.nodes, gname, inputs, outs, initializer=g.inits)
        if self.refusal == "sparse":
            sp = H.make_sparse_tensor(
                H.make_tensor("sp_v", TP.FLOAT, [1], [1.0]), H.make_tensor("sp_i", TP.INT64, [1], [0]), [3]
            )
            graph.sparse_initializer.append(sp)
        model = H.make_model(graph, opset_imports=[H.make_opsetid("", OPSET)], ir_version=8)
        return model

    def apply_refusal(self, g: G):
        r = self.rng
        k = self.refusal
        if k is None or k in ("sparse", "nostop", "nostop_done", "empty_graph_name"):
            return
        o = self.namer.new()
        x = self.pick(g, "F")
        pos = r.randrange(0, len(g.nodes) + 1)
        if k == "scan":
            body = H.make_graph(
                [H.make_node("Identity", ["sc_in"], ["sc_out"])],
                "scan_body",
                [H.make_tensor_value_info("sc_in", TP.FLOAT, [])],
                [H.make_tensor_value_info("sc_out", TP.FLOAT, [])],
            )
            n = H.make_node("Scan", [x], [o], body=body, num_scan_inputs=1)
        elif k == "graphattr":
            body = H.make_graph([H.make_node("Identity", ["q_in"], ["q_out"])], "q", [], [])
            n = H.make_node("SequenceMap", [x], [o], body=body)
        elif k == "attr_type_proto":
            n = H.make_node("Optional", [], [o], type=H.make_tensor_type_proto(TP.FLOAT, [3]))
        elif k == "attr_tensors":
            n = H.make_node("Custom", [x], [o])
            n.attribute.append(H.make_attribute("ts", [H.make_tensor("a", TP.FLOAT, [1], [1.0])]))
        elif k == "attr_sparse":
            n = H.make_node("Constant", [], [o])
            sp = H.make_sparse_tensor(
                H.make_tensor("sp_v", TP.FLOAT, [1], [1.0]), H.make_tensor("sp_i", TP.INT64, [1], [0]), [3]
            )
            n.attribute.append(H.make_attribute("sparse_value", sp))
        elif k == "attr_graphs":
            body = H.make_graph([H.make_node("Identity", ["q_in"], ["q_out"])], "q", [], [])
            n = H.make_node("Custom", [x], [o])
            n.attribute.append(H.make_attribute("gs", [body]))
        elif k == "if_one_attr":
            body = H.make_graph([H.make_node("Neg", [x], ["q_out"])], "q", [], [H.make_tensor_value_info("q_out", TP.FLOAT, [3])])
            n = H.make_node("If", [self.bool_scalar(g)], [o], then_branch=body)
            pos = len(g.nodes)
        elif k == "const_no_attr":
            # `_get_const_repr` reads attribute[0]: IndexError under inline_const
            n = H.make_node("Constant", [], [o])
        elif k == "no_opset":
            n = H.make_node("Foo", [x], [o], domain="unimported.domain")
        else:
            raise ValueError(k)
        g.nodes.insert(pos, n)


REFUSALS = ["sparse", "scan", "graphattr", "attr_type_proto", "attr_tensors", "attr_sparse", "attr_graphs", "if_one_attr", "no_opset", "nostop",
            "empty_graph_name", "const_no_attr"]
# refused only under some option tuples (the others print text that is not judged)
PARTIAL_REFUSALS = {"const_no_attr"}


def feeds_for(model: onnx.ModelProto, rng, k: int = 3):
    out = []
    for j in range(k):
        f = {}
        for i in model.graph.input:
            tt = i.type.tensor_type
            shape = [d.dim_value if d.HasField("dim_value") else 2 for d in tt.shape.dim] if tt.HasField("shape") else [2]
            n = 1
            for q in shape:
                n *= q
            if tt.elem_type == TP.FLOAT:
                vals = [rng.choice([-2.0, -1.0, 0.0, 0.5, 1.0, 2.0, 3.0]) for _ in range(n)]
                f[i.name] = np.array(vals, dtype=np.float32).reshape(shape)
            elif tt.elem_type == TP.BOOL:
                # both truth values are fed: a run-time condition must matter
                f[i.name] = np.array([(j % 2 == 0) if rng.random() < 0.8 else rng.random() < 0.5 for _ in range(n)], dtype=np.bool_).reshape(shape)
            elif len(shape) == 1:
                f[i.name] = np.array([rng.choice([-7, -5, -3, -2, -1, 1, 2, 3, 5, 7]) for _ in range(n)], dtype=np.int64)
            else:
                f[i.name] = np.array(rng.choice([0, 1, 2, 3]), dtype=np.int64)
        out.append(f)
    return out


SHAPES = [[0], [0, 3], [2, 0], [], [1], [2, 3], ["N"], ["N", 3], [None], [2, None], None, [0, 0], ["N", 0]]


def shape_model(rng, idx: int) -> onnx.ModelProto:
    """Element-wise model whose graph inputs/outputs carry every kind of shape annotation (size-0 dims, rank 0,
    symbolic and unknown dims, unknown rank)."""
    nin = rng.choice([1, 2])
    nodes, inputs, outputs = [], [], []
    for k in range(nin):
        shp = rng.choice(SHAPES) if rng.random() < 0.8 else [rng.choice([0, 1, 2, "M", None]) for _ in range(rng.choice([1, 2, 3]))]
        vi = H.make_tensor_value_info(f"x{k}", TP.FLOAT, shp)
        inputs.append(vi)
        cur = f"x{k}"
        for j in range(rng.choice([1, 2])):
            o = f"t{k}_{j}"
            nodes.append(H.make_node(rng.choice(["Relu", "Neg", "Abs", "Identity", "Tanh"]), [cur], [o]))
            cur = o
        if rng.random() < 0.4:
            o = f"s{k}"
            nodes.append(H.make_node("Add", [cur, f"x{k}"], [o]))
            cur = o
        outputs.append(H.make_tensor_value_info(cur, TP.FLOAT, shp))
    g = H.make_graph(nodes, f"shapes{idx}", inputs, outputs)
    return H.make_model(g, opset_imports=[H.make_opsetid("", OPSET)], ir_version=8)


# --------------------------------------------------------------------------- @script templates

UN = ["Relu", "Neg", "Abs", "Tanh", "Sigmoid"]
BINOPS = ["+", "-", "*", "/"]


def _expr(rng, vars_, depth=0) -> str:
    r = rng.random()
    if depth > 1 or r < 0.3:
        return rng.choice(vars_)
    if r < 0.5:
        return f"op.{rng.choice(UN)}({_expr(rng, vars_, depth + 1)})"
    if r < 0.75:
        return f"({_expr(rng, vars_, depth + 1)} {rng.choice(BINOPS)} {_expr(rng, vars_, depth + 1)})"
    if r < 0.88:
        return f"({_expr(rng, vars_, depth + 1)} {rng.choice(BINOPS)} {rng.choice(['1.0', '2.0', '0.5', '-1.5', '3.0'])})"
    return f"op.{rng.choice(['Add', 'Mul', 'Sub', 'Max'])}({_expr(rng, vars_, depth + 1)}, {_expr(rng, vars_, depth + 1)})"


def script_source(rng, name: str, typed: bool = True):
    """One @script function: straight-line + optional if + optional loop.  Returns (src, nfloat_inputs, has_N, kinds)."""
    kinds = set()
    nin = rng.choice([1, 2, 2])
    ins = [f"X{i}" for i in range(nin)]
    has_n = rng.random() < 0.6
    ann = (lambda v: f"{v}: FLOAT[3]") if typed else (lambda v: v)
    sig = [ann(v) for v in ins] + ([("N: INT64" if typed else "N")] if has_n else [])
    lines = []
    vars_ = list(ins)
    k = 0

    def fresh():
        nonlocal k
        k += 1
        return f"t{k}"

    for _ in range(rng.randrange(1, 4)):
        v = fresh()
        lines.append(f"    {v} = {_expr(rng, vars_)}")
        if "op." not in lines[-1] and "(" not in lines[-1]:
            lines[-1] = f"    {v} = op.Identity({lines[-1].split('= ')[1]})"
        vars_.append(v)
    c = rng.random()
    if c < 0.35:
        kinds.add("if")
        v = fresh()
        lines.append(f"    c{k} = op.ReduceSum({rng.choice(vars_)}, keepdims=0) > {rng.choice(['0.0', '1.0'])}")
        lines.append(f"    if c{k}:")
        lines.append(f"        {v} = {_expr(rng, vars_)} + 1.0")
        lines.append("    else:")
        lines.append(f"        {v} = op.Neg({_expr(rng, vars_)})")
        vars_.append(v)
    elif c < 0.6 and has_n:
        kinds.add("for")
        v = fresh()
        lines.append(f"    {v} = op.Identity({rng.choice(vars_)})")
        lines.append("    for i in range(N):")
        lines.append(f"        {v} = {v} + {_expr(rng, vars_)}")
        vars_.append(v)
    elif c < 0.8:
        kinds.add("while")
        v = fresh()
        lines.append(f"    {v} = op.Abs({rng.choice(vars_)})")
        lines.append(f"    c{k} = op.ReduceSum({v}, keepdims=0) < 20.0")
        lines.append(f"    while c{k}:")
        lines.append(f"        {v} = {v} + 1.0")
        lines.append(f"        c{k} = op.ReduceSum({v}, keepdims=0) < 20.0")
        vars_.append(v)
    elif c < 0.9 and has_n:
        kinds.add("forbreak")
        v = fresh()
        lines.append(f"    {v} = op.Abs({rng.choice(vars_)})")
        lines.append("    for i in range(N):")
        lines.append(f"        {v} = {v} + 1.0")
        lines.append(f"        b{k} = op.ReduceSum({v}, keepdims=0) > 9.0")
        lines.append(f"        if b{k}:")
        lines.append("            break")
        vars_.append(v)
    else:
        kinds.add("straight")
    ret = vars_[-1]
    lines.append(f"    r = op.Identity({ret})")
    lines.append("    return r")
    rty = " -> FLOAT[3]" if typed else ""
    src = f"@script()\ndef {name}({', '.join(sig)}){rty}:\n" + "\n".join(lines) + "\n"
    return src, nin, has_n, kinds


# --------------------------------------------------------------------------- the same ONNX name in two scopes
# ONNX value names are unique per graph *and its enclosing graphs*; sibling subgraphs (the two branches of an If, the
# bodies of two Loops, a branch and a later Loop body, two functions) may define the same name.  The generators above
# hand out globally unique names, so this class is produced by a renaming of subgraph-local names afterwards.


def _rename_graph(g: onnx.GraphProto, mp: dict) -> None:
    for n in g.node:
        for i, x in enumerate(n.input):
            if x in mp:
                n.input[i] = mp[x]
        for i, x in enumerate(n.output):
            if x in mp:
                n.output[i] = mp[x]
        for a in n.attribute:
            if a.HasField("g"):
                _rename_graph(a.g, mp)
            for sg in a.graphs:
                _rename_graph(sg, mp)
    for vi in list(g.input) + list(g.output) + list(g.value_info):
        if vi.name in mp:
            vi.name = mp[vi.name]
    for t in g.initializer:
        if t.name in mp:
            t.name = mp[t.name]


def _is_inlinable_const(n: onnx.NodeProto) -> bool:
    if n.op_type != "Constant" or not n.attribute or not n.attribute[0].HasField("t"):
        return False
    t = n.attribute[0].t
    if t.data_type not in (TP.FLOAT, TP.INT64) or 0 in t.dims:
        return False
    return len(t.dims) == 0 or (len(t.dims) == 1 and t.dims[0] < 5)


def own_locals(g: onnx.GraphProto) -> dict:
    """name -> 'const' (output of a Constant node that `inline_const` may inline) | 'other', for the names the graph
    itself defines (node outputs, graph inputs, initializers); nested subgraphs are not included."""
    d = {i.name: "other" for i in g.input}
    d.update({t.name: "other" for t in g.initializer})
    for n in g.node:
        for o in n.output:
            if o:
                d[o] = "const" if _is_inlinable_const(n) else "other"
    return d


def reuse_sibling_names(model: onnx.ModelProto, rng, p: float = 0.6, plain: bool = False) -> dict:
    """Renames names local to a subgraph to names local to an *earlier sibling* subgraph of the same graph (the other
    branch of the same If, the body of an earlier Loop, a branch of an earlier If).  A pure renaming of bound names:
    the model denotes the same computation.  Pairs (inlinable Constant output, anything else) are preferred.
    With `plain`, outputs of inlinable Constants take no part (no name is a constant in one scope and something else
    in another).
    Returns counters: reused names, and how many of them pair a constant with a non-constant definition."""
    stats = {"reused": 0, "const_vs_other": 0}

    def visit(g: onnx.GraphProto):
        pool: dict = {}
        for n in g.node:
            for a in n.attribute:
                if not a.HasField("g"):
                    continue
                sg = a.g
                loc = own_locals(sg)
                avail = {y: k for y, k in pool.items() if not (plain and k == "const")}
                mp = {}
                for x, kind in loc.items():
                    if not avail or rng.random() >= p or (plain and kind == "const"):
                        continue
                    pref = [y for y, k in avail.items() if (k == "const") != (kind == "const") and "const" in (k, kind)]
                    y = rng.choice(pref) if pref else rng.choice(sorted(avail))
                    if "const" in (kind, avail[y]) and kind != avail[y]:
                        stats["const_vs_other"] += 1
                    del avail[y]
                    mp[x] = y
                    stats["reused"] += 1
                if mp:
                    _rename_graph(sg, mp)
                pool.update(own_locals(sg))
                visit(sg)

    visit(model.graph)
    return stats


def scope_defs(proto) -> dict:
    """name -> list of definition kinds ('const' | 'other') over every scope of the proto (main graph, every nested
    subgraph, every model-local function) — one entry per defining site."""
    out: dict = {}

    def visit(g: onnx.GraphProto):
        for x, k in own_locals(g).items():
            out.setdefault(x, []).append(k)
        for n in g.node:
            for a in n.attribute:
                if a.HasField("g"):
                    visit(a.g)
                for sg in a.graphs:
                    visit(sg)

    def visit_fn(f: onnx.FunctionProto):
        for x in f.input:
            out.setdefault(x, []).append("other")
        for n in f.node:
            for o in n.output:
                if o:
                    out.setdefault(o, []).append("const" if _is_inlinable_const(n) else "other")
            for a in n.attribute:
                if a.HasField("g"):
                    visit(a.g)

    if isinstance(proto, onnx.ModelProto):
        visit(proto.graph)
        for f in proto.functions:
            visit_fn(f)
    else:
        visit_fn(proto)
    return out


def const_scope_clash(proto) -> list[str]:
    """names defined at two or more sites of which at least one is an inlinable Constant and at least one other site
    is a different definition (the class of C13-INLINE-SCOPE, fixed by e0cdb9e, together with inline_const=True)"""
    return sorted(x for x, ks in scope_defs(proto).items() if len(ks) > 1 and "const" in ks)


def declash(model: onnx.ModelProto) -> onnx.ModelProto:
    """α-renames subgraph-local names so that every name has one defining site in the whole main graph (the
    same computation, no name defined twice; kept as a debugging aid)."""
    m = onnx.ModelProto()
    m.CopyFrom(model)
    seen: set = set(own_locals(m.graph))
    k = [0]

    def visit(g: onnx.GraphProto):
        for n in g.node:
            for a in n.attribute:
                if not a.HasField("g"):
                    continue
                sg = a.g
                mp = {}
                for x in own_locals(sg):
                    if x in seen:
                        k[0] += 1
                        mp[x] = f"{x}__s{k[0]}"
                if mp:
                    _rename_graph(sg, mp)
                seen.update(own_locals(sg))
                visit(sg)

    visit(m.graph)
    return m


def sibling_witness() -> onnx.ModelProto:
    """C13-INLINE-SCOPE: `t` is a Constant in the then-branch and a computed value in the else-branch."""
    then_g = H.make_graph(
        [H.make_node("Constant", [], ["t"], value=H.make_tensor("v", TP.FLOAT, [], [1.0])),
         H.make_node("Identity", ["t"], ["r1"])],
        "then_g", [], [H.make_tensor_value_info("r1", TP.FLOAT, [])])  # fmt: skip
    else_g = H.make_graph(
        [H.make_node("Add", ["x", "x"], ["t"]), H.make_node("Identity", ["t"], ["r2"])],
        "else_g", [], [H.make_tensor_value_info("r2", TP.FLOAT, [])])  # fmt: skip
    g = H.make_graph(
        [H.make_node("If", ["c"], ["y"], then_branch=then_g, else_branch=else_g)], "g",
        [H.make_tensor_value_info("c", TP.BOOL, []), H.make_tensor_value_info("x", TP.FLOAT, [])],
        [H.make_tensor_value_info("y", TP.FLOAT, [])])  # fmt: skip
    return H.make_model(g, opset_imports=[H.make_opsetid("", OPSET)], ir_version=8)


def read_scope_witness() -> onnx.ModelProto:
    """C13-READ-SCOPE: the inner If of the then-branch is dead, but its result name `a` is read in the else-branch."""
    def vi(n, t=TP.FLOAT, s=(3,)):
        return H.make_tensor_value_info(n, t, list(s))

    inner = H.make_node(
        "If", ["c"], ["a"],
        then_branch=H.make_graph([H.make_node("Neg", ["x"], ["k1"])], "t", [], [vi("k1")]),
        else_branch=H.make_graph([H.make_node("Abs", ["x"], ["k2"])], "e", [], [vi("k2")]))  # fmt: skip
    then_g = H.make_graph([inner, H.make_node("Relu", ["x"], ["r1"])], "then_g", [], [vi("r1")])
    else_g = H.make_graph([H.make_node("Tanh", ["x"], ["a"]), H.make_node("Identity", ["a"], ["r2"])], "else_g", [], [vi("r2")])
    g = H.make_graph([H.make_node("If", ["c"], ["y"], then_branch=then_g, else_branch=else_g)], "g",
                     [vi("c", TP.BOOL, ()), vi("x")], [vi("y")])  # fmt: skip
    return H.make_model(g, opset_imports=[H.make_opsetid("", OPSET)], ir_version=8)
