"""Worker of the C12 history stream: `python -m harness.c12_history` reads builder calls (JSON) on stdin and
executes them in order in this fresh process (see harness/c12.py run_history)."""
from harness.c12 import history_worker_main

if __name__ == "__main__":
    history_worker_main()
