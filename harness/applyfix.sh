#!/bin/bash
# usage: applyfix.sh "<pytest targets>" id1 id2 ...
cd /repo
T="$1"; shift
for id in "$@"; do
  d=/verif/proposed_fixes/ready/$id.diff; m=/verif/proposed_fixes/ready/$id.msg
  if ! head -1 $m | grep -q "^fix: "; then echo "$id: BAD MSG"; continue; fi
  if ! git apply --check $d 2>/dev/null; then echo "$id: DOES NOT APPLY"; continue; fi
  git apply $d
  out=$(eval "/venv/bin/python -m pytest $T -q -p no:cacheprovider -x" 2>&1 | tail -1 | sed 's/\x1b\[[0-9;]*m//g')
  if echo "$out" | grep -qE "(^| )[0-9]+ (failed|error)|no tests ran"; then echo "$id: TESTS FAIL: $out"; git checkout -q -- .; continue; fi
  git commit -qaF $m && echo "$id: committed $(git rev-parse --short HEAD) [$out]"
done
