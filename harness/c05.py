"""C05 — each shipped rewrite rule preserves semantics wherever it fires.

Proof obligations: lean/OV/Props/C05.lean (models: lean/OV/Model/C05*.lean; rule table regenerated from
/repo by harness/extract_rules.py into lean/OV/Gen/C05RuleTable.lean).
Tie: (i) translator — the rule table (every exported rule, the default set, pattern skeletons, remove_nodes)
is regenerated on every run and the coverage / skeleton theorems are re-checked by the kernel;
(ii) correspondence per rule family — host models embedding an instance or a near-miss are built, the *real*
rule is applied (`RewriteRuleSet([R]).apply_to_model`), and (fired?, new constants, new attributes) is diffed
against the Lean model's `check`/`build` on the same parameters.
Search / judgement of unproved rules: onnxruntime (optimisations off) and onnx.reference before vs after on
5 inputs, onnx.checker on the rewritten model.
"""
from __future__ import annotations

import json
import time
from collections import Counter, defaultdict

import numpy as np

from harness import core
from harness import c05_lib as L
from harness import c05_families as FAM
from harness import extract_rules
from harness import c05_families2 as FAM2
from harness import c05_chain as CH

PROP_MODULES = ["OV.Props.C05"]

QUICK_N = {"clipclip": 170, "cliprelu": 70, "reluclip": 90, "relurelu": 6, "minmax": 220, "unit": 220, "dropout": 30, "cast": 110,
           "perm": 120, "axes": 100, "reshape": 260, "slice": 150, "scatter": 90, "gemm": 140, "pad": 170, "normpad": 110,
           "bias": 50, "bn": 110, "expandbin": 240, "misc": 30, "matmul": 200, "hardswish": 120, "convaffine": 70,
           "dynscatter": 60, "slicesplit": 90, "ccos": 40, "norm": 110, "chain": 110}


# (family/kind/outcome) combinations every untruncated run must hit: each modelled rule both firing and refusing, and the
# `raise` paths of the rules that are known to raise on valid hosts.
REQUIRED_BRANCHES = [
    "clipclip/-/fire", "clipclip/-/nofire", "cliprelu/-/fire", "cliprelu/-/nofire", "reluclip/-/fire", "reluclip/-/nofire",
    "relurelu/-/fire",
    "minmax/minMin/fire", "minmax/maxMax/fire", "minmax/maxMin/fire", "minmax/minMax/fire", "minmax/minMax/nofire", "minmax/maxMin/nofire",
    "unit/-/fire", "unit/-/nofire", "dropout/-/fire", "dropout/-/nofire", "misc/rotary1/fire", "misc/rotary2/fire", "misc/gqa/fire", "misc/rotaryP/fire", "misc/rotaryPmis/nofire",
    "cast/noop/fire", "cast/noop/nofire", "cast/castcast/fire", "cast/castcast/nofire",
    "perm/noop/fire", "perm/noop/nofire", "perm/tt/fire", "axes/unsq/fire", "axes/unsq/nofire", "axes/sq/fire", "axes/sq/nofire",
    "reshape/flatten/fire", "reshape/flatten/nofire", "reshape/rr/fire", "reshape/rr/nofire", "reshape/expand/fire", "reshape/expand/nofire",
    "reshape/mat/fire", "reshape/mat/nofire",
    "slice/-/fire", "slice/-/nofire", "scatter/-/fire", "scatter/-/nofire", "gemm/-/fire", "gemm/-/nofire", "pad/-/fire", "pad/-/nofire",
    "normpad/-/fire", "normpad/-/nofire", "bias/-/fire", "bias/-/nofire", "bn/-/fire", "bn/-/nofire", "expandbin/-/fire", "expandbin/-/nofire",
    "matmul/mm1/fire", "matmul/mm1/nofire", "matmul/mm2/fire", "matmul/gemm/fire", "matmul/gemm/nofire",
    "hardswish/sig/fire", "hardswish/swish/fire", "hardswish/hs2/fire", "hardswish/sig/nofire", "hardswish/hs2/nofire",
    "convaffine/ca/fire", "convaffine/ac/fire", "convaffine/ca/nofire", "convaffine/ac/nofire",
    "dynscatter/-/fire", "dynscatter/-/nofire", "slicesplit/-/fire", "slicesplit/-/nofire", "ccos/-/fire", "misc/layernorm/fire", "norm/ln/fire", "norm/ln/nofire", "norm/lnbias/fire", "norm/rms/fire", "norm/rms/nofire",
    # rule-set driver on chain hosts: every way of applying the set, two and three interacting rewrites in one sweep, a Min/Max
    # fusion whose Clip is fused again by a relu/clip rule, a shared intermediate inside a fusable run, the second call
    "chain/order/fire", "chain/order/nofire", "chain/shuf/fire", "chain/default/fire", "chain/entry/fire",
    "chain/+n>=2/fire", "chain/+n>=3/fire", "chain/+minmax_then_reluclip/fire", "chain/+shared_inside/fire", "chain/+second_call/fire",
    # history (`pre`: the same rule object used on another host first) and the shipped default rule set as the thing applied
    "reshape/+history/fire", "reshape/+rr_opset13/fire", "reshape/+rr_opset13_after_az1_zero_kept/fire", "reshape/+default_set/fire",
    "ccos/+default_set/fire",
    # c0ccb25: element type of the first Clip unknown -> no fire; known through a constant bound -> fire (no `raise` any more)
    "clipclip/+untyped_input_no_bound/nofire", "clipclip/+untyped_input_const_bound/fire", "clipclip/+typed_input/fire",
    "cliprelu/+untyped_input_no_bound/nofire", "cliprelu/+untyped_input_const_bound/fire", "cliprelu/+typed_input/fire",
    "reluclip/+untyped_input_no_bound/nofire", "reluclip/+untyped_input_const_bound/fire", "reluclip/+typed_input/fire",
]


def condition_token_diff() -> dict:
    """rule key -> (recorded tokens, current tokens) for every condition function whose decision tokens differ from the
    snapshot the models were transcribed from (readable companion of theorem `conditions_as_modelled`)."""
    snap_f = core.VERIF / "harness" / "c05_cond_tokens.json"
    cur_f = core.VERIF / "harness" / "c05_cond_tokens.current.json"
    if not (snap_f.exists() and cur_f.exists()):
        return {}
    snap, cur = json.loads(snap_f.read_text()), json.loads(cur_f.read_text())
    out = {}
    for k in sorted(set(snap) | set(cur)):
        if snap.get(k) != cur.get(k):
            out[k] = (" ".join(snap.get(k) or ["<absent>"]), " ".join(cur.get(k) or ["<absent>"]))
    return out


def families():
    return {f.name: f for f in FAM.all_families() + FAM2.more_families() + [CH.ChainFam()]}


def decorate(f, c, rng):
    """History and rule-set dimensions of a generated case (both recorded in the case, so replays are self-contained):
    `pre`  — hosts the same rule objects are applied to first (family-specific `gen_pre` aims at the *other* branch of the
             rule's check; default: another generated case of the family);
    `dflt` — additionally push the host through `RewriteRuleSet(_DEFAULT_REWRITE_RULES)` and judge that result."""
    if getattr(f, "no_model", False) or f.name in ("chain",):
        return
    if rng.random() < (f.p_pre_for(c) if hasattr(f, "p_pre_for") else getattr(f, "p_pre", 0.10)):
        pre = f.gen_pre(rng, c) if hasattr(f, "gen_pre") else f.gen(rng)
        pre.pop("pre", None)
        c["pre"] = [pre]
    if rng.random() < getattr(f, "p_dflt", 0.12):
        c["dflt"] = 1


def split_hyp(s: str):
    parts = s.split()
    hyp = None
    rest = []
    for p in parts:
        if p.startswith("hyp="):
            hyp = p[4:] == "1"
        else:
            rest.append(p)
    return " ".join(rest), hyp


EXTRA_NOFIRE = {"clipclip", "cliprelu", "reluclip", "relurelu", "minmax", "castcast", "transtrans", "unsq", "reshape2", "gemm", "bn"}


def evaluate(fam, case, drv_answer: str, np_rng, n_inputs: int = 5) -> dict:
    """Run the real rule on the host, compare with the model's answer, run the oracle when the rule fired."""
    rec = {"case": case, "fam": fam.name}
    # every case starts from pristine rule objects; history enters only through the case's own `pre` list: hosts on which the
    # same (singleton) rule objects are applied first, results discarded
    L.rule_state().restore()
    for pc in case.get("pre") or []:
        ph, prules = fam.build(pc)
        L.apply_rules(prules, ph.model(infer=fam.infer(pc) if hasattr(fam, "infer") else True))
    hst, rules = fam.build(case)
    infer = fam.infer(case) if hasattr(fam, "infer") else True
    before = hst.model(infer=infer)
    res, after = L.apply_rules(rules, before)
    if isinstance(res, str):
        impl = "raise"
        rec["raise"] = res
    elif res == 0:
        impl = "nofire"
    else:
        try:
            impl = fam.observe(case, after)
        except Exception as e:  # replacement has an unexpected structure
            impl = f"fire ?unreadable:{type(e).__name__}"
    if getattr(fam, "no_model", False) or drv_answer == "-":
        model, hyp = impl, None       # no Lean model for these rules: nothing to diff, numeric judgement only
    else:
        model, hyp = split_hyp(drv_answer)
    rec.update(impl=impl, model=model, hyp=hyp, tie_ok=(impl == model))
    rec["fid"] = fam.finding(case)
    rec["oracle"] = None
    if impl.startswith("fire"):
        feeds = [hst.make_feeds(np_rng) for _ in range(getattr(fam, "n_inputs", n_inputs))]
        prefer = fam.prefer_for(case) if hasattr(fam, "prefer_for") else getattr(fam, "prefer", "ort")
        status, detail = L.oracle(before, after, feeds, exact=fam.exact, prefer=prefer, tol=(fam.tol_for(case) if hasattr(fam, "tol_for") else getattr(fam, "tol", None)))
        if status == "before_invalid" and hasattr(fam, "post_check"):
            bad = fam.post_check(case, after, feeds)
            if bad:
                status, detail = "after_error", bad
            else:
                status, detail = "same", "post_check (no runtime for the original)"
        rec["oracle"] = status
        rec["oracle_detail"] = detail
        if status in ("same", "differ", "after_error"):
            cb = L.checker_status(before)
            if cb is None:
                ca = L.checker_status(after)
                if ca is not None:
                    rec["checker"] = ca
    if case.get("dflt"):
        # the same host through the shipped default rule set (its rule objects, its order, every other default rule consulted):
        # judged by the oracle and the checker only
        resd, afterd = L.apply_rules(L.default_ruleset(), before)
        rec["dflt"] = "raise" if isinstance(resd, str) else ("nofire" if resd == 0 else "fire")
        if rec["dflt"] == "fire":
            feeds = [hst.make_feeds(np_rng) for _ in range(getattr(fam, "n_inputs", n_inputs))]
            prefer = fam.prefer_for(case) if hasattr(fam, "prefer_for") else getattr(fam, "prefer", "ort")
            status, detail = L.oracle(before, afterd, feeds, exact=fam.exact, prefer=prefer, tol=(fam.tol_for(case) if hasattr(fam, "tol_for") else getattr(fam, "tol", None)))
            if status == "before_invalid" and hasattr(fam, "post_check") and rec["impl"].startswith("fire"):
                status, detail = "same", "post_check domain"
            rec["dflt_oracle"] = status
            if status in ("differ", "after_error"):
                rec["dflt_bad"] = f"[through RewriteRuleSet(_DEFAULT_REWRITE_RULES), {resd} rewrites] {detail}"
            elif status == "same" and L.checker_status(before) is None:
                ca = L.checker_status(afterd)
                if ca is not None:
                    rec["dflt_bad"] = f"[through RewriteRuleSet(_DEFAULT_REWRITE_RULES), {resd} rewrites] rewritten model rejected by onnx.checker: {ca}"
    return rec


def judge(rec) -> tuple[str, str]:
    """('ok'|'known'|'prop'|'tie', text)"""
    fam, c = rec["fam"], rec["case"]
    tie_text = f"model says `{rec['model']}`, implementation `{rec['impl']}`" + (f" ({rec.get('raise')})" if rec.get("raise") else "")
    inside = rec["fid"] is not None
    if rec.get("dflt_bad") and not (rec["impl"].startswith("fire") and (rec["oracle"] in ("differ", "after_error") or "checker" in rec)):
        # only the default-set application breaks the host (e.g. another rule of the set wins at this node)
        return ("known" if inside else "prop"), rec["dflt_bad"]
    bad = rec["impl"].startswith("fire") and (rec["oracle"] in ("differ", "after_error") or "checker" in rec)
    what = ""
    if bad:
        what = rec.get("oracle_detail", "") if rec["oracle"] in ("differ", "after_error") else ("rewritten model rejected by onnx.checker: " + rec.get("checker", ""))
    if not rec["tie_ok"]:
        if bad and not inside:
            return "prop", what + " [model/implementation also disagree: " + tie_text + "]"
        return "tie", tie_text
    if not rec["impl"].startswith("fire"):
        return "ok", ""
    if rec["hyp"] is not None and (not rec["hyp"]) != inside:
        return "tie", (f"side-condition mismatch: Lean model hyp={int(rec['hyp'])} but finding predicate gives {rec['fid']}")
    if bad:
        if inside:
            return "known", what
        return "prop", what
    return "ok", ""


def run_cases(run, drv, fams, cases, stats, np_rng, results):
    lines = [fams[c["fam"]].line(c) for c in cases]
    idx = [i for i, c in enumerate(cases) if not getattr(fams[c["fam"]], "no_model", False) and lines[i] is not None]
    got = drv.ask([lines[i] for i in idx])
    answers = ["-"] * len(cases)
    for i, a in zip(idx, got):
        answers[i] = a
    for c, ln, ans in zip(cases, lines, answers):
        fam = fams[c["fam"]]
        if ans == "badline":
            raise core.Infra(f"driver rejected line: {ln}")
        rec = evaluate(fam, c, ans, np_rng)
        rec["line"] = ln if ln is not None else "(no model) " + json.dumps(c, sort_keys=True, default=str)
        verdict, text = judge(rec)
        rec["verdict"], rec["text"] = verdict, text
        stats[f"{fam.name}:cases"] += 1
        stats[f"{fam.name}:{rec['impl'].split()[0]}"] += 1
        stats[f"branch|{fam.name}/{c.get('kind', '-')}/{rec['impl'].split()[0]}"] += 1
        if rec.get("dflt"):
            stats[f"branch|{fam.name}/+default_set/{rec['dflt']}"] += 1
        if c.get("pre"):
            stats[f"branch|{fam.name}/+history/{rec['impl'].split()[0]}"] += 1
        if hasattr(fam, "counters"):
            for k in fam.counters(c, rec):
                stats[f"branch|{fam.name}/+{k}/{rec['impl'].split()[0]}"] += 1
        if rec["oracle"]:
            stats[f"{fam.name}:oracle_{rec['oracle']}"] += 1
        if rec["hyp"] is False:
            stats[f"{fam.name}:hyp0"] += 1
        results.append(rec)


def main(run: core.Run) -> None:
    run.assumptions += [
        "A-op: operator semantics are the ONNX specification as transcribed in OV.Model.C05* (Clip = min(max(x,lo),hi), "
        "Reshape target resolution, Transpose, Unsqueeze, Flatten, Slice, ScatterND, Gemm, Conv output size); "
        "onnxruntime CPU (optimisations off) / onnx.reference are the runtimes the numeric search observes",
        "real/ordered-field arithmetic in the theorems: float rounding, NaN, signed zero and overflow are outside; the numeric "
        "search compares bit-exactly for identity-type rewrites and with rtol 2e-4 for recomputed weights",
        "A-shape: shape/dtype annotations present in a host model are truthful",
        "rules without a theorem (listedUnproved in OV/Model/C05Table.lean) are judged by correspondence + numeric search only",
    ]
    t0 = time.time()
    table = extract_rules.regenerate()
    run.coverage["rule_table"] = {"rows": len(table["rows"]), "default": len(table["default"]), "exported": len(table["exported"]),
                                  "regenerated_changed": table["changed"]}
    L.rule_state()          # snapshot of the pristine rule objects, before any rule is applied in this process
    audit = run.prove(PROP_MODULES)
    cond_changed = condition_token_diff()
    run.coverage["condition_functions_changed"] = sorted(cond_changed)
    drv = core.Driver("C05")
    fams = families()
    stats: Counter = Counter()
    np_rng = np.random.RandomState(run.seed + 12345)
    results: list = []

    if run.replay_path:
        body = json.loads(open(run.replay_path).read())
        case = body["case"].get("case")
        if case is None:
            print("REPLAY: the replay names a broken obligation, not an input:", body.get("what"))
            if not audit["ok"]:
                run.violation({"broken": "proof obligations", "problems": audit["problems"]}, "obligations still do not check", no_input=True)
            return
        run_cases(run, drv, fams, [case], stats, np_rng, results)
        r = results[0]
        print(f"REPLAY {r['verdict']}: {r['line']} :: impl=`{r['impl']}` model=`{r['model']}` oracle={r['oracle']} {r.get('oracle_detail', '')}")
        if r["verdict"] in ("prop", "tie"):
            run.violation({"case": case, "detail": r["text"]}, "replayed case still fails: " + r["text"], no_input=(r["verdict"] == "tie"))
        elif r["verdict"] == "known":
            if r["fid"] in {f["id"] for f in run.open_findings()}:
                run.known(r["fid"], r["text"])
            else:
                run.violation({"case": case, "detail": r["text"]}, f"replayed case fails and {r['fid']} is not an open finding: " + r["text"])
        run.coverage.update(evaluations=1, distinct_nontrivial=1)
        return

    # ---- corpus first, then seeded generation
    scale = 1 if run.tier == "quick" else 14
    corpus_file = core.VERIF / "harness" / "corpus_c05.jsonl"
    cases = []
    if corpus_file.exists():
        cases += [json.loads(l) for l in corpus_file.read_text().splitlines() if l.strip()]
    for f in fams.values():
        cases += f.corpus()
    seen = set()
    def touched(f):
        keys = getattr(f, "rule_keys", ())
        return any(any(c == k or c.startswith(k) for k in keys) for c in cond_changed)
    for name, f in fams.items():
        n = int(QUICK_N.get(name, 60) * (0.85 if run.tier == "quick" else scale))
        if run.tier == "quick" and touched(f):
            n *= 3          # a changed condition function: look harder at that family before reporting
        tries = 0
        got = 0
        while got < n and tries < 6 * n:
            tries += 1
            c = f.gen(run.rng)
            key = json.dumps(c, sort_keys=True, default=str)
            if key in seen:
                continue
            seen.add(key)
            decorate(f, c, run.rng)
            cases.append(c)
            got += 1
    # corpus first; the generated cases in a seeded shuffle so that a time cut-off is spread over all families
    ncorp = len(cases) - len(seen)
    tail = cases[ncorp:]
    run.rng.shuffle(tail)
    cases = cases[:ncorp] + tail
    t_cases = time.time()
    budget = max(45.0, 128.0 - (t_cases - t0)) if run.tier == "quick" else 1050.0
    run.coverage["proof_and_build_s"] = round(t_cases - t0, 1)
    for k in range(0, len(cases), 100):
        run_cases(run, drv, fams, cases[k:k + 100], stats, np_rng, results)
        if time.time() - t_cases > budget:
            stats["truncated_after"] = len(results)
            break

    # ---- verdict
    import os
    if os.environ.get("VERIF_C05_DEBUG"):
        agg = Counter()
        for r in results:
            if r["verdict"] != "ok":
                key = (r["fam"], r["verdict"], r.get("fid"))
                agg[key] += 1
                if agg[key] <= int(os.environ["VERIF_C05_DEBUG"]):
                    print("DEBUG", r["verdict"], r.get("fid"), "|", r["line"], "| impl:", r["impl"], "| model:", r["model"], "hyp=", r["hyp"], "|", r["oracle"], r["text"][:200], r.get("raise", ""))
        print("DEBUG-AGG", dict(agg))
    findings = {f["id"]: f for f in run.open_findings()}
    known_counts: Counter = Counter()
    props, ties = [], []
    for r in results:
        if r["verdict"] == "known":
            if r["fid"] in findings:
                known_counts[r["fid"]] += 1
                if known_counts[r["fid"]] == 1:
                    run.known(r["fid"], f"{r['line']} :: {r['text']}")
            else:
                props.append(r)
        elif r["verdict"] == "prop":
            props.append(r)
        elif r["verdict"] == "tie":
            ties.append(r)
    size = lambda r: len(json.dumps(r["case"], default=str))
    if props:
        props.sort(key=size)
        r = props[0]
        run.violation({"case": r["case"], "line": r["line"], "impl": r["impl"], "detail": r["text"], "others": len(props) - 1},
                      f"rule fired and the rewritten model differs from the original: {r['line']} :: {r['text']}")
    elif ties:
        # search the neighbourhood of the disagreement for an input on which the real rule breaks the property
        ties.sort(key=size)
        r = ties[0]
        found = None
        fam = fams[r["fam"]]
        t_search = time.time()
        for _ in range(run.size(150, 1500)):
            if time.time() - t_search > run.size(20, 240):
                break
            c = fam.gen(run.rng)
            decorate(fam, c, run.rng)
            ln = fam.line(c)
            ans = "-" if (ln is None or getattr(fam, "no_model", False)) else drv.ask([ln])[0]
            rr = evaluate(fam, c, ans, np_rng)
            rr["line"] = ln if ln is not None else "(no model) " + json.dumps(c, sort_keys=True, default=str)
            v, text = judge(rr)
            if v == "prop" or (v == "known" and rr["fid"] not in findings):
                found = (rr, text)
                break
        if found:
            rr, text = found
            run.violation({"case": rr["case"], "line": rr["line"], "impl": rr["impl"], "detail": text,
                           "triggered_by": {"line": r["line"], "detail": r["text"]}},
                          f"correspondence broken ({r['line']} :: {r['text']}) and a failing input exists: {rr['line']} :: {text}")
        else:
            run.violation({"case": r["case"], "line": r["line"], "detail": r["text"], "broken": f"correspondence OV.Model.C05 ({r['fam']}) vs implementation",
                           "others": len(ties) - 1},
                          f"correspondence broken: {r['line']} :: {r['text']}; no input found on which the rewritten model differs", no_input=True)
    if not CH.order_check():
        run.violation({"broken": "order of the min/max and relu/clip rules inside _DEFAULT_REWRITE_RULES differs from Chain.chainRules"},
                      "the eight order rules are no longer in the modelled order inside _DEFAULT_REWRITE_RULES (OV.Model.C05Chain.chainRules)", no_input=True)
    if not audit["ok"]:
        extra = ""
        if cond_changed:
            k0 = sorted(cond_changed)[0]
            extra = (f"; condition function(s) changed: {sorted(cond_changed)[:6]} — e.g. {k0}: recorded `{cond_changed[k0][0][:300]}` "
                     f"now `{cond_changed[k0][1][:300]}`")
        run.violation({"broken": "proof obligations of OV.Props.C05 (incl. rule-table coverage and condition-function table)",
                       "problems": audit["problems"], "condition_functions_changed": {k: list(v) for k, v in cond_changed.items()},
                       "log": audit["build_log"][-1500:]},
                      "Lean proof obligations for C05 do not check: " + "; ".join(audit["problems"][:3]) + extra, no_input=True)

    # ---- evidence
    fired = [r for r in results if r["impl"].startswith("fire")]
    for r in results[:: max(1, len(results) // 8)][:8]:
        run.sample({"line": r["line"], "impl": r["impl"], "model": r["model"], "oracle": r["oracle"]})
    per_fam = defaultdict(dict)
    for k, v in stats.items():
        if ":" in k:
            a, b = k.split(":", 1)
            per_fam[a][b] = v
    inv = sum(1 for r in fired if r["oracle"] == "before_invalid")
    run.coverage.update(
        evaluations=len(results),
        distinct_nontrivial=len(fired),
        rule="cases in which the real rule fired (each then executed before/after on 5 inputs); all cases are compared model vs implementation",
        traces_validated_against_impl=len(results),
        distribution={k: dict(v) for k, v in per_fam.items()},
        known_finding_hits=dict(known_counts),
        exhaustive=False,
        explanation="rule set enumeration is exhaustive (translator); parameters per rule are seeded random over the listed spaces",
        fired_but_original_not_runnable=inv,
    )
    run.coverage["history_cases"] = sum(1 for r in results if r["case"].get("pre"))
    run.coverage["default_rule_set_cases"] = dict(Counter(r["dflt"] for r in results if r.get("dflt")))
    run.coverage["branches"] = {k.split("|", 1)[1]: v for k, v in sorted(stats.items()) if k.startswith("branch|")}
    truncated = bool(stats.get("truncated_after"))
    run.coverage["truncated_after"] = stats.get("truncated_after")
    missing = []
    for name in fams:
        if stats[f"{name}:cases"] and not stats[f"{name}:fire"]:
            missing.append(f"{name}: never fired")
    if not truncated and not run.replay_path:
        for req in REQUIRED_BRANCHES:
            if not stats.get("branch|" + req):
                missing.append(f"{req}: 0 cases")
    run.coverage["required_branches_missing"] = missing
    if missing:
        raise core.Infra("generator degenerated, required coverage counters are zero: " + "; ".join(missing[:8]))
    if fired and inv > 0.3 * len(fired):
        raise core.Infra("generator degenerated: >30% of fired hosts are not runnable")
