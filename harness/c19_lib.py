"""C19 library: parameterised pattern instances / near-misses for every ORT fusion family,
the real fuse_* entry points, canonical observation of the fused model, ORT numeric oracle.

A *case* is a JSON-able dict `{"fam": <family>, ...config...}`.  For every family:
  build(case)   -> onnx.ModelProto   (the original, unfused model; built with onnx.helper)
  line(case)    -> str               (the facts handed to the Lean model driver)
  fuse(ir_model)-> int               (the real /repo fusion entry point(s))
  observe(...)  -> str               (canonical decision + emitted attributes + input wiring)
"""
from __future__ import annotations

import math
import struct

import numpy as np
import onnx
import onnx.helper as oh
from onnx import TensorProto as TP

DT = {"f32": TP.FLOAT, "f16": TP.FLOAT16, "f64": TP.DOUBLE, "i64": TP.INT64, "i32": TP.INT32, "bf16": TP.BFLOAT16}
NP = {"f32": np.float32, "f16": np.float16, "f64": np.float64, "i64": np.int64, "i32": np.int32}
DTNUM = {"f32": 1, "f16": 10, "f64": 11, "i64": 7, "i32": 6, "bf16": 16}


def fbits(x: float) -> str:
    """IEEE-754 binary64 bits of a Python float, as decimal (Lean: Float.ofBits)."""
    return str(struct.unpack("<Q", struct.pack("<d", float(x)))[0])


def f32(x: float) -> float:
    return float(np.float32(x))


def dims_str(shape) -> str:
    """shape: None | list of (int | str | None) -> '2,sN,?' ; rank 0 -> '-' ; missing -> 'none'."""
    if shape is None:
        return "none"
    if len(shape) == 0:
        return "-"
    out = []
    for d in shape:
        if d is None:
            out.append("?")
        elif isinstance(d, str):
            out.append("s" + d)
        else:
            out.append(str(int(d)))
    return ",".join(out)


class G:
    """Tiny onnx.helper graph builder."""

    def __init__(self, opset: int = 18):
        self.nodes: list = []
        self.inputs: list = []
        self.outputs: list = []
        self.inits: list = []
        self.vinfo: list = []
        self.k = 0
        self.opset = opset
        self.domains = {"": opset}

    def fresh(self, hint="t"):
        self.k += 1
        return f"{hint}_{self.k}"

    def inp(self, name, dt, shape):
        self.inputs.append(oh.make_tensor_value_info(name, DT[dt], shape))
        return name

    def out(self, name, dt=None, shape=None):
        # dtype/shape are filled by shape inference; give elem type 0 -> use make_empty
        vi = onnx.ValueInfoProto()
        vi.name = name
        if dt is not None:
            vi.CopyFrom(oh.make_tensor_value_info(name, DT[dt], shape))
            if shape is None:
                vi.type.tensor_type.ClearField("shape")
        self.outputs.append(vi)
        return name

    def const(self, arr, name=None, as_init=False):
        arr = np.asarray(arr)
        name = name or self.fresh("c")
        t = onnx.numpy_helper.from_array(arr, name)
        if as_init:
            self.inits.append(t)
        else:
            self.nodes.append(oh.make_node("Constant", [], [name], value=t))
        return name

    def op(self, op_type, *ins, domain="", outs=1, name=None, **attrs):
        if isinstance(outs, int):
            onames = [name or self.fresh(op_type.lower())] if outs == 1 else [self.fresh(op_type.lower()) for _ in range(outs)]
        else:
            onames = list(outs)
        attrs = {k: v for k, v in attrs.items() if v is not None}
        self.nodes.append(oh.make_node(op_type, [("" if i is None else i) for i in ins], onames, domain=domain, **attrs))
        if domain:
            self.domains.setdefault(domain, 1)
        return onames[0] if len(onames) == 1 else onames

    def model(self) -> onnx.ModelProto:
        g = oh.make_graph(self.nodes, "g", self.inputs, self.outputs, initializer=self.inits, value_info=self.vinfo)
        m = oh.make_model(g, opset_imports=[oh.make_opsetid(d, v) for d, v in self.domains.items()], ir_version=10)
        return m


def infer(mp: onnx.ModelProto) -> onnx.ModelProto:
    return onnx.shape_inference.infer_shapes(mp, strict_mode=False, data_prop=True)


# --------------------------------------------------------------------------- ORT oracle

_ORT = None


def _ort():
    global _ORT
    if _ORT is None:
        import onnxruntime as ort

        ort.set_default_logger_severity(4)
        _ORT = ort
    return _ORT


def ort_run(mp: onnx.ModelProto, feeds: dict):
    ort = _ort()
    so = ort.SessionOptions()
    so.graph_optimization_level = ort.GraphOptimizationLevel.ORT_DISABLE_ALL
    so.log_severity_level = 4
    so.intra_op_num_threads = 1
    sess = ort.InferenceSession(mp.SerializeToString(), so, providers=["CPUExecutionProvider"])
    ro = ort.RunOptions()
    ro.log_severity_level = 4
    names = [i.name for i in sess.get_inputs()]
    return sess.run(None, {k: v for k, v in feeds.items() if k in names}, ro)


def tol(dt: str):
    return (1e-2, 1e-2) if dt in ("f16", "bf16") else (1e-4, 1e-4)


def compare(a_list, b_list, dt: str, scale: float = 1.0):
    """None if equal within tolerance, else a description."""
    rtol, atol = tol(dt)
    if len(a_list) != len(b_list):
        return f"output count {len(a_list)} vs {len(b_list)}"
    for i, (a, b) in enumerate(zip(a_list, b_list)):
        a = np.asarray(a)
        b = np.asarray(b)
        if a.shape != b.shape:
            return f"output {i}: shape {a.shape} vs {b.shape}"
        a64 = a.astype(np.float64)
        b64 = b.astype(np.float64)
        both_nan = np.isnan(a64) & np.isnan(b64)
        bad = ~(np.isclose(a64, b64, rtol=rtol, atol=atol * scale) | both_nan)
        if bad.any():
            j = int(np.argmax(np.abs(a64 - b64) * bad))
            return f"output {i}: max|diff|={float(np.abs(a64 - b64)[bad].max()):.4g} at flat {j}: {a64.reshape(-1)[j]:.6g} vs {b64.reshape(-1)[j]:.6g}"
    return None


# --------------------------------------------------------------------------- observation

FUSED_OPS = {
    "SimplifiedLayerNormalization", "SkipSimplifiedLayerNormalization", "SkipLayerNormalization", "FastGelu",
    "Gelu", "BiasGelu", "RotaryEmbedding", "SDPA", "MultiHeadAttention", "GroupQueryAttention", "Attention",
    "FusedMatMul", "GroupNorm", "Softmax",
}


def attr_str(a) -> str:
    import onnx_ir as ir

    v = a.value
    t = a.type
    if t == ir.AttributeType.FLOAT:
        return "f" + fbits(float(v))
    if t == ir.AttributeType.INT:
        return str(int(v))
    if t == ir.AttributeType.STRING:
        return "q" + str(v)
    if t == ir.AttributeType.INTS:
        return "[" + "/".join(str(int(x)) for x in v) + "]"
    if t == ir.AttributeType.FLOATS:
        return "[" + "/".join("f" + fbits(float(x)) for x in v) + "]"
    return "?" + str(t)


def observe(model, count, ops: set[str], known: set[str], top_domains=("", "com.microsoft", "ai.onnxruntime._fusion")) -> str:
    """`count=<n>` followed by one record per fused node (graph order):
    `Op@domain{k=v;...}(in1,in2,...)->nout`.  Input names not in `known` are shown as `@<producer op>`."""
    recs = []
    for n in model.graph:
        if n.op_type in ops:
            attrs = ";".join(f"{k}={attr_str(a)}" for k, a in sorted(n.attributes.items()))
            ins = []
            for v in n.inputs:
                if v is None:
                    ins.append("_")
                elif v.name in known:
                    ins.append(v.name)
                else:
                    p = v.producer()
                    ins.append("@" + (p.op_type if p is not None else "init"))
            nout = sum(1 for o in n.outputs if o.name != "")
            recs.append(f"{n.op_type}@{n.domain}{{{attrs}}}({','.join(ins)})->{len(n.outputs)}")
    return f"count={count} " + " ".join(recs) if recs else f"count={count}"


def load_ir(mp: onnx.ModelProto):
    import onnx_ir as ir

    return ir.serde.deserialize_model(mp)


def to_proto(model) -> onnx.ModelProto:
    import onnx_ir as ir

    return ir.serde.serialize_model(model)
