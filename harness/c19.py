"""C19 — ONNX Runtime fusions preserve numerical results.

Proof obligations: lean/OV/Props/C19.lean (models: OV.Model.C19Fusions, OV.Model.C19Core, OV.Model.C19Index;
lemmas OV.Lemmas.C19Shape, OV.Lemmas.C19Perm).  Tie: correspondence on the DECISION and the EMITTED ATTRIBUTES / input wiring:
for every generated pattern instance or near-miss (harness/c19_fams.py, built with onnx.helper over the
configuration space of each fusion) the real `fuse_*` entry point of /repo is run on the model and the
fused graph is canonicalised (`count=… Op@domain{attrs}(inputs)->nout`); the compiled Lean driver computes
the same line from the facts the rule reads (shapes, dtypes, constants, attributes, operand orders).
Translator: harness/c19_extract.py re-reads ort_fusions/_core.py (statement sequences of fuse_xformers / _pre_optimize /
optimize_for_ort, guards, keyword arguments, rule-list order; the isclose tolerances of sdpa.py; the rule order of
softmax.py) and regenerates OV/Gen/C19Core.lean before the obligations are checked (`core_tables_match_model`).
History: every case whose first application fired is fed back once to the same entry point (second-application
stream: counts vs driver `second <line>`, onnxruntime vs the ORIGINAL model).
Search / oracle: onnxruntime CPU (optimisations off) on the model before vs after the fusion and before vs
after `optimize_for_ort`, random inputs, rtol/atol by dtype.
"""
from __future__ import annotations

import json
import time
import traceback
from collections import Counter

import numpy as np
import onnx

from harness import c19_extract as X
from harness import c19_fams as F
from harness import c19_lib as L
from harness import core

PROP_MODULES = ["OV.Props.C19"]
CORPUS = core.VERIF / "harness" / "corpus_c19.jsonl"

# --------------------------------------------------------------------------- known-finding predicates


def fired(obs: str) -> bool:
    head = obs.split(" ")[0]
    return head.startswith("count=") and any(ch in "123456789" for ch in head)


def classify(c: dict, obs: str, detail: str) -> str | None:
    """Finding id whose *exact* predicate contains this failing case, else None."""
    fam = c["fam"]
    if fam == "biasgelu" and fired(obs):
        bias, other = (c["b_shape"], c["a_shape"]) if "(a,b)" in obs else (c["a_shape"], c["b_shape"])
        if len(bias) == 1 and (len(other) == 0 or bias[0] != other[-1]):
            return "C19-F1"
    if fam == "skip" and fired(obs) and ("rt_in" in c or "rt_skip" in c):
        if any(d is None for d in c["in_shape"]) and any(d is None for d in c["skip_shape"]):
            return "C19-F2"
    if fam == "fmm":
        i = c["inner"]
        if c["kind"] in ("t1", "t2") and i is not None and c.get("xrank", c["rank"]) != c.get("yrank", c["rank"]) \
                and ("transBatchA=1" in obs or "transBatchB=1" in obs):
            return "C19-F15"
        if c["kind"] == "mt" and i is not None and (i["transA"] or 0) != (i["transB"] or 0) and fired(obs):
            return "C19-F3"
        if c["kind"] in ("t1", "t2") and i is not None and c["rank"] == 2 and c["perm"] == [0, 1] and fired(obs):
            return "C19-F4"
        if c["kind"] in ("t1", "t2") and i is not None and c["perm"] is None and c["rank"] >= 3 and obs == "EXC":
            return "C19-F5"
        if c["kind"] == "div" and c["cst_const"] and len(c["cst_shape"]) >= 2 and obs == "EXC":
            return "C19-F9"
    if fam == "gelu" and c["form"] == "tanh" and fired(obs) and F.Gelu.consts(c)[0][0] != 3.0:
        return "C19-F8"
    if fam == "mha" and c.get("rotary") and c.get("rot_il") == 1 and c["Dh"] > 2 and "MultiHeadAttention" in obs:
        return "C19-F14"
    if fam == "gqa" and obs.startswith("count=1/1"):
        if c["miss"] == "mask_op":
            return "C19-F13"
        if c["Dh"] % 16 != 0:
            return "C19-F11"
    if fam == "mhab" and obs.split(" ")[0].endswith("/1") and c["qb"] and c["qb_shape"] != "D":
        return "C19-F12"
    if fam == "rms" and fired(obs):
        if c["scale_cast"] and c["sdt"] != c["tdt"] and ",scale)" in obs:
            return "C19-F6"
        if len(c["sshape"]) > len(c["xshape"]):
            return "C19-F7"
        if c["pow"] != 2.0:
            return "C19-F8"
        if c["eps_kind"] == "m11" and len(c["xshape"]) < 2:
            return "C19-F10"
    return None


# --------------------------------------------------------------------------- fixed findings = regression witnesses


def fixed_findings() -> list[dict]:
    """Entries of the `fixed` lists (known_findings.json and known_findings.d/*.json) for C19.  The model
    restates the REPAIRED rules; each fixed finding's witness is executed on every run, and pre-fix behaviour on
    the tree under test is a VIOLATION with that witness (a fixed entry suppresses nothing)."""
    out = []
    paths = [core.VERIF / "known_findings.json"] + sorted((core.VERIF / "known_findings.d").glob("*.json"))
    for p in paths:
        if not p.exists():
            continue
        for f in json.loads(p.read_text()).get("fixed", []):
            w = f.get("witness")
            # another property's fixed finding may list C19 as co-owner with a witness in ITS case format
            if "C19" in f.get("properties", [f.get("property")]) and isinstance(w, dict) and w.get("fam") in F.FAMILIES:
                out.append(f)
    return out


# --------------------------------------------------------------------------- branch coverage of the modelled code


def branches(c: dict, obs: str) -> list[str]:
    """Tags of the modelled branches a case exercises (family-specific knobs × outcome)."""
    fam = c["fam"]
    f = "fired" if fired(obs) and not obs.startswith("count=1/0/0") and obs not in ("count=1/0", "count=0/0") else "refused"
    t = [f"{fam}:{f}"]
    if fam == "rms":
        t += [f"rms:cast_in={int(c['cast_in'])}", f"rms:cast_out={int(c['cast_out'])}", f"rms:scale_cast={int(c['scale_cast'])}",
              f"rms:mul_order={int(c['mul_order'])}", f"rms:eps={c['eps_kind']}"]
        if c["scale_cast"] and c["sdt"] != c["tdt"]:
            t.append("rms:scale_cast_changes_type")
        if len(c["sshape"]) > len(c["xshape"]):
            t.append("rms:scale_rank_gt_x")
    elif fam == "skip":
        t += [f"skip:{c['kind']}:{c['has_bias']}:{f}", f"skip:order={c['add_order']}"]
        if any(d is None for d in c["in_shape"]):
            t.append("skip:unknown_dims")
        if any(isinstance(d, str) for d in c["in_shape"]):
            t.append("skip:symbolic_dims")
        if c.get("mag", 1.0) != 1.0 and c["dt"] == "f32":
            t.append("skip:low_magnitude_rows")
            if c["eps"] is None and f == "fired":
                t.append(f"skip:{c['kind']}:default_epsilon_on_low_magnitude_rows")
    elif fam == "gelu":
        t += [f"gelu:{c['form']}:{f}", f"gelu:pert={c['pert']}"]
    elif fam == "biasgelu":
        t.append("biasgelu:" + ("(a,b)" if "(a,b)" in obs else "(b,a)" if "(b,a)" in obs else "refused"))
    elif fam == "fmm":
        t += [f"fmm:{c['kind']}:{f}", f"fmm:perm={c['perm_kind']}"]
        if c.get("xrank", c["rank"]) != c.get("yrank", c["rank"]):
            t.append("fmm:mixed_rank")
            if c["perm"] is None:
                t.append("fmm:mixed_rank_permless")
                tr = c.get("xrank") if c["kind"] == "t1" else c.get("yrank") if c["kind"] == "t2" else None
                if tr is not None:
                    t.append(f"fmm:permless_{c['kind']}_transposed_rank{'2' if tr == 2 else 'ge3'}")
        if c["perm_kind"] == "bswap" and c["kind"] in ("t1", "t2") and len(c["perm"] or []) >= 4:
            i_ = c["inner"] or {}
            if not (i_.get("transBatchA") if c["kind"] == "t1" else i_.get("transBatchB")):
                t.append("fmm:batch_permuting_swap_on_basic_rule")
        if "transBatch" in obs and fired(obs) and (c["inner"] or {}).get("transBatchA") != 1 and (c["inner"] or {}).get("transBatchB") != 1:
            t.append("fmm:batch_rule_fired")
    elif fam == "rope":
        t += [f"rope:{obs.split(' ')[0]}", f"rope:pos_rank={c['pos_rank']}"]
        for k in ("partial", "expand", "pos_const"):
            if c.get(k):
                t.append(f"rope:{k}")
        if c.get("cast") == "f16":
            t.append("rope:cast16")
        if c["rd"] % 2:
            t.append("rope:odd")
    elif fam == "sdpa":
        t += [f"sdpa:kpat={c['kpat']}", f"sdpa:mask={int(c['mask'] != 'none')}", f"sdpa:scale_attr={int('scale=' in obs)}"]
    elif fam == "mha":
        t += [f"mha:{obs.split(' ')[0]}", f"mha:past={int(c['past'])}", f"mha:rotary={int(bool(c.get('rotary')))}", f"mha:cross={int(bool(c.get('cross')))}",
              "mha:mask=" + ("none" if c["mask"] == "none" else "expand" if "@Expand" in obs else "direct" if ",mask," in obs else "rejected")]
    elif fam == "pipe":
        t += [f"pipe:{c['q_proj']}", f"pipe:{obs.split(' ')[0]}"]
    elif fam == "gqa":
        t.append(f"gqa:miss={c['miss']}")
    elif fam == "shapeopt":
        t += [f"shapeopt:{obs.split(' ')[0]}", f"shapeopt:slice_inputs={c['n_in']}", f"shapeopt:steps={c['steps']}"]
        if fired(obs):
            t.append("shapeopt:" + obs.split(" ")[1].split("(")[0])
    elif fam in ("pqkv", "attn", "i2g", "mhab", "softmax"):
        t.append(f"{fam}:{obs.split(' ')[0]}")
        if fam == "mhab" and c["pre_scale"] is not None and c["scale_const"]:
            # FuseMHAScale.check since a202620: a node that already has a bias input is refused (both ways required)
            t.append("mhab:mha_scale:" + ("bias_present" if c.get("bias0") else "bias_absent") + ":"
                     + ("fired" if obs.startswith("count=1/") else "refused"))
    return t


REQUIRED_BRANCHES = [
    "rms:fired", "rms:refused", "rms:cast_in=1", "rms:cast_out=1", "rms:scale_cast=1", "rms:mul_order=0", "rms:mul_order=1",
    "rms:scale_cast_changes_type", "rms:scale_rank_gt_x", "rms:eps=m11", "rms:eps=input",
    "skip:layer:none:fired", "skip:layer:pre:fired", "skip:layer:post:fired", "skip:rms:none:fired", "skip:rms:pre:fired",
    "skip:rms:post:fired", "skip:symbolic_dims", "skip:unknown_dims", "skip:low_magnitude_rows", "skip:layer:default_epsilon_on_low_magnitude_rows",
    "gelu:tanh:fired", "gelu:erf:fired", "gelu:eg1:fired", "gelu:eg2:fired", "gelu:pert=tol", "gelu:pert=far",
    "biasgelu:(a,b)", "biasgelu:(b,a)", "biasgelu:refused", "softmax:count=1", "softmax:count=0",
    "fmm:div:fired", "fmm:mt:fired", "fmm:t1:fired", "fmm:t2:fired", "fmm:t1:refused", "fmm:t2:refused", "fmm:mixed_rank",
    "fmm:mixed_rank_permless", "fmm:permless_t1_transposed_rank2", "fmm:permless_t1_transposed_rankge3",
    "fmm:permless_t2_transposed_rank2", "fmm:permless_t2_transposed_rankge3", "fmm:batch_rule_fired", "fmm:perm=bswap", "fmm:perm=none",
    "rope:count=1/1/0", "rope:count=1/1/1", "rope:count=1/0/0", "rope:count=0/0/0", "rope:cast16", "rope:pos_const",
    "rope:pos_rank=1", "rope:odd", "rope:expand",
    "sdpa:kpat=1", "sdpa:kpat=2", "sdpa:kpat=3", "sdpa:mask=1", "sdpa:scale_attr=0", "sdpa:scale_attr=1",
    "mha:count=1/1/0", "mha:count=1/0/1", "mha:count=1/0/0", "mha:rotary=1", "mha:cross=1", "mha:mask=expand", "mha:mask=direct",
    "mha:mask=rejected",
    "pipe:none", "pipe:scale", "pipe:bias", "pipe:scale_bias", "pipe:bias_scale", "pipe:count=1/0/0/0/0",
    "gqa:fired", "gqa:refused", "gqa:miss=il_both", "gqa:miss=mask_op",
    "shapeopt:count=1", "shapeopt:count=0", "shapeopt:slice_inputs=3", "shapeopt:slice_inputs=4",
    "shapeopt:slice_inputs=5", "shapeopt:steps=2", "shapeopt:steps=-1", "shapeopt:Identity", "shapeopt:Concat",
    "shapeopt:Constant",
    "pqkv:count=1", "pqkv:count=0", "attn:count=1", "attn:count=0", "i2g:count=1", "i2g:count=0",
    "mhab:count=1/1", "mhab:count=0/1", "mhab:count=1/0", "mhab:count=0/0",
    # second-application stream: every family's fused output is fed back once; pipe with each query form
    "second:rms:fixpoint", "second:skip:fixpoint", "second:gelu:fixpoint", "second:biasgelu:fixpoint", "second:softmax:fixpoint",
    "second:fmm:fixpoint", "second:rope:fixpoint", "second:rope:fired", "second:sdpa:fixpoint", "second:mha:fixpoint",
    "second:i2g:fixpoint", "second:attn:fixpoint", "second:gqa:fixpoint", "second:pqkv:fixpoint", "second:mhab:fixpoint",
    "second:shapeopt:fixpoint", "second:pipe:fixpoint",
    "mhab:mha_scale:bias_absent:fired", "mhab:mha_scale:bias_present:refused",
    "second:pipe:none", "second:pipe:scale", "second:pipe:bias", "second:pipe:scale_bias", "second:pipe:bias_scale",
]


# --------------------------------------------------------------------------- one case


def shapes_of(mp: onnx.ModelProto) -> dict:
    out = {}
    for vi in list(mp.graph.input) + list(mp.graph.value_info) + list(mp.graph.output):
        tt = vi.type.tensor_type
        if not tt.HasField("shape"):
            out[vi.name] = None
            continue
        dims = []
        for d in tt.shape.dim:
            if d.HasField("dim_value"):
                dims.append(int(d.dim_value))
            elif d.HasField("dim_param") and d.dim_param:
                dims.append(d.dim_param)
            else:
                dims.append(None)
        out[vi.name] = dims
    return out


def is_no_kernel(msg: str) -> bool:
    return "NOT_IMPLEMENTED" in msg or "is not a registered function/op" in msg


def run_case(c: dict, nrng, stats: Counter, numeric: bool = True, e2e: bool = False):
    """Returns dict(line, obs, res, res_e2e) — `res`: 'ok' | 'skip:<why>' | 'FAIL:<what>'."""
    fam = F.FAMILIES[c["fam"]]
    mp = L.infer(fam.build(c))
    shapes = shapes_of(mp)
    try:
        line = fam.line(c, shapes)
    except TypeError:
        line = fam.line(c)
    model = L.load_ir(mp)
    known = {v.name for v in mp.graph.input}
    try:
        cnt = fam.fuse(model)
        obs = fam.observe(model, cnt) if hasattr(fam, "observe") else L.observe(model, cnt, fam.ops, known)
        if not fired(obs) or (getattr(fam, "key_op", None) and fam.key_op not in obs):
            obs = obs.split(" ")[0]  # nothing (or not the family's own rule) fired: only the counts are compared
        if hasattr(fam, "canon"):
            obs = fam.canon(c, obs)
    except Exception as e:  # the rewriter raised: neither "unchanged" nor "fused"
        obs = "EXC"
        stats["fuse_raised"] += 1
    out = {"line": line, "obs": obs, "res": "skip:not-run", "res_e2e": "skip:not-run"}
    if not numeric:
        return out
    feeds = fam.feeds(c, nrng)
    if "rt_in" in c:
        feeds["input"] = F.rand_arr(nrng, c["rt_in"], c["dt"])
    if "rt_skip" in c:
        feeds["skip"] = F.rand_arr(nrng, c["rt_skip"], c["dt"])
    if hasattr(fam, "extra_feeds"):
        feeds.update(fam.extra_feeds(c, mp))
    try:
        ref = L.ort_run(mp, feeds)
    except Exception as e:
        stats["orig_not_runnable"] += 1
        out["res"] = out["res_e2e"] = "skip:original-not-runnable"
        return out
    dt = fam.out_dt(c)
    if obs == "EXC":
        out["res"] = "FAIL:the fusion raised an exception on a model onnxruntime runs"
    elif fired(obs):
        try:
            if hasattr(fam, "post"):
                fam.post(model)
            fused_proto = L.to_proto(model)
            got = L.ort_run(fused_proto, feeds)
            d = L.compare(ref, got, dt)
            if d is not None and dt == "f16" and "shape" not in d and "count" not in d:
                # float16: one ill-conditioned sample (e.g. LayerNorm over two nearly equal values) is not a
                # defect; a changed computation fails on fresh inputs too.  Only a reproducible mismatch counts.
                again = 0
                for _ in range(3):
                    f2 = fam.feeds(c, nrng)
                    if hasattr(fam, "extra_feeds"):
                        f2.update(fam.extra_feeds(c, mp))
                    if L.compare(L.ort_run(mp, f2), L.ort_run(fused_proto, f2), dt) is not None:
                        again += 1
                stats["f16_retried"] += 1
                if again < 2:
                    stats["f16_ill_conditioned_sample"] += 1
                    d = None
            out["res"] = "ok" if d is None else "FAIL:" + d
            stats["numeric_compared"] += 1
        except Exception as e:
            msg = str(e)
            if is_no_kernel(msg):
                out["res"] = "skip:decision-only (no CPU kernel)"
                stats["decision_only_no_kernel"] += 1
            else:
                out["res"] = "FAIL:fused model rejected by onnxruntime: " + msg[:260].replace("\n", " ")
    else:
        out["res"] = "ok"
        stats["unchanged"] += 1
    if fired(obs) and obs != "EXC" and not out["res"].startswith("FAIL"):
        second_application(fam, c, model, mp, feeds, ref, dt, out, stats, nrng)
    if e2e:
        out["res_e2e"] = run_e2e(mp, feeds, ref, dt, stats)
    return out


def second_application(fam, c, model, mp, feeds, ref, dt, out, stats, nrng) -> None:
    """History stream: the SAME entry point once more on the model it has just fused (re-used rule objects, a fused
    node as input).  Tied: the counts of the second call (`C19 second <line>`); oracle: onnxruntime on the twice-fused
    model vs the ORIGINAL model's outputs, whenever the second call changed anything."""
    try:
        cnt2 = fam.fuse(model)
    except Exception as e:
        out["obs2"] = "EXC"
        out["res2"] = "FAIL:the second application raised " + type(e).__name__ + ": " + str(e)[:160].replace("\n", " ")
        stats["second:raised"] += 1
        return
    out["obs2"] = str(cnt2).split(" ")[0]  # some families append wiring details to their counts
    stats["second:runs"] += 1
    if not fired(f"count={cnt2}"):
        out["res2"] = "ok"
        return
    stats["second:fired"] += 1
    try:
        if hasattr(fam, "post"):
            fam.post(model)
        proto2 = L.to_proto(model)
        d = L.compare(ref, L.ort_run(proto2, feeds), dt)
        if d is not None and dt == "f16" and "shape" not in d and "count" not in d:
            again = 0
            for _ in range(3):
                f2 = fam.feeds(c, nrng)
                if hasattr(fam, "extra_feeds"):
                    f2.update(fam.extra_feeds(c, mp))
                if L.compare(L.ort_run(mp, f2), L.ort_run(proto2, f2), dt) is not None:
                    again += 1
            if again < 2:
                d = None
        out["res2"] = "ok" if d is None else "FAIL:second application: " + d
        stats["second:numeric_compared"] += 1
    except Exception as e:
        msg = str(e)
        if is_no_kernel(msg):
            out["res2"] = "skip:decision-only (no CPU kernel)"
        else:
            out["res2"] = "FAIL:twice-fused model rejected by onnxruntime: " + msg[:260].replace("\n", " ")


def run_e2e(mp, feeds, ref, dt, stats) -> str:
    from onnxscript.rewriter.ort_fusions import optimize_for_ort

    m = L.load_ir(mp)
    try:
        m, counts = optimize_for_ort(m)
    except Exception as e:
        return "FAIL:optimize_for_ort raised " + type(e).__name__ + ": " + str(e)[:160].replace("\n", " ")
    stats["e2e_runs"] += 1
    if any(counts.values()):
        stats["e2e_with_fusion"] += 1
    try:
        got = L.ort_run(L.to_proto(m), feeds)
    except Exception as e:
        msg = str(e)
        if is_no_kernel(msg):
            stats["e2e_decision_only"] += 1
            return "skip:decision-only (no CPU kernel)"
        return "FAIL:optimize_for_ort output rejected by onnxruntime: " + msg[:260].replace("\n", " ")
    d = L.compare(ref, got, dt)
    return "ok" if d is None else "FAIL:optimize_for_ort: " + d


# --------------------------------------------------------------------------- repo model builders (searched only)


def repo_models(stats: Counter, nrng, tier: str):
    """optimize_for_ort on the repo's own small test models (decision + ORT numerics; no Lean model)."""
    problems = []
    import importlib

    names = ["_smollm_1", "_rotary_embedding_models"]
    if tier == "thorough":
        names += ["_smollm_2", "_whisper_encoder", "_whisper_decoder", "_phi2lm"]
    for modname in names:
        try:
            mod = importlib.import_module(f"onnxscript.rewriter.models.{modname}")
        except Exception:
            continue
        makers = [getattr(mod, n) for n in dir(mod) if n.endswith("test") or n.startswith("test_case") or n.endswith("_test_case")]
        for mk in makers:
            try:
                tc = mk()
                model = tc.get_onnx_model()
                inputs = tc.get_ort_inputs()
            except Exception:
                continue
            from onnxscript.rewriter.ort_fusions import optimize_for_ort
            from onnxscript.rewriter.ort_fusions._test_utils import ort_run as repo_ort_run

            try:
                ref = repo_ort_run("orig", model, inputs)
                m2, counts = optimize_for_ort(model)
                got = repo_ort_run("opt", m2, inputs)
            except Exception as e:
                msg = str(e)
                if is_no_kernel(msg):
                    stats["repo_decision_only"] += 1
                    continue
                problems.append(({"fam": "repo", "model": f"{modname}.{mk.__name__}"}, "EXC", "FAIL:" + msg[:200]))
                continue
            stats["repo_models"] += 1
            stats["repo_fusions"] += sum(counts.values())
            d = L.compare(ref, got, "f32", scale=10.0)
            if d is not None:
                problems.append(({"fam": "repo", "model": f"{modname}.{mk.__name__}"}, str(counts), "FAIL:" + d))
    return problems


# --------------------------------------------------------------------------- translator: _core.py -> OV/Gen/C19Core.lean


def regen_core_table(run: core.Run):
    """Re-read `_core.py` (+ the isclose tolerances of sdpa.py, the rule order of softmax.py) from the tree under
    test and regenerate OV/Gen/C19Core.lean; `core_tables_match_model` (decide +kernel) is then re-checked by `prove`."""
    try:
        data = X.extract(core.REPO)
    except (OSError, SyntaxError) as e:
        raise core.Infra(f"c19_extract: cannot read ort_fusions/_core.py: {e}") from e
    gen = core.LEAN / "OV" / "Gen" / "C19Core.lean"
    changed = False
    if not (gen.exists() and gen.read_text() == X.emit_lean(data)):
        with core.lake_lock():
            _, changed = X.write_lean(data, core.LEAN)
    run.coverage["core_table"] = {
        "digest": X.digest(data),
        "regenerated_file_changed": changed,
        "rows": {k: len(v) for k, v in data.items()},
        "stage_keys": [k for g, k, _ in data["fuseXformersSteps"] if k and not g.startswith("if:")],
        "unrecognised_statements": [c for rows in (data["fuseXformersSteps"], data["preOptimizeSteps"], data["optimizeForOrtSteps"])
                                    for _, _, c in rows if c.startswith("?")],
    }
    return data, changed


def core_table_diff(drv, data: dict) -> list[str]:
    """Row-by-row difference between the extracted tables and what the model assumes (driver `C19 coretable`) —
    the same comparison `core_tables_match_model` makes inside Lean, repeated here to NAME the differing row."""
    keys = ["fuseXformersSteps", "preOptimizeSteps", "optimizeForOrtSteps", "ortPatternRules", "sdpaDefaultScaleTest", "softmaxRuleOrder"]
    outs = drv.ask([f"coretable which={k}" for k in keys])
    if any(o.startswith("ERR:") for o in outs):
        raise core.Infra("drv_c19 does not know `coretable` (stale driver binary): rebuild drv_c19")
    diffs = []
    for k, o in zip(keys, outs):
        model_rows = [r for r in o.split("¶")] if o else []
        src_rows = [r if isinstance(r, str) else "§".join(r) for r in data[k]]
        for n in range(max(len(model_rows), len(src_rows))):
            a = src_rows[n] if n < len(src_rows) else "<absent>"
            b = model_rows[n] if n < len(model_rows) else "<absent>"
            if a != b:
                diffs.append(f"{k}[{n}]: source `{a.replace('§', ' | ')}` vs model `{b.replace('§', ' | ')}`")
    return diffs


# --------------------------------------------------------------------------- main


def main(run: core.Run) -> None:
    run.assumptions += [
        "floating point: the theorems are over an ordered field with abstract sqrt/exp/erf/tanh; float16/float32 "
        "rounding and the ORT contrib kernels are only OBSERVED through onnxruntime 1.30 CPU (rtol=atol=1e-4 f32, 1e-2 f16)",
        "contrib ops without a CPU kernel in the installed onnxruntime (GroupNorm; SimplifiedLayerNormalization for "
        "mixed double/float) are decision-only: decision and attributes are tied to the model, numerics are not run",
        "math.isclose decisions (pattern float literals, SDPA default scale): the theorems are about the same generic "
        "definition at an ordered field (exact arithmetic); IEEE rounding inside the test is not modelled",
        "the stage order of _core.py is re-read from the source on every run (translator); what each stage does is tied by "
        "correspondence per family, not derived from the source",
        "A-ir: onnx_ir serde / shape inference / the optimizer passes inside optimize_for_ort are third-party or other "
        "properties' subjects; they are executed, not modelled",
    ]
    import logging

    logging.disable(logging.CRITICAL)  # onnx_ir logs every failed shape inference of a near-miss with a traceback
    core_data, core_changed = regen_core_table(run)
    audit = run.prove(PROP_MODULES)
    gen_now = core.LEAN / "OV" / "Gen" / "C19Core.lean"
    if not audit["ok"] and (not gen_now.exists() or gen_now.read_text() != X.emit_lean(core_data)):
        # the generated table follows the tree under test; a concurrent run against ANOTHER tree replaced it between
        # our regeneration and our build: what was built is not what this run extracted
        raise core.Infra("OV/Gen/C19Core.lean was rewritten by a concurrent C19 run on another tree; re-run")
    drv = core.Driver("C19")
    core_diff = core_table_diff(drv, core_data)
    run.coverage["core_table"].update(rows_differing_from_model=len(core_diff), first_difference=(core_diff or [None])[0])
    stats: Counter = Counter()
    nrng = np.random.default_rng(run.seed + 12345)
    if run.replay_path:
        body = json.loads(open(run.replay_path).read())
        c = body["case"]["case"]
        r = run_case(c, nrng, stats, numeric=True, e2e=True)
        m = drv.ask([r["line"]])[0]
        print(f"REPLAY line: {r['line']}\n  impl : {r['obs']}\n  model: {m}\n  numeric: {r['res']}\n  optimize_for_ort: {r['res_e2e']}")
        m2 = None
        if "obs2" in r:
            m2 = drv.ask(["second " + r["line"]])[0]
            print(f"  second application: impl counts {r['obs2']} :: model {m2} :: numeric {r.get('res2')}")
        if (m != r["obs"] or r["res"].startswith("FAIL") or r["res_e2e"].startswith("FAIL") or str(r.get("res2", "ok")).startswith("FAIL")
                or (m2 not in (None, "*") and m2 != r["obs2"])):
            run.violation({"case": c, "impl": r["obs"], "model": m, "numeric": r["res"], "second": r.get("res2")}, "replayed case still fails")
        run.coverage.update(evaluations=1, distinct_nontrivial=1)
        return

    per_fam = run.size(110, 2500)
    e2e_every = run.size(6, 4)
    cases: list[dict] = []
    if CORPUS.exists():
        cases += [json.loads(l) for l in CORPUS.read_text().splitlines() if l.strip()]
    fixed = fixed_findings()
    seen_w = {json.dumps(c, sort_keys=True) for c in cases}
    for f in fixed:
        if json.dumps(f["witness"], sort_keys=True) not in seen_w:
            cases.append(f["witness"])
    fixed_by_witness = {json.dumps(f["witness"], sort_keys=True): f["id"] for f in fixed}
    run.coverage["fixed_findings_regression_witnesses"] = sorted(fixed_by_witness.values())
    n_corpus = len(cases)
    for name, fam in F.FAMILIES.items():
        got = 0
        tries = 0
        # families whose model has many small branches get more (cheap) cases; gqa's script builder is ~10x slower
        want = min(per_fam, 600) if name == "gqa" else int(per_fam * {"fmm": 2.0, "skip": 1.5, "rms": 1.3}.get(name, 1.0))
        while got < want and tries < want * 6:
            tries += 1
            c = fam.gen(run.rng)
            if hasattr(fam, "valid") and not fam.valid(c):
                stats[f"{name}:invalid_cfg"] += 1
                continue
            cases.append(c)
            got += 1

    tie_broken, prop_fail = [], []
    branch_hits: Counter = Counter()
    results = []
    lines = []
    t_impl = time.time()
    for k, c in enumerate(cases):
        try:
            r = run_case(c, nrng, stats, numeric=True, e2e=(k % e2e_every == 0 or getattr(F.FAMILIES[c['fam']], 'always_e2e', False)))
        except Exception as e:
            stats[f"{c['fam']}:build_error"] += 1
            if stats[f"{c['fam']}:build_error"] <= 2:
                traceback.print_exc()
            continue
        results.append((c, r))
        lines.append(r["line"])
    stats["impl_seconds"] = int(time.time() - t_impl)
    outs = drv.ask(lines)
    idx2 = [k for k, (c, r) in enumerate(results) if "obs2" in r]
    outs2 = dict(zip(idx2, drv.ask(["second " + results[k][1]["line"] for k in idx2]))) if idx2 else {}
    second_broken = []
    for k, (c, r) in enumerate(results):
        if k in outs2:
            m2 = outs2[k]
            branch_hits[f"second:{c['fam']}:" + ("fired" if fired("count=" + r["obs2"]) else "fixpoint")] += 1
            if c["fam"] == "pipe" and not c.get("mask1d"):
                branch_hits[f"second:pipe:{c['q_proj']}"] += 1
            if m2 != "*" and m2 != r["obs2"]:
                second_broken.append((c, r, m2))
            if r.get("res2", "ok").startswith("FAIL"):
                prop_fail.append((c, r, "res2"))
    for (c, r), m in zip(results, outs):
        fam = c["fam"]
        stats[f"{fam}:cases"] += 1
        stats[f"{fam}:fired" if fired(r["obs"]) else f"{fam}:not_fired"] += 1
        stats[f"{fam}:" + r["obs"].split(" ")[0]] += 1
        for tag in branches(c, r["obs"]):
            branch_hits[tag] += 1
        if m != r["obs"]:
            tie_broken.append((c, r, m))
        for key in ("res", "res_e2e"):
            if r[key].startswith("FAIL"):
                prop_fail.append((c, r, key))
        if len(run.samples) < 8 and fired(r["obs"]) and stats[f"{fam}:sampled"] < 1:
            stats[f"{fam}:sampled"] += 1
            run.sample({"line": r["line"], "impl": r["obs"], "model": m, "numeric": r["res"]})

    repo_problems = repo_models(stats, nrng, run.tier)

    # ---- regression: a fixed finding's witness must behave as the repaired rule says (tie) and pass the oracle
    regressed = []
    for (c, r), m in zip(results, outs):
        fid = fixed_by_witness.get(json.dumps(c, sort_keys=True))
        if fid and (m != r["obs"] or r["res"].startswith("FAIL") or r["res_e2e"].startswith("FAIL")
                    or str(r.get("res2", "ok")).startswith("FAIL")):
            regressed.append((fid, c, r, m))
    for fid, c, r, m in regressed:
        run.violation(
            {"case": c, "line": r["line"], "impl": r["obs"], "model": m, "numeric": r["res"], "finding": fid},
            f"fixed finding {fid} is back: its witness shows the pre-fix behaviour: {r['line']} :: impl {r['obs']} "
            f":: model {m} :: {r['res']}" + (f" :: {r['res2']}" if str(r.get("res2", "ok")).startswith("FAIL") else ""),
        )

    # ---- verdict
    findings = {f["id"]: f for f in run.open_findings()}
    known_counts: Counter = Counter()
    real_fail = []
    for c, r, key in prop_fail:
        fid = classify(c, r["obs"], r[key])
        if fid and fid in findings:
            known_counts[fid] += 1
            if known_counts[fid] == 1:
                run.known(fid, f"{r['line']} :: {r['obs']} :: {r[key][5:]}")
        else:
            real_fail.append((c, r, key))
    for c, obs, res in repo_problems:
        real_fail.append((c, {"line": json.dumps(c), "obs": obs, "res": res, "res_e2e": res}, "res"))
    for fid, n in known_counts.items():
        stats[f"known_{fid}"] = n
    missing = [fid for fid in findings if known_counts[fid] == 0]
    if missing:
        stats["known_findings_not_reproduced"] = len(missing)
        run.coverage["known_findings_not_reproduced"] = missing

    if real_fail:
        real_fail.sort(key=lambda t: len(t[1]["line"]))
        c, r, key = real_fail[0]
        run.violation(
            {"case": c, "line": r["line"], "impl": r["obs"], "detail": r[key], "others": len(real_fail) - 1},
            f"fusion changes what onnxruntime returns ({'optimize_for_ort' if key == 'res_e2e' else 'fuse_*'}): "
            f"{r['line']} :: {r['obs']} :: {r[key][5:]}",
        )
    if tie_broken:
        groups = Counter((t[0]["fam"], t[1]["obs"].split(" ")[0], t[2].split(" ")[0]) for t in tie_broken)
        run.coverage["tie_disagreements"] = {str(k): v for k, v in groups.items()}
        import os

        if os.environ.get("C19_DEBUG"):
            print(run.coverage["tie_disagreements"])
            seen_g = Counter()
            for c, r, m in tie_broken:
                gk = (c["fam"], r["obs"].split(" ")[0], m.split(" ")[0])
                seen_g[gk] += 1
                if seen_g[gk] > 3:
                    continue
                print("TIE", r["line"], "\n    impl ", r["obs"], "\n    model", m, "\n    ", json.dumps(c))
    if second_broken:
        run.coverage["second_application_disagreements"] = dict(Counter(f"{t[0]['fam']}: impl {t[1]['obs2']} vs model {t[2]}" for t in second_broken))
    if real_fail:
        pass
    elif second_broken and not tie_broken:
        second_broken.sort(key=lambda t: len(t[1]["line"]))
        c, r, m2 = second_broken[0]
        run.violation(
            {"case": c, "line": r["line"], "impl_first": r["obs"], "impl_second": r["obs2"], "model_second": m2,
             "numeric_second": r.get("res2"),
             "broken": f"correspondence `C19 second {c['fam']}` vs a second {c['fam']} fuse call on the fused model ({len(second_broken)} disagreeing cases)"},
            f"second application ({c['fam']}): the real code reports counts {r['obs2']} on its own output, the model {m2}: "
            f"{r['line']}; numeric oracle on the disagreeing cases: {Counter(str(t[1].get('res2', 'ok')).split(':')[0] for t in second_broken)}",
            no_input=True,
        )
    elif tie_broken:
        # search: every tie-broken case was also executed numerically above; none failed the oracle
        tie_broken.sort(key=lambda t: len(t[1]["line"]))
        c, r, m = tie_broken[0]
        run.violation(
            {"case": c, "line": r["line"], "impl": r["obs"], "model": m, "numeric": r["res"],
             "broken": f"correspondence OV.C19.{c['fam']} vs /repo fuse_* ({len(tie_broken)} disagreeing cases)"},
            f"correspondence broken ({c['fam']}): {r['line']} :: impl {r['obs']} :: model {m}; numeric oracle on the "
            f"disagreeing cases: {Counter(t[1]['res'].split(':')[0] for t in tie_broken)}",
            no_input=True,
        )
    if core_diff and not real_fail:
        # the order / constants of _core.py are no longer the ones the model and its theorems assume; every stream
        # above (pipe / rope / shapeopt / e2e run the real fuse_xformers and optimize_for_ort) found no failing input
        run.violation(
            {"broken": "OV.Props.C19.core_tables_match_model (translator: ort_fusions/_core.py, sdpa.py, softmax.py)",
             "differences": core_diff[:12]},
            "the stage order / constants read from the source differ from the model's: " + "; ".join(core_diff[:3]),
            no_input=True,
        )
    if not audit["ok"]:
        run.violation(
            {"broken": "proof obligations of OV.Props.C19", "problems": audit["problems"], "log": audit["build_log"][-1500:]},
            "Lean proof obligations for C19 do not check: " + "; ".join(audit["problems"][:3]),
            no_input=True,
        )

    total = len(results)
    nontrivial = len({r["line"] for _, r in results})
    run.coverage.update(
        evaluations=total,
        distinct_nontrivial=nontrivial,
        rule="distinct driver lines (family + every fact the rule reads); each case is run through the real fuse_* "
        "entry point, the compiled Lean model, and onnxruntime before/after",
        traces_validated_against_impl=total,
        distribution=dict(sorted(stats.items())),
        corpus_cases=n_corpus,
        exhaustive=False,
    )
    run.coverage["branch_hits"] = dict(sorted(branch_hits.items()))
    missing_br = [t for t in REQUIRED_BRANCHES if branch_hits[t] == 0]
    run.coverage["required_branches"] = {"required": len(REQUIRED_BRANCHES), "hit": len(REQUIRED_BRANCHES) - len(missing_br),
                                         "missing": missing_br}
    if missing_br and not run.violations:
        # a generator that stopped reaching a modelled branch must not pass silently (never masks a violation)
        raise core.Infra(f"generator degenerated: required branches never hit: {missing_br[:8]}")
    for name in F.FAMILIES:
        n = stats[f"{name}:cases"]
        if n == 0:
            raise core.Infra(f"generator degenerated: family {name} produced no case")
        heads = [k for k in stats if k.startswith(f"{name}:count=")]
        if len(heads) < 2:
            raise core.Infra(f"generator degenerated: family {name} only ever produced {heads}")
        if stats[f"{name}:build_error"] > 0.3 * (n + stats[f"{name}:build_error"]):
            raise core.Infra(f"generator degenerated: family {name} >30% build errors")
