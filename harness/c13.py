"""C13 — ONNX -> Python (proto2python) -> ONNX round-trips to an equivalent model.

Proof obligations: lean/OV/Props/C13.lean (model: lean/OV/Model/C13Export.lean).
Tie: correspondence.  For every generated proto x option tuple the real `onnxscript.proto2python`
is run in-process; its text is parsed with `ast` into a canonical program (signature, one line per
statement with nesting depth, every name as printed) and compared with the program the Lean model
`exportModel`/`exportFunction` produces for the same proto (or the exception class with the model's
refusal).  `_cleanup_variable_name` is additionally compared on a character-level stream.
Oracle (the property itself): `compile()`, exec of the text from a real file, `to_model_proto()`,
same inputs/outputs, and onnxruntime equality original vs round-tripped on 3 inputs.
"""
from __future__ import annotations

import base64
import json
import shutil
import tempfile
import time
from collections import Counter

import numpy as np
import onnx
from onnx import TensorProto as TP
from onnx import helper as H
from onnx import numpy_helper

from harness import c13_gen as GEN
from harness import c13_lib as L
from harness import core, scriptgen

PROP_MODULES = ["OV.Props.C13"]

# --------------------------------------------------------------------------- independent helpers

KW = {
    "False", "None", "True", "and", "as", "assert", "async", "await", "break", "class", "continue", "def", "del",
    "elif", "else", "except", "finally", "for", "from", "global", "if", "import", "in", "is", "lambda", "nonlocal",
    "not", "or", "pass", "raise", "return", "try", "while", "with", "yield",
}  # fmt: skip


def py_norm(name: str) -> str:
    """The collision class representative of a name (used only for the D14 predicate)."""
    if name in KW:
        return "r_" + name
    if not (name[0].isalpha() or name[0] == "_"):
        name = "__" + name
    return "".join(c if (c.isalnum() or c == "_") else "_" for c in name)


def graph_names(g: onnx.GraphProto, acc: set):
    acc.update(i.name for i in g.input)
    acc.update(o.name for o in g.output)
    acc.update(t.name for t in g.initializer)
    for n in g.node:
        node_names(n, acc)


def node_names(n: onnx.NodeProto, acc: set):
    acc.update(x for x in n.input if x)
    acc.update(x for x in n.output if x)
    for a in n.attribute:
        if a.HasField("g"):
            graph_names(a.g, acc)


def all_names(proto) -> set:
    acc: set = set()
    if isinstance(proto, onnx.ModelProto):
        graph_names(proto.graph, acc)
    else:
        acc.update(proto.input)
        acc.update(proto.output)
        for n in proto.node:
            node_names(n, acc)
    return acc


def walk_nodes(nodes):
    for n in nodes:
        yield n
        for a in n.attribute:
            if a.HasField("g"):
                yield from walk_nodes(a.g.node)


def top_nodes(proto):
    return proto.graph.node if isinstance(proto, onnx.ModelProto) else proto.node


def inlinable(t: onnx.TensorProto) -> bool:
    if t.data_type not in (TP.FLOAT, TP.INT64) or 0 in t.dims:
        return False
    if not (len(t.dims) == 0 or (len(t.dims) == 1 and t.dims[0] < 5)):
        return False
    return bool(L.tensor_finite(t))


# dtypes `generate_rand` accepts since 7dcad6a (FLOAT, INT8, FLOAT16, DOUBLE, the integer types, BOOL)
RAND_OK = (TP.FLOAT, TP.INT8, TP.FLOAT16, TP.DOUBLE, TP.UINT8, TP.UINT16, TP.INT16, TP.INT32, TP.INT64, TP.UINT32,
           TP.UINT64, TP.BOOL)  # fmt: skip


def facts(proto, opts) -> dict:
    """Facts about (proto, options) the known-finding predicates are stated over."""
    names = all_names(proto)
    imports = proto.opset_import
    aliases = {("opset" if i.domain in ("", "ai.onnx") else py_norm(i.domain)) + str(i.version) for i in imports}
    norm = Counter(py_norm(n) for n in names)
    f: dict = {"collide": any(v > 1 for v in norm.values())}
    consts: dict[str, onnx.TensorProto] = {}
    for n in walk_nodes(top_nodes(proto)):
        if n.op_type == "Constant" and n.attribute and n.attribute[0].HasField("t") and inlinable(n.attribute[0].t):
            consts[n.output[0]] = n.attribute[0].t
    init_bad = False
    big_nonfloat = False
    has_big = False
    if isinstance(proto, onnx.ModelProto):
        for t in proto.graph.initializer:
            size = int(np.prod(list(t.dims))) if t.dims else 1
            if opts["skip_initializers"] and size > 4:
                has_big = True
                if t.data_type not in RAND_OK:
                    big_nonfloat = True
                continue
            if inlinable(t):
                consts[t.name] = t
    nonref: set = set()

    def visit_graph_outputs(g):
        nonref.update(o.name for o in g.output)

    if isinstance(proto, onnx.ModelProto):
        visit_graph_outputs(proto.graph)
    else:
        nonref.update(proto.output)
    has_loop = False
    pow_neg = False
    for n in walk_nodes(top_nodes(proto)):
        for a in n.attribute:
            if a.HasField("g"):
                visit_graph_outputs(a.g)
        if n.op_type == "Loop":
            has_loop = True
            nonref.update(x for x in n.input if x)
        if n.op_type == "Pow" and n.input[0] in consts and len(consts[n.input[0]].dims) == 0:
            v = numpy_helper.to_array(consts[n.input[0]]).reshape(1)[0]
            if str(v).startswith("-"):
                pow_neg = True
    used: set = set()
    for n in walk_nodes(top_nodes(proto)):
        used.update(n.input)
    used |= nonref
    dead_if = any(n.op_type == "If" and not (set(n.output) & used) for n in walk_nodes(top_nodes(proto)))
    special = False
    empty = False
    for k, t in consts.items():
        if k in used:
            arr = numpy_helper.to_array(t).reshape(-1)
            if t.data_type == TP.FLOAT and not np.all(np.isfinite(arr)):
                special = True
            if len(t.dims) == 1 and t.dims[0] == 0:
                empty = True
    f.update(
        inline_nonref=bool(set(consts) & nonref) or init_bad,
        naninf=special,
        emptylist=empty,
        has_loop=has_loop,
        pow_neg=pow_neg,
        big_nonfloat=big_nonfloat,
        has_big=has_big,
        dead_if=dead_if,
        opset_alias=any(py_norm(n) in aliases for n in names),
        n_inputs=len(proto.graph.input) if isinstance(proto, onnx.ModelProto) else 0,
    )
    return f


def unbound_names(prog: list[str]) -> list[str]:
    """Names read before any definition, in the canonical program (flow-insensitive over branches)."""
    defined: set = set()
    out = []

    def use(x):
        if x and not x.startswith("#") and x != "None" and x not in defined and x not in out:
            out.append(x)

    for ln in prog:
        if ln.startswith("wrap "):
            defined.update(ln[5:].split(","))
            continue
        if ln.startswith("deco "):
            defined = set()  # a new function: its own scope
            continue
        if ln.startswith("sig "):
            inner = ln[ln.index("(") + 1 : -1]
            a, b = inner.split("|")
            defined.update(x for x in a.split(",") + b.split(",") if x)
            continue
        body = ln.split(" ", 1)[1]
        kind, _, rest = body.partition(" ")
        if kind == "call":
            outs, _, rhs = rest.partition(" = ")
            args = rhs[rhs.index("(") + 1 : -1].split("|")
            for x in args[0].split(","):
                use(x)
            for kv in args[1].split(","):
                if "=@" in kv:
                    use(kv.split("=@")[1])
            defined.update(outs.split(","))
        elif kind == "op":
            o, _, rhs = rest.partition(" = ")
            for x in rhs.split(" ")[0::2]:
                use(x)
            defined.add(o)
        elif kind == "assign":
            o, _, rhs = rest.partition(" = ")
            use(rhs)
            defined.add(o)
        elif kind in ("if", "while"):
            use(rest)
        elif kind == "for":
            i, n = rest.split(" ")
            use(n)
            defined.add(i)
        elif kind == "forbreak":
            i, n, c = rest.split(" ")
            use(n)
            defined.add(i)
            use(c)
        elif kind == "breakif":
            use(rest)
        elif kind == "return":
            for x in rest.split(","):
                use(x)
    return out


def dead_if_in_text(prog: list[str], scoped: bool = False) -> bool:
    """Is there an `if` in the printed program none of whose result variables is read outside the statement?
    (the result variables are the left-hand sides of the assignments closing its two branches)"""
    def depth(ln):
        return int(ln.split(" ", 1)[0][1:]) if ln.startswith("L") else 0

    def reads(ln):
        out = []
        if not ln.startswith("L"):
            return out
        body = ln.split(" ", 1)[1]
        kind, _, rest = body.partition(" ")
        if kind == "call":
            rhs = rest.partition(" = ")[2]
            a = rhs[rhs.index("(") + 1 : -1].split("|")
            out += a[0].split(",") + [kv.split("=@")[1] for kv in a[1].split(",") if "=@" in kv]
        elif kind == "op":
            out += rest.partition(" = ")[2].split(" ")[0::2]
        elif kind == "assign":
            out.append(rest.partition(" = ")[2])
        elif kind in ("if", "while", "breakif"):
            out.append(rest)
        elif kind == "for":
            out.append(rest.split(" ")[1])
        elif kind == "forbreak":
            out += rest.split(" ")[1:]
        elif kind == "return":
            out += rest.split(",")
        return [x.strip("()") for x in out]

    def defs(ln):
        if not ln.startswith("L"):
            return []
        body = ln.split(" ", 1)[1]
        kind, _, rest = body.partition(" ")
        if kind in ("call", "op", "assign"):
            return rest.partition(" = ")[0].split(",")
        if kind in ("for", "forbreak"):
            return [rest.split(" ")[0]]
        return []

    for i, ln in enumerate(prog):
        if not (ln.startswith("L") and ln.split(" ")[1] == "if"):
            continue
        d = depth(ln)
        j = i + 1
        results = set()
        while j < len(prog) and prog[j].startswith("L") and (depth(prog[j]) > d or prog[j] == f"L{d} else"):
            if depth(prog[j]) == d + 1 and prog[j].split(" ")[1] == "assign":
                results.add(prog[j].split(" ", 2)[2].partition(" = ")[0])
            j += 1
        if scoped:
            # only the statements that can execute after the `if`: the rest of its block and of the enclosing blocks,
            # not the `else` blocks of enclosing `if`s (sibling scopes), not other functions
            outside, cur, k = [], d, j
            while k < len(prog) and prog[k].startswith("L"):
                dk = depth(prog[k])
                if dk < cur and prog[k] == f"L{dk} else":
                    k += 1
                    while k < len(prog) and prog[k].startswith("L") and depth(prog[k]) > dk:
                        k += 1
                    cur = dk
                    continue
                cur = min(cur, dk)
                outside.append(prog[k])
                k += 1
        else:
            outside = prog[:i] + prog[j:]
        if scoped:
            # a result is live when a later statement reads it before it is assigned again; an assignment inside a nested
            # block (conditional, or a loop body that may not run) only hides the result until that block ends
            live, kill = False, {}
            for x in outside:
                dx = depth(x)
                kill = {r: dk for r, dk in kill.items() if dx >= dk}
                if any(r in reads(x) and r not in kill for r in results):
                    live = True
                    break
                for r in results & set(defs(x)):
                    kill[r] = dx if dx > d else 0
            if results and not live:
                return True
        elif results and not any(r in reads(x) for x in outside for r in results):
            return True
    return False


def classify(stage: str, case: dict, opts: dict, mprog: list[str] | None, mres: str, detail: str = "") -> str | None:
    """The OPEN known finding whose predicate contains this failing (case, options), if any.  Every other finding of
    this property is fixed in /repo: a failure there is a VIOLATION again.  Only converter *refusals* (stages exec /
    to_model) can be known; a completed round trip with a different signature or different results never is."""
    if stage not in ("exec", "to_model"):
        return None
    if mprog and any(" forbreak " in ln for ln in mprog):
        return "C13-LOOP-BREAK"
    if mprog and "A subgraph for a test do not have any output variable" in detail and (
            dead_if_in_text(mprog) or dead_if_in_text(mprog, scoped=True)):
        # scoped: since ce0fc89 the read set is per graph, so "nobody reads the result" is judged in the `if`'s own scope
        # (a sibling scope may spell one of its own values the same)
        return "C13-DEAD-IF"
    return None


# --------------------------------------------------------------------------- cases


def case_of_model(m: onnx.ModelProto, feeds, meta: dict) -> dict:
    return {"kind": "M", "proto": m, "feeds": feeds, "meta": meta}


def case_of_function(fp: onnx.FunctionProto, in_types, out_types, feeds, meta: dict) -> dict:
    return {"kind": "F", "proto": fp, "feeds": feeds, "meta": meta, "in_types": in_types, "out_types": out_types}


def wrap_function(fp: onnx.FunctionProto, in_types, out_types, call_attrs=None) -> onnx.ModelProto:
    ins = [H.make_tensor_value_info(f"in{i}", t, s) for i, (t, s) in enumerate(in_types)]
    outs = [H.make_tensor_value_info(f"out{i}", t, s) for i, (t, s) in enumerate(out_types)]
    node = H.make_node(fp.name, [i.name for i in ins], [o.name for o in outs], domain=fp.domain, **(call_attrs or {}))
    g = H.make_graph([node], "wrapper", ins, outs)
    ops = {i.domain: i.version for i in fp.opset_import}
    ops.setdefault(fp.domain, 1)
    ops.setdefault("", GEN.OPSET)
    return H.make_model(g, functions=[fp], opset_imports=[H.make_opsetid(d, v) for d, v in ops.items()], ir_version=8)


def case_json(case: dict, opts: dict | None) -> dict:
    out = {
        "kind": case["kind"],
        "proto_b64": base64.b64encode(case["proto"].SerializeToString()).decode(),
        "feeds": [{k: [str(v.dtype), v.tolist()] for k, v in f.items()} for f in case["feeds"]],
        "meta": {k: (sorted(v) if isinstance(v, (set, frozenset)) else v) for k, v in case["meta"].items()},
        "opts": opts,
    }
    if case["kind"] == "F":
        out["in_types"] = case["in_types"]
        out["out_types"] = case["out_types"]
        out["call_attrs"] = case.get("call_attrs")
    return out


def case_from_json(j: dict) -> dict:
    raw = base64.b64decode(j["proto_b64"])
    proto = onnx.ModelProto() if j["kind"] == "M" else onnx.FunctionProto()
    proto.ParseFromString(raw)
    feeds = [{k: np.array(v[1], dtype=v[0]) for k, v in f.items()} for f in j["feeds"]]
    c = {"kind": j["kind"], "proto": proto, "feeds": feeds, "meta": j.get("meta", {})}
    if j["kind"] == "F":
        c["in_types"] = [tuple(x) for x in j["in_types"]]
        c["out_types"] = [tuple(x) for x in j["out_types"]]
        c["call_attrs"] = j.get("call_attrs")
    return c


# --------------------------------------------------------------------------- running one case


class Ctx:
    def __init__(self, run: core.Run, drv: core.Driver):
        self.run = run
        self.drv = drv
        self.stats: Counter = Counter()
        self.tie_broken: list = []
        self.failures: list = []  # (case, opts, stage, detail)
        self.known: Counter = Counter()
        self.known_example: dict = {}
        self.workdir = tempfile.mkdtemp(prefix="ov_c13_")
        self.t_oracle = 0.0

    def close(self):
        shutil.rmtree(self.workdir, ignore_errors=True)


def real_export(case, opts):
    from onnxscript import proto2python

    try:
        return proto2python(case["proto"], **opts), None
    except BaseException as e:  # noqa: BLE001 - every exception class is an observation
        return None, e


def tie_cases(ctx: Ctx, cases: list[dict], optlist_of) -> list:
    """Run model and implementation on every (case, opts).  Returns [(case, opts, src, exc, mprog, mres, lits)]."""
    from onnxscript.backend import onnx_export as OE

    lines, jobs = [], []
    for case in cases:
        case.setdefault("facts", {})
        for opts in optlist_of(case):
            lits = L.Lits()
            if case["kind"] == "M":
                line = L.enc_model(case["proto"], opts, lits)
            else:
                used = sorted(OE._names_used_in_function(case["proto"]))
                line = L.enc_function(case["proto"], opts, lits, used)
            lines.append(line)
            jobs.append((case, opts, lits))
            case["facts"][L.opts_str(opts)] = facts(case["proto"], opts)
    outs = ctx.drv.ask(lines)
    # the opset import lines of the header (one per proto: they do not depend on the options)
    ilines = [L.enc_imports(c["proto"]) for c in cases]
    for c, mi in zip(cases, ctx.drv.ask(ilines)):
        c["model_imports"] = mi
    # fragment of export_roundtrip_partial: predicted re-read graph (only ModelProtos, rename=0, inline_const=0)
    slines, sidx = [], []
    for j, (case, opts, lits) in enumerate(jobs):
        if case["kind"] == "M" and not opts["rename"] and not opts["inline_const"]:
            slines.append("straight" + lines[j][len("export"):])
            sidx.append(j)
    souts = dict(zip(sidx, ctx.drv.ask(slines))) if slines else {}
    res = []
    for j, ((case, opts, lits), mres) in enumerate(zip(jobs, outs)):
        case.setdefault("straight", {})[L.opts_str(opts)] = souts.get(j, "0")
        src, exc = real_export(case, opts)
        ctx.stats["exports"] += 1
        mprog = None if mres.startswith("ERR:") or mres == "bad-op" else mres.split(" ; ")
        if mres == "bad-op":
            raise core.Infra("driver could not parse a case line")
        if exc is not None:
            ires = "ERR:" + type(exc).__name__
            ctx.stats["export_raises"] += 1
            ctx.stats["err_" + type(exc).__name__] += 1
        else:
            try:
                ires = " ; ".join(L.canon_program(src, lits))
            except (L.Unparsable, SyntaxError) as e:
                ires = "UNPARSABLE:" + type(e).__name__ + ":" + str(e)[:120]
        if exc is None and not ires.startswith("UNPARSABLE"):
            try:
                real_imports = L.canon_imports(src)
            except Exception as e:  # noqa: BLE001
                real_imports = "UNPARSABLE:" + type(e).__name__
            ctx.stats["import_lines_compared"] += 1
            if real_imports != case.get("model_imports"):
                ctx.tie_broken.append((case, opts, f"opset imports: model `{case.get('model_imports')}` impl `{real_imports}`"))
        if ires != mres:
            ctx.tie_broken.append((case, opts, f"model: {mres[:600]} || impl: {ires[:600]}"))
        else:
            ctx.stats["tie_ok"] += 1
            if mprog and case["kind"] == "F":
                attrs_ = list(case["proto"].attribute)
                text = " ".join(mprog)
                import re as _re
                if any(_re.search(r"[ ,(=]" + _re.escape(a) + r"_\d+[ ,)|]", text) for a in attrs_):
                    ctx.stats["branch_attr_conflict_renamed"] += 1
            if mprog and not opts["rename"] and case["facts"][L.opts_str(opts)]["collide"]:
                ctx.stats["branch_unique_suffix"] += 1
            if mprog:
                for ln in mprog:
                    parts = ln.split(" ")
                    ctx.stats["stmt_" + (parts[0] if parts[0] in ("sig", "wrap", "deco") else parts[1])] += 1
        iprog = ires.split(" ; ") if (exc is None and not ires.startswith("UNPARSABLE")) else None
        res.append((case, opts, src, exc, mprog, mres, lits, iprog))
    return res


def fail(ctx: Ctx, case, opts, stage, detail, mprog, mres):
    fid = classify(stage, case, opts, mprog, mres, detail)
    open_ids = {f["id"] for f in ctx.run.open_findings()}
    if fid and fid in open_ids:
        ctx.known[fid] += 1
        ctx.stats["known_" + fid] += 1
        if fid not in ctx.known_example:
            ctx.known_example[fid] = (case, opts, stage, detail)
    else:
        ctx.failures.append((case, opts, stage, detail))
        ctx.stats["unclassified_failure"] += 1
        import os
        if os.environ.get("C13_DEBUG"):
            print("FAIL", L.opts_str(opts), stage, detail[:300].replace("\n", " | "), case["meta"].get("flags"), flush=True)


def oracle(ctx: Ctx, item) -> None:
    """The property's own oracle on one (case, options)."""
    case, opts, src, exc, mprog, mres, lits, iprog = item
    t0 = time.time()
    try:
        _oracle(ctx, case, opts, src, exc, mprog, mres, iprog)
    finally:
        ctx.t_oracle += time.time() - t0


def _oracle(ctx, case, opts, src, exc, mprog, mres, iprog=None):
    # what the real exporter printed decides how the text is executed and which names the signature has;
    # the model's program is only used to classify failures
    rprog = iprog if iprog is not None else mprog
    import onnxscript

    st = ctx.stats
    st["oracle_cases"] += 1
    refusal = case["meta"].get("refusal")
    if refusal in GEN.PARTIAL_REFUSALS and exc is None:
        st["partial_refusal_not_judged"] += 1
        return
    if exc is not None:
        if refusal:
            st["refused_as_expected"] += 1
            return
        return fail(ctx, case, opts, "export", f"proto2python raised {type(exc).__name__}: {str(exc)[:160]}", mprog, mres)
    if refusal:
        # outside the class, and text was returned: acceptable only if it still denotes the same computation;
        # generated refusal models are not executable, so this is a failure of "raises a descriptive error"
        return fail(ctx, case, opts, "export", f"model outside the class ({refusal}) was not refused", mprog, mres)
    try:
        compile(src, "<c13>", "exec")
    except SyntaxError as e:
        return fail(ctx, case, opts, "compile", f"text is not valid Python: {type(e).__name__}: {e}", mprog, mres)
    st["compiled"] += 1
    try:
        mod, modname = L.exec_source(src, ctx.workdir)
    except BaseException as e:  # noqa: BLE001
        return fail(ctx, case, opts, "exec", f"exec of the text raised {type(e).__name__}: {str(e)[:200]}", mprog, mres)
    try:
        proto = case["proto"]
        try:
            if case["kind"] == "M":
                wrapline = next((ln for ln in (rprog or []) if ln.startswith("wrap ")), None)
                if wrapline:
                    arrays = [
                        numpy_helper.to_array(t)
                        for t in proto.graph.initializer
                        if (int(np.prod(list(t.dims))) if t.dims else 1) > 4
                    ]
                    params = wrapline[5:].split(",")
                    m2 = mod.make_model(**dict(zip(params, arrays)))
                else:
                    fns = [v for v in mod.__dict__.values() if isinstance(v, onnxscript.OnnxFunction)]
                    m2 = fns[-1].to_model_proto()
                m1 = proto
            else:
                fns = [v for v in mod.__dict__.values() if isinstance(v, onnxscript.OnnxFunction)]
                fp2 = fns[-1].to_function_proto()
                m1 = wrap_function(proto, case["in_types"], case["out_types"], case.get("call_attrs"))
                m2 = wrap_function(fp2, case["in_types"], case["out_types"], case.get("call_attrs"))
        except BaseException as e:  # noqa: BLE001
            return fail(ctx, case, opts, "to_model", f"to_model_proto raised {type(e).__name__}: {str(e)[:200]}", mprog, mres)
        st["converted_back"] += 1
        pred = case.get("straight", {}).get(L.opts_str(opts), "0")
        if pred == "bad-op":
            raise core.Infra("driver could not parse a straight line")
        if pred.startswith("1 ; "):
            # the model is in the fragment of export_roundtrip_partial: the real converter must have read back
            # exactly progToGraph (exportStraight g) (names included)
            st["fragment_cases"] += 1
            parts = pred.split(" ; ")
            want_nodes = []
            for t in parts[3:]:
                op, dom, ins, outs_, ats = t.split("|")
                want_nodes.append((op, dom, ins, outs_, ",".join(sorted(x for x in ats.split(",") if x))))
            got_nodes = [
                (n.op_type, n.domain, ",".join(n.input), ",".join(n.output), ",".join(sorted(a.name for a in n.attribute)))
                for n in m2.graph.node
            ]
            got = (",".join(i.name for i in m2.graph.input), ",".join(o.name for o in m2.graph.output), got_nodes)
            want = (parts[1], parts[2], want_nodes)
            if got != want:
                ctx.tie_broken.append((case, opts, f"progToGraph(exportStraight) {want} || real converter read back {got}"))
            else:
                st["fragment_reread_ok"] += 1
        # ---- same graph inputs and outputs
        if case["kind"] == "M":
            sig = ([ln for ln in (rprog or []) if ln.startswith("sig ")] or ["sig f(|)"])[-1]  # the main graph's
            sig_names = [x for x in sig[sig.index("(") + 1 : -1].split("|")[0].split(",") if x]
            # input names: what the exporter printed in the signature (cleaned, uniquified or short names);
            # distinct inputs must stay distinct
            if len(set(sig_names)) != len(sig_names) or len(sig_names) != len(m1.graph.input):
                return fail(ctx, case, opts, "signature", f"signature names {sig_names} for {len(m1.graph.input)} graph inputs", mprog, mres)
            want_in = [(nm, L.type_sig(i)) for nm, i in zip(sig_names, m1.graph.input)]
            got_in = [(i.name, L.type_sig(i)) for i in m2.graph.input]
            want_out = [L.type_sig(o) for o in m1.graph.output]
            got_out = [L.type_sig(o) for o in m2.graph.output]
            if want_in != got_in or want_out != got_out:
                return fail(ctx, case, opts, "signature", f"inputs {want_in} -> {got_in}; outputs {want_out} -> {got_out}", mprog, mres)
            if [py_norm(o.name) for o in m1.graph.output] == [o.name for o in m2.graph.output]:
                st["output_names_preserved"] += 1
        # ---- same results
        if "orig_out" not in case:
            try:
                case["orig_out"] = L.ort_run_many(m1, case["feeds"])
            except Exception:  # noqa: BLE001
                case["orig_out"] = None
        if case["orig_out"] is None:
            st["orig_not_runnable"] += 1
            return
        f2s = [{i2.name: feeds[i1.name] for i1, i2 in zip(m1.graph.input, m2.graph.input)} for feeds in case["feeds"]]
        try:
            bs = L.ort_run_many(m2, f2s)
        except Exception as e:  # noqa: BLE001
            return fail(ctx, case, opts, "run", f"round-tripped model fails on onnxruntime: {str(e)[:200]}", mprog, mres)
        for feeds, a, b in zip(case["feeds"], case["orig_out"], bs):
            st["runs_compared"] += 1
            if not L.same_outputs(a, b):
                return fail(
                    ctx, case, opts, "run",
                    f"outputs differ on {({k: v.tolist() for k, v in feeds.items()})}: original {[np.asarray(x).tolist() for x in a]} "
                    f"round-tripped {[np.asarray(x).tolist() for x in b]}", mprog, mres,
                )  # fmt: skip
        st["roundtrip_ok"] += 1
        st["roundtrip_ok_" + L.opts_str(opts)] += 1
        for fl in case["meta"].get("flags", []):
            if fl.startswith(("loop_", "for", "while", "if", "init", "forced_loop", "sibling_")):
                st["roundtrip_ok_with_" + fl] += 1
    finally:
        L.release(modname)


# --------------------------------------------------------------------------- generation


def gen_direct(rng, n: int, refusal_every: int = 8) -> list[dict]:
    cases = []
    for i in range(n):
        scheme = rng.choice(["clean", "clean", "odd", "odd", "odd", "collide"])
        refusal = GEN.REFUSALS[(i // refusal_every) % len(GEN.REFUSALS)] if i % refusal_every == refusal_every - 1 else None
        special = rng.random() < 0.2
        force_loop = None if refusal else {3: "identity", 5: "direct", 1: "constfalse", 6: "condpass"}.get(i % 8)
        mg = GEN.ModelGen(rng, scheme=scheme, special=special, refusal=refusal, size=rng.choice([2, 4, 6]),
                          depth=2, allow_loops=True, force_loop=force_loop)  # fmt: skip
        m = mg.model()
        meta = {"scheme": scheme, "flags": sorted(mg.flags), "refusal": refusal, "src": "direct"}
        cases.append(case_of_model(m, GEN.feeds_for(m, rng, 3), meta))
    return cases


def gen_sibling(rng, n: int) -> list[dict]:
    """Models in which sibling scopes define the same ONNX names (the two branches of an If, bodies of consecutive
    Loops/Ifs): generated models with at least two subgraphs, subgraph-local names renamed onto an earlier sibling's."""
    cases = []
    tries = 0
    while len(cases) < n and tries < 40 * n:
        tries += 1
        scheme = rng.choice(["clean", "odd", "collide"])
        mg = GEN.ModelGen(rng, scheme=scheme, special=False, refusal=None, size=rng.choice([4, 6, 8]), depth=2, allow_loops=True)
        m = mg.model()
        if not ({"if"} & mg.flags):
            continue
        plain = len(cases) % 4 == 3  # every 4th case has no constant-vs-other name clash (C13-INLINE-SCOPE class, fixed by e0cdb9e) by construction
        st = GEN.reuse_sibling_names(m, rng, plain=plain)
        if not st["reused"] or (plain and GEN.const_scope_clash(m)) or (not plain and not st["const_vs_other"]):
            continue
        try:
            onnx.checker.check_model(m, full_check=False)
        except Exception:  # noqa: BLE001
            raise core.Infra("sibling-name reuse produced an invalid model")
        flags = sorted(mg.flags | {"sibling_reuse"} | ({"sibling_reuse_const"} if st["const_vs_other"] else set())
                       | ({"sibling_reuse_plain"} if not GEN.const_scope_clash(m) else set()))
        meta = {"scheme": scheme, "flags": flags, "refusal": None, "src": "sibling"}
        cases.append(case_of_model(m, GEN.feeds_for(m, rng, 3), meta))
    return cases


def gen_shapes(rng, n: int) -> list[dict]:
    cases = []
    for i in range(n):
        m = GEN.shape_model(rng, i)
        meta = {"scheme": "shapes", "flags": ["shapes"], "refusal": None, "src": "shapes"}
        cases.append(case_of_model(m, GEN.feeds_for(m, rng, 2), meta))
    return cases


def type_stream(ctx: "Ctx", rng, n_random: int) -> None:
    """onnx_type_to_onnxscript_repr vs TensorType.__class_getitem__/to_type_proto on generated tensor types:
    the real functions against the Lean model (tie) and against each other (the round trip itself)."""
    import onnxscript.onnx_types as OT

    items = [0, 1, 3, "N", "M", None]
    shapes: list = [None, []] + [[a] for a in items] + [[a, b] for a in items for b in items]
    for _ in range(n_random):
        shapes.append([rng.choice(items + [2, 7, "batch"]) for _ in range(rng.choice([3, 4]))])
    dtypes = [v for v in sorted(TP.DataType.values())]
    env = {k: getattr(OT, k) for k in dir(OT) if k.isupper()}
    lines, jobs = [], []
    for dt in dtypes:
        for shp in (shapes if dt in (TP.FLOAT, TP.INT64, TP.BOOL) else rng.sample(shapes, 8)):
            enc = "-" if shp is None else ("e" if shp == [] else ",".join(
                f"i{d}" if isinstance(d, int) else ("u" if d is None else "s" + d.encode().hex()) for d in shp))
            lines.append(f"type {dt} {enc}")
            jobs.append((dt, shp))
    outs = ctx.drv.ask(lines)
    for (dt, shp), mo in zip(jobs, outs):
        ctx.stats["type_evals"] += 1
        tp = H.make_tensor_type_proto(dt, shp)
        case = {"kind": "type", "dtype": dt, "shape": shp}
        try:
            text = OT.onnx_type_to_onnxscript_repr(tp, reversible=False)
        except Exception as e:  # noqa: BLE001
            text = "ERR:" + type(e).__name__
        if text.startswith("ERR") or mo.startswith("ERR"):
            if not (text.startswith("ERR") and mo.startswith("ERR")) and dt != 0:
                ctx.tie_broken.append((case, None, f"type repr: model {mo} impl {text}"))
            continue
        try:
            back = eval(text, dict(env)).to_type_proto()  # noqa: S307 - the exporter's own annotation text
            got = L.type_sig(H.make_value_info("v", back))
            real = f"{got[0]} " + ("-" if got[1] is None else "[" + ",".join(
                f"i{d}" if isinstance(d, int) else ("u" if d is None else "s" + d) for d in got[1]) + "]")
        except Exception as e:  # noqa: BLE001
            got, real = None, "ERR:" + type(e).__name__
        mtext, _, mback = mo.partition(" | ")
        if mtext != text or mback != real:
            ctx.tie_broken.append((case, None, f"type annotation: model `{mo}` impl `{text} | {real}`"))
        want = L.type_sig(H.make_value_info("v", tp))
        if got != want:
            ctx.failures.append((case, None, "type", f"annotation {text} of type {want} converts back to {got}"))


_AST_SYM = {"Add": "+", "Sub": "-", "Mult": "*", "MatMult": "@", "Div": "/", "Pow": "**", "BitAnd": "&", "BitOr": "|",
            "Gt": ">", "Eq": "==", "Lt": "<", "GtE": ">=", "LtE": "<=", "Mod": "%"}  # fmt: skip


def table_stream(ctx: "Ctx") -> None:
    """Translator-style tie for the three tables the theorems quantify over: the exporter's operator table (`ops` in
    `_translate_node`), its `kwlist`, and the converter's `primop_map` — read from the current source with `ast` and
    compared with the Lean tables; plus: every operator of the table must have no attribute in any ONNX schema version
    (operator sugar prints none)."""
    import ast as _ast

    import onnx.defs

    src = (core.REPO / "onnxscript/backend/onnx_export.py").read_text()
    tree = _ast.parse(src)
    ops = kw = None
    for node in _ast.walk(tree):
        if isinstance(node, _ast.Assign) and len(node.targets) == 1 and isinstance(node.targets[0], _ast.Name):
            if node.targets[0].id == "ops" and isinstance(node.value, _ast.Dict):
                ops = _ast.literal_eval(node.value)
            if node.targets[0].id == "kwlist":
                kw = _ast.literal_eval(node.value)
    csrc = (core.REPO / "onnxscript/_internal/converter.py").read_text()
    prim = None
    for node in _ast.walk(_ast.parse(csrc)):
        if isinstance(node, _ast.Assign) and isinstance(node.targets[0], _ast.Name) and node.targets[0].id == "primop_map":
            prim = {k.attr: _ast.literal_eval(v) for k, v in zip(node.value.keys, node.value.values)}
    if ops is None or kw is None or prim is None:
        raise core.Infra("operator table / kwlist / primop_map not found in the source")
    m_ops, m_conv, m_kw = ctx.drv.ask(["tables"])[0].split(" | ")
    real_ops = ",".join(f"{k}:{v}" for k, v in ops.items())
    real_conv = {_AST_SYM[k]: v for k, v in prim.items() if k in _AST_SYM}
    model_conv = dict(x.split(":", 1) for x in m_conv.split(","))
    ctx.stats["table_entries"] += len(ops) + len(real_conv) + len(kw)
    case = {"kind": "tables"}
    if real_ops != m_ops:
        ctx.tie_broken.append((case, None, f"operator table: model {m_ops} impl {real_ops}"))
    if real_conv != model_conv:
        ctx.tie_broken.append((case, None, f"converter primop_map (by symbol): model {model_conv} impl {real_conv}"))
    if sorted(kw) != sorted(m_kw.split(",")):
        ctx.tie_broken.append((case, None, f"kwlist: model {sorted(m_kw.split(','))} impl {sorted(kw)}"))
    for op in ops:
        try:
            # opset >= 7 (the pre-7 `broadcast`/`axis` attributes of the arithmetic operators are legacy; models
            # of those versions are outside the generated class — noted in design_notes/C13.md)
            schemas = [s for s in onnx.defs.get_all_schemas_with_history()
                       if s.name == op and s.domain == "" and s.since_version >= 7]
        except Exception:  # noqa: BLE001
            schemas = []
        attrs = sorted({a for s in schemas for a in s.attributes})
        if attrs:
            ctx.tie_broken.append((case, None, f"operator sugar prints `{op}` as `{ops[op]}` without attributes, but the ONNX "
                                   f"schema of {op} declares {attrs}: the printed operator drops them"))
        ctx.stats["sugar_ops_schema_checked"] += 1 if schemas else 0


def gen_scripts(rng, n: int) -> list[dict]:
    bodies, info = [], []
    for i in range(n):
        typed = rng.random() < 0.6
        src, nin, has_n, kinds = GEN.script_source(rng, f"sf{i}", typed)
        bodies.append((f"sf{i}", src))
        info.append((typed, nin, has_n, kinds, src))
    fn, err, modname = scriptgen.compile_functions(bodies)
    cases = []
    for i, (typed, nin, has_n, kinds, src) in enumerate(info):
        name = f"sf{i}"
        if name in err:
            continue
        in_types = [(TP.FLOAT, [3])] * nin + ([(TP.INT64, [])] if has_n else [])
        meta = {"scheme": "script", "flags": sorted(kinds), "refusal": None, "src": src}
        if typed:
            m = fn[name].to_model_proto()
            cases.append(case_of_model(m, GEN.feeds_for(m, rng, 3), meta))
        else:
            fp = fn[name].to_function_proto()
            wm = wrap_function(fp, in_types, [(TP.FLOAT, [3])])
            cases.append(case_of_function(fp, in_types, [(TP.FLOAT, [3])], GEN.feeds_for(wm, rng, 3), meta))
    scriptgen.release(modname)
    return cases, len(err)


FLOAT_ATTR_OPS = ["Elu", "LeakyRelu", "ThresholdedRelu", "Celu"]


def gen_local_functions(rng, n: int) -> list[dict]:
    """ModelProtos with model-local functions: a typed @script main calling 1-2 untyped @script helpers of a custom
    domain (the documented way to structure script functions)."""
    header = 'from onnxscript.values import Opset\nmy_dom = Opset("my.dom", 1)\nother = Opset("other-domain", 1)\n'
    bodies, info = [], []
    for i in range(n):
        two = rng.random() < 0.4
        h1 = f"helper{i}a"
        h2 = f"helper{i}b"
        src = f"@script(my_dom)\ndef {h1}(A, B):\n    t = op.{rng.choice(['Relu', 'Abs', 'Tanh'])}(A)\n    return op.{rng.choice(['Add', 'Mul', 'Sub'])}(t, B)\n"
        bodies.append((h1, src))
        if two:
            inner = f"{h1}(A, A)" if rng.random() < 0.5 else "op.Neg(A)"
            src2 = f"@script(other)\ndef {h2}(A):\n    u = {inner}\n    return op.Mul(op.Neg(u), A)\n"
            bodies.append((h2, src2))
        call2 = f"{h2}(t1)" if two else "op.Neg(t1)"
        main = (f"@script()\ndef lf{i}(X: FLOAT[3], Y: FLOAT[3]) -> FLOAT[3]:\n    t1 = {h1}(X, Y)\n    t2 = {call2}\n"
                f"    r = op.{rng.choice(['Add', 'Sub'])}(t2, {h1}(Y, X))\n    return r\n")
        bodies.append((f"lf{i}", main))
        info.append((f"lf{i}", two))
    # calls that occur ONLY inside an If / Loop body of another local function (the callee is not called from the
    # main graph nor from a top-level node of a function)
    for i in range(max(2, n // 2)):
        ha, hb, mn = f"inner{i}a", f"inner{i}b", f"lg{i}"
        bodies.append((ha, f"@script(my_dom)\ndef {ha}(A, B):\n    t = op.{rng.choice(['Relu', 'Abs', 'Tanh'])}(A)\n    return op.{rng.choice(['Add', 'Mul'])}(t, B)\n"))
        if rng.random() < 0.6:
            srcb = (f"@script(other)\ndef {hb}(A):\n    c = op.ReduceSum(A, keepdims=0) > 0.0\n    if c:\n        u = {ha}(A, A)\n"
                    f"    else:\n        u = op.Neg(A)\n    return op.Mul(u, A)\n")
            kind = "call_in_if"
        else:
            srcb = (f"@script(other)\ndef {hb}(A, N):\n    u = op.Identity(A)\n    for i in range(N):\n        u = {ha}(u, A)\n"
                    f"    return op.Sub(u, A)\n")
            kind = "call_in_loop"
        bodies.append((hb, srcb))
        arg = "X" if kind == "call_in_if" else "X, N"
        sig = "X: FLOAT[3], Y: FLOAT[3]" + ("" if kind == "call_in_if" else ", N: INT64")
        bodies.append((mn, f"@script()\ndef {mn}({sig}) -> FLOAT[3]:\n    t = {hb}({arg})\n    return op.Add(t, Y)\n"))
        info.append((mn, kind))
    fn, err, modname = scriptgen.compile_functions(bodies, header_extra=header)
    cases = []
    for name, two in info:
        if name in err:
            continue
        m = fn[name].to_model_proto()
        if isinstance(two, str):
            # both listing orders of the model-local functions
            for order in ("given", "reversed"):
                m2 = onnx.ModelProto()
                m2.CopyFrom(m)
                if order == "reversed":
                    fs = list(m2.functions)[::-1]
                    del m2.functions[:]
                    m2.functions.extend(fs)
                meta = {"scheme": "localfn", "flags": ["local_functions", "local_" + two, "local_order_" + order],
                        "refusal": None, "src": "localfn"}
                cases.append(case_of_model(m2, GEN.feeds_for(m2, rng, 2), meta))
            continue
        meta = {"scheme": "localfn", "flags": ["local_functions"] + (["nested_local_function"] if two else []),
                "refusal": None, "src": "localfn"}
        cases.append(case_of_model(m, GEN.feeds_for(m, rng, 2), meta))
    scriptgen.release(modname)
    return cases


def gen_attr_functions(rng, n: int) -> list[dict]:
    """FunctionProtos with attribute parameters.  Value names are drawn from a set closed under the conflict
    handler's candidate generation (`<attr>`, `<attr>_0`, `<attr>_1`, ...; `v<k>` for rename=True), every value
    feeds the result, and the numeric oracle runs through a wrapper node that passes attribute values."""
    cases = []
    for i in range(n):
        attr_pool = rng.choice([["alpha", "beta"], ["alpha", "v1"], ["v2", "beta"], ["alpha", "alpha_0"], ["k", "v3"]])
        attrs = attr_pool[: rng.choice([1, 2, 2])]
        names = []
        for a in attrs:
            names += [a, a + "_0", a + "_1", a + "_0_0"]
        names += ["v1", "v2", "v4", "X", "t.0", "t_0", "y1", "y2", "y3"] + [f"w{k}" for k in range(24)]
        clashy = rng.random() < 0.8
        nm_used: set = set()

        def fresh():
            pool = [x for x in names if x not in nm_used]
            if clashy and rng.random() < 0.7:
                cand = [x for x in pool if any(x.startswith(a) for a in attrs)] or pool
            else:
                cand = [x for x in pool if not any(x == a or x.startswith(a + "_") for a in attrs) and x not in ("t.0", "t_0")] or pool
            x = rng.choice(cand)
            nm_used.add(x)
            return x

        x = fresh() if rng.random() < 0.3 else "X"
        nm_used.add(x)
        vals = [x]
        nodes = []
        for j in range(rng.choice([2, 3, 4])):
            o = fresh()
            r = rng.random()
            if r < 0.45:
                a = rng.choice(attrs)
                nd = H.make_node(rng.choice(FLOAT_ATTR_OPS), [rng.choice(vals)], [o])
                at = onnx.AttributeProto()
                at.name = "alpha"
                at.type = onnx.AttributeProto.FLOAT
                at.ref_attr_name = a
                nd.attribute.append(at)
            elif r < 0.8:
                nd = H.make_node(rng.choice(["Mul", "Add", "Sub"]), [rng.choice(vals), rng.choice(vals)], [o])
            else:
                nd = H.make_node(rng.choice(["Neg", "Tanh", "Abs"]), [rng.choice(vals)], [o])
            nodes.append(nd)
            vals.append(o)
        # every value feeds the result, with distinct weights so that aliasing is visible
        acc = vals[1]
        for k, v in enumerate(vals[2:]):
            o = fresh()
            w = fresh()
            nodes.append(H.make_node("Constant", [], [w], value=H.make_tensor("value", TP.FLOAT, [], [float(k + 2)])))
            o2 = fresh()
            nodes.append(H.make_node("Mul", [v, w], [o2]))
            nodes.append(H.make_node("Add", [acc, o2], [o]))
            acc = o
        fp = H.make_function("this", f"af{i}", [x], [acc], nodes, [H.make_opsetid("", GEN.OPSET)], attributes=attrs)
        used_attrs = {at.ref_attr_name for nd in nodes for at in nd.attribute if at.ref_attr_name}
        call_attrs = {a: rng.choice([0.5, 1.5, 2.0, 0.25]) for a in attrs if a in used_attrs}
        call_attrs.update({a: 1 for a in attrs if a not in used_attrs})  # unused attribute parameters default to INT
        meta = {"scheme": "attrfn", "flags": ["attr_fn"] + (["attr_clash"] if clashy else []), "refusal": None, "src": "attrfn"}
        c = case_of_function(fp, [(TP.FLOAT, [3])], [(TP.FLOAT, [3])], [], meta)
        c["call_attrs"] = call_attrs
        wm = wrap_function(fp, c["in_types"], c["out_types"], call_attrs)
        c["feeds"] = GEN.feeds_for(wm, rng, 3)
        cases.append(c)
    return cases


# --------------------------------------------------------------------------- witnesses of the findings


def _mk(nodes, ins, outs, inits=(), name="g"):
    g = H.make_graph(
        nodes, name, [H.make_tensor_value_info(n, t, s) for n, t, s in ins],
        [H.make_tensor_value_info(n, t, s) for n, t, s in outs], initializer=list(inits),
    )  # fmt: skip
    return H.make_model(g, opset_imports=[H.make_opsetid("", GEN.OPSET)], ir_version=8)


def witnesses() -> list[tuple[str, dict, dict]]:
    """(finding id, case, options) — each is replayed against the real code on every run."""
    X = np.array([-1.0, 2.0, 3.0], dtype=np.float32)
    f3 = ("x", TP.FLOAT, [3])
    y3 = ("y", TP.FLOAT, [3])
    base = dict(rename=False, use_operators=False, inline_const=False, skip_initializers=False)
    out = []
    # D14
    m = _mk([H.make_node("Relu", ["x"], ["a.b"]), H.make_node("Neg", ["x"], ["a_b"]), H.make_node("Sub", ["a.b", "a_b"], ["y"])], [f3], [y3])
    out.append(("D14", case_of_model(m, [{"x": X}], {"refusal": None, "flags": ["witness"]}), dict(base)))
    # rename=True: the signature keeps the cleaned names, the body uses v1, v2, ...
    m = _mk([H.make_node("Relu", ["x"], ["t"]), H.make_node("Neg", ["t"], ["y"])], [f3], [y3])
    out.append(("C13-RENAME-SIG", case_of_model(m, [{"x": X}], {"refusal": None, "flags": ["witness"]}), dict(base, rename=True)))
    # nan / inf inline constants
    c = H.make_node("Constant", [], ["c"], value=H.make_tensor("value", TP.FLOAT, [], [float("nan")]))
    m = _mk([c, H.make_node("Add", ["x", "c"], ["y"])], [f3], [y3])
    out.append(("C13-NANINF", case_of_model(m, [{"x": X}], {"refusal": None, "flags": ["witness"]}), dict(base, inline_const=True)))
    # empty 1-D constant
    c = H.make_node("Constant", [], ["c"], value=H.make_tensor("value", TP.FLOAT, [0], []))
    m = _mk([c, H.make_node("Concat", ["x", "c"], ["y"], axis=0)], [f3], [y3])
    out.append(("C13-EMPTYLIST", case_of_model(m, [{"x": X}], {"refusal": None, "flags": ["witness"]}), dict(base, inline_const=True)))
    # (-3.0) ** x printed as -3.0 ** x
    c = H.make_node("Constant", [], ["c"], value=H.make_tensor("value", TP.FLOAT, [], [-3.0]))
    m = _mk([c, H.make_node("Pow", ["c", "x"], ["p"]), H.make_node("Relu", ["p"], ["y"])], [f3], [y3])
    xi = np.array([2.0, 1.0, 0.0], dtype=np.float32)
    out.append(("C13-POW-NEG", case_of_model(m, [{"x": xi}], {"refusal": None, "flags": ["witness"]}), dict(base, inline_const=True, use_operators=True)))
    # operators only: no opset in the function
    m = _mk([H.make_node("Add", ["x", "x"], ["y"])], [f3], [y3])
    out.append(("C13-OPS-NO-OPSET", case_of_model(m, [{"x": X}], {"refusal": None, "flags": ["witness"]}), dict(base, use_operators=True)))
    # skip_initializers without a large initializer: indented text
    m = _mk([H.make_node("Relu", ["x"], ["y"])], [f3], [y3])
    out.append(("C13-SKIP-INDENT", case_of_model(m, [{"x": X}], {"refusal": None, "flags": ["witness"]}), dict(base, skip_initializers=True)))
    # skip_initializers with a large INT64 initializer
    w = H.make_tensor("w", TP.INT64, [6], [0, 1, 2, 0, 1, 2])
    m = _mk([H.make_node("Gather", ["x", "w"], ["y"])], [f3], [("y", TP.FLOAT, [6])], inits=[w])
    out.append(("C13-SKIP-RAND", case_of_model(m, [{"x": X}], {"refusal": None, "flags": ["witness"]}), dict(base, skip_initializers=True)))
    # skip_initializers with a large BFLOAT16 initializer (what 7dcad6a left)
    w = H.make_tensor("w", TP.BFLOAT16, [6], [1.0, 2.0, 3.0, 1.0, 2.0, 3.0])
    m = _mk([H.make_node("Cast", ["w"], ["wf"], to=TP.FLOAT), H.make_node("ReduceMax", ["wf"], ["s"], keepdims=0),
             H.make_node("Add", ["x", "s"], ["y"])], [f3], [y3], inits=[w])
    out.append(("C13-SKIP-RAND-REST", case_of_model(m, [{"x": X}], {"refusal": None, "flags": ["witness"]}), dict(base, skip_initializers=True)))
    # for loop in a main graph
    body = H.make_graph(
        [H.make_node("Add", ["s_in", "x"], ["s_out"]), H.make_node("Identity", ["c_in"], ["c_out"])], "body",
        [H.make_tensor_value_info("i", TP.INT64, []), H.make_tensor_value_info("c_in", TP.BOOL, []), H.make_tensor_value_info("s_in", TP.FLOAT, [3])],
        [H.make_tensor_value_info("c_out", TP.BOOL, []), H.make_tensor_value_info("s_out", TP.FLOAT, [3])],
    )  # fmt: skip
    m = _mk([H.make_node("Loop", ["n", "", "x"], ["y"], body=body)], [f3, ("n", TP.INT64, [])], [y3])
    out.append(("C13-FOR-MAIN", case_of_model(m, [{"x": X, "n": np.array(2, dtype=np.int64)}], {"refusal": None, "flags": ["witness"]}), dict(base)))
    # trip count and condition both live: `if not cond: break` first in the body
    body = H.make_graph(
        [H.make_node("Add", ["s_in", "x"], ["s_out"]), H.make_node("ReduceSum", ["s_out"], ["tot"], keepdims=0),
         H.make_node("Constant", [], ["thr"], value=H.make_tensor("value", TP.FLOAT, [], [9.0])), H.make_node("Less", ["tot", "thr"], ["c_out"])],
        "body",
        [H.make_tensor_value_info("i", TP.INT64, []), H.make_tensor_value_info("c_in", TP.BOOL, []), H.make_tensor_value_info("s_in", TP.FLOAT, [3])],
        [H.make_tensor_value_info("c_out", TP.BOOL, []), H.make_tensor_value_info("s_out", TP.FLOAT, [3])],
    )  # fmt: skip
    m = _mk([H.make_node("Loop", ["n", "", "x"], ["y"], body=body)], [f3, ("n", TP.INT64, [])], [y3])
    out.append(("C13-LOOP-BREAK-NOINIT", case_of_model(m, [{"x": X, "n": np.array(3, dtype=np.int64)}], {"refusal": None, "flags": ["witness"]}), dict(base)))
    # the same loop WITH an initial condition input: still printed as for + first `if not c: break` (open, narrowed)
    m = _mk([H.make_node("Loop", ["n", "c0", "x"], ["y"], body=body)], [f3, ("n", TP.INT64, []), ("c0", TP.BOOL, [])], [y3])
    out.append(("C13-LOOP-BREAK", case_of_model(m, [{"x": X, "n": np.array(3, dtype=np.int64), "c0": np.array(True)}],
                                                {"refusal": None, "flags": ["witness"]}), dict(base)))
    # inlined constant used as a branch output
    tb = H.make_graph([H.make_node("Constant", [], ["k1"], value=H.make_tensor("value", TP.FLOAT, [3], [1.0, 2.0, 3.0]))], "t", [], [H.make_tensor_value_info("k1", TP.FLOAT, [3])])
    eb = H.make_graph([H.make_node("Neg", ["x"], ["k2"])], "e", [], [H.make_tensor_value_info("k2", TP.FLOAT, [3])])
    m = _mk(
        [H.make_node("ReduceSum", ["x"], ["s"], keepdims=0), H.make_node("Constant", [], ["z"], value=H.make_tensor("value", TP.FLOAT, [], [0.0])),
         H.make_node("Greater", ["s", "z"], ["c"]), H.make_node("If", ["c"], ["y"], then_branch=tb, else_branch=eb)],
        [f3], [y3],
    )  # fmt: skip
    out.append(("C13-INLINE-DANGLING", case_of_model(m, [{"x": X}], {"refusal": None, "flags": ["witness"]}), dict(base, inline_const=True)))
    # a value whose cleaned name is the alias of the opset module
    m = _mk([H.make_node("Relu", ["x"], ["opset18"]), H.make_node("Neg", ["opset18"], ["y"])], [f3], [y3])
    out.append(("C13-OPSET-NAME", case_of_model(m, [{"x": X}], {"refusal": None, "flags": ["witness"]}), dict(base)))
    # FunctionProto input whose Python name equals an attribute parameter (here through rename=True: input -> v1)
    nd = H.make_node("Elu", ["X"], ["y"])
    at = onnx.AttributeProto()
    at.name, at.type, at.ref_attr_name = "alpha", onnx.AttributeProto.FLOAT, "v2"
    nd.attribute.append(at)
    fp = H.make_function("this", "af_w", ["X"], ["y"], [nd], [H.make_opsetid("", GEN.OPSET)], attributes=["v2"])
    cw = case_of_function(fp, [(TP.FLOAT, [3])], [(TP.FLOAT, [3])], [{"in0": X}], {"refusal": None, "flags": ["witness"]})
    cw["call_attrs"] = {"v2": 0.5}
    out.append(("C13-ATTR-INPUT-CLASH", cw, dict(base, rename=True)))
    # a model with a model-local function: the call is printed through the Opset object, the definition is lost
    fp = H.make_function("my.dom", "helper", ["A", "B"], ["R"],
                         [H.make_node("Relu", ["A"], ["T"]), H.make_node("Add", ["T", "B"], ["R"])],
                         [H.make_opsetid("", GEN.OPSET)])
    g = H.make_graph([H.make_node("helper", ["x", "x"], ["t"], domain="my.dom"), H.make_node("Neg", ["t"], ["y"])], "g",
                     [H.make_tensor_value_info("x", TP.FLOAT, [3])], [H.make_tensor_value_info("y", TP.FLOAT, [3])])
    m = H.make_model(g, functions=[fp], opset_imports=[H.make_opsetid("", GEN.OPSET), H.make_opsetid("my.dom", 1)], ir_version=8)
    out.append(("C13-LOCAL-FUNCTIONS", case_of_model(m, [{"x": X}], {"refusal": None, "flags": ["witness"]}), dict(base)))
    # an If that is only read by another If which is dead: 0215218 drops the reader, the first If stays (open, narrowed)
    tb1 = H.make_graph([H.make_node("Neg", ["x"], ["q1"])], "t1", [], [H.make_tensor_value_info("q1", TP.FLOAT, [3])])
    eb1 = H.make_graph([H.make_node("Abs", ["x"], ["q2"])], "e1", [], [H.make_tensor_value_info("q2", TP.FLOAT, [3])])
    tb2 = H.make_graph([H.make_node("Relu", ["a"], ["q3"])], "t2", [], [H.make_tensor_value_info("q3", TP.FLOAT, [3])])
    eb2 = H.make_graph([H.make_node("Tanh", ["a"], ["q4"])], "e2", [], [H.make_tensor_value_info("q4", TP.FLOAT, [3])])
    m = _mk(
        [H.make_node("ReduceSum", ["x"], ["s"], keepdims=0), H.make_node("Constant", [], ["z"], value=H.make_tensor("value", TP.FLOAT, [], [0.0])),
         H.make_node("Greater", ["s", "z"], ["c"]), H.make_node("If", ["c"], ["a"], then_branch=tb1, else_branch=eb1),
         H.make_node("If", ["c"], ["unused"], then_branch=tb2, else_branch=eb2), H.make_node("Relu", ["x"], ["y"])],
        [f3], [y3],
    )  # fmt: skip
    out.append(("C13-DEAD-IF", case_of_model(m, [{"x": X}], {"refusal": None, "flags": ["witness"]}), dict(base)))
    # If whose outputs are never used
    tb = H.make_graph([H.make_node("Neg", ["x"], ["k1"])], "t", [], [H.make_tensor_value_info("k1", TP.FLOAT, [3])])
    eb = H.make_graph([H.make_node("Abs", ["x"], ["k2"])], "e", [], [H.make_tensor_value_info("k2", TP.FLOAT, [3])])
    m = _mk(
        [H.make_node("ReduceSum", ["x"], ["s"], keepdims=0), H.make_node("Constant", [], ["z"], value=H.make_tensor("value", TP.FLOAT, [], [0.0])),
         H.make_node("Greater", ["s", "z"], ["c"]), H.make_node("If", ["c"], ["unused"], then_branch=tb, else_branch=eb),
         H.make_node("Relu", ["x"], ["y"])],
        [f3], [y3],
    )  # fmt: skip
    out.append(("C13-DEAD-IF-DIRECT", case_of_model(m, [{"x": X}], {"refusal": None, "flags": ["witness"]}), dict(base)))
    # C13-INLINE-SCOPE (fixed by e0cdb9e; must-pass regression case): `t` is an inlinable Constant in the then-branch and a
    # computed value in the else-branch
    m = GEN.sibling_witness()
    feeds = [{"c": np.array(b), "x": np.array(3.0, dtype=np.float32)} for b in (True, False)]
    out.append(("C13-INLINE-SCOPE", case_of_model(m, feeds, {"refusal": None, "flags": ["witness"]}), dict(base, inline_const=True)))
    # C13-READ-SCOPE (fixed by ce0fc89; must-pass regression case): a dead If whose result name is read in the sibling
    # branch is dropped
    m = GEN.read_scope_witness()
    feeds = [{"c": np.array(b), "x": X} for b in (True, False)]
    out.append(("C13-READ-SCOPE", case_of_model(m, feeds, {"refusal": None, "flags": ["witness"]}), dict(base)))
    return out


# --------------------------------------------------------------------------- cleanup stream


def cleanup_stream(ctx: Ctx, rng, n: int) -> None:
    from onnxscript.backend.onnx_export import _cleanup_variable_name, kwlist

    alphabet = "abzAZ09_.-:/ $#@[]~if"
    names = [chr(c) for c in range(1, 128) if chr(c) not in "\n\r"]
    names += sorted(kwlist) + ["r_" + k for k in sorted(kwlist)] + [k + "x" for k in sorted(kwlist)] + [k.lower() for k in sorted(kwlist)]
    names += ["match", "case", "type", "_", "__", "a.b", "a_b", "5", "__5", "5a", "_5", "layers.0.weight", "x:0", "é"[:0] + "a"]
    for _ in range(n):
        ln = rng.choice([1, 2, 3, 4, 6, 9])
        names.append("".join(rng.choice(alphabet) for _ in range(ln)))
    names = [x for x in dict.fromkeys(names) if x]
    outs = ctx.drv.ask([f"cleanup {L.hx(x)}" for x in names] + [f"ident {L.hx(x)}" for x in names])
    k = len(names)
    for i, x in enumerate(names):
        real = _cleanup_variable_name(x)
        ctx.stats["cleanup_evals"] += 1
        if L.unhx(outs[i]) != real:
            ctx.tie_broken.append(({"kind": "cleanup", "name": x}, None, f"cleanup({x!r}): model {L.unhx(outs[i])!r} impl {real!r}"))
        is_ident = x.isidentifier() and x.isascii() and x not in kwlist
        if (outs[k + i] == "1") != is_ident:
            ctx.tie_broken.append(({"kind": "ident", "name": x}, None, f"isPyIdent({x!r}): model {outs[k + i]} python {is_ident}"))
        # the property-level fact the theorem proves, observed on the real function as well
        if not (real.isidentifier() and real not in kwlist):
            ctx.failures.append(({"kind": "cleanup", "name": x}, None, "cleanup", f"_cleanup_variable_name({x!r}) = {real!r} is not an identifier"))
    # the empty name: AssertionError on both sides
    if ctx.drv.ask([f"cleanup {L.hx('')}"])[0] != "ERR:AssertionError":
        ctx.tie_broken.append(({"kind": "cleanup", "name": ""}, None, "cleanup(''): model does not refuse"))


def literal_stream(ctx: Ctx, rng, n: int) -> None:
    """Value rendering of inlined INT64 constants (theorem `inline_const_repr_int64`): the real `_get_const_repr` on
    generated INT64 tensors against the Lean `constReprI64` (exact text / refusal), and the Lean reader `parse`
    against Python's own reading of the text (`ast.literal_eval`; the converter evaluates literals with Python) — on the
    exporter's texts and on mutants of them.  The round trip itself (text reads back as the tensor's values) is checked
    on the real side as well: a difference there is a property failure, not a tie failure."""
    import ast as _ast
    import re as _re

    from onnxscript.backend.onnx_export import _get_const_repr

    lim = [0, 1, -1, 2**63 - 1, -(2**63), 2**31, -(2**31) - 1, 10, -10, 100, 9, -9, 12345678901234]
    shapes = [[], [1], [2], [3], [4], [5], [0], [1, 1], [2, 2], [0, 3], [7]]
    jobs = []
    for k in range(n):
        dims = shapes[k % len(shapes)] if k < 4 * len(shapes) else rng.choice(shapes)
        cnt = int(np.prod(dims)) if dims else 1
        vals = [rng.choice(lim) if rng.random() < 0.5 else rng.randint(-(2**63), 2**63 - 1) >> rng.choice([0, 20, 40, 56, 60])
                for _ in range(cnt)]
        jobs.append((dims, vals))
    outs = ctx.drv.ask([f"litconst {len(d)} {' '.join(map(str, d))} {len(v)} {' '.join(map(str, v))}".replace("  ", " ")
                        for d, v in jobs])
    texts = []
    for (dims, vals), mo in zip(jobs, outs):
        ctx.stats["literal_evals"] += 1
        case = {"kind": "literal", "dims": dims, "vals": [str(v) for v in vals]}
        t = H.make_tensor("t", TP.INT64, dims, vals)
        node = H.make_node("Constant", [], ["c"], value=t)
        real = _get_const_repr(node)
        mt = None if mo == "none" else L.unhx(mo)
        if mo == "bad-op" or mt != real:
            ctx.tie_broken.append((case, None, f"_get_const_repr(INT64 {dims} {vals}): model {mt!r} impl {real!r}"))
            continue
        if real is None:
            ctx.stats["literal_not_inlined"] += 1
            continue
        ctx.stats["literal_scalar" if not dims else f"literal_list_{dims[0]}"] += 1
        if any(v < 0 for v in vals):
            ctx.stats["literal_negative"] += 1
        if any(v in (2**63 - 1, -(2**63)) for v in vals):
            ctx.stats["literal_int64_limit"] += 1
        want = vals[0] if not dims else vals
        try:
            back = _ast.literal_eval(real)
        except Exception as e:  # noqa: BLE001
            back = "ERR:" + type(e).__name__
        if back != want or (dims and not all(type(x) is int for x in back)) or (not dims and type(back) is not int):
            ctx.failures.append((case, None, "literal", f"_get_const_repr prints {real!r} for INT64 {dims} {vals}; Python reads it back as {back!r}"))
        texts.append((real, want))
    # the reader: Lean `parse` vs Python on the texts and on mutants
    mut = []
    for text, want in texts:
        mut.append(text)
        for _ in range(3):
            i = rng.randrange(len(text) + 1)
            kind = rng.choice(["del", "ins", "nosp", "lead0", "plus", "us", "dup"])
            if kind == "del" and text:
                m = text[:i] + text[i + 1:]
            elif kind == "ins":
                m = text[:i] + rng.choice(" -,[]0_.") + text[i:]
            elif kind == "nosp":
                m = text.replace(", ", ",", 1)
            elif kind == "lead0":
                m = _re.sub(r"(\d+)", lambda mm: "0" + mm.group(1), text, count=1)
            elif kind == "plus":
                m = "+" + text
            elif kind == "us":
                m = _re.sub(r"(\d)(\d)", r"\1_\2", text, count=1)
            else:
                m = text + text
            mut.append(m)
    mut = list(dict.fromkeys(mut))
    outs = ctx.drv.ask([f"litparse {L.hx(m)}" for m in mut])
    for m, mo in zip(mut, outs):
        ctx.stats["literal_parse_evals"] += 1
        case = {"kind": "literal-parse", "text": m}
        try:
            pv = _ast.literal_eval(m)
            ok = (type(pv) is int) or (type(pv) is list and all(type(x) is int for x in pv))
        except Exception:  # noqa: BLE001
            pv, ok = None, False
        if mo == "none":
            ctx.stats["literal_parse_model_rejects" + ("_python_accepts" if ok else "")] += 1
            continue
        tok = mo.split()
        mv = int(tok[1]) if tok[0] == "S" else [int(x) for x in tok[2:]]
        if ok and pv == mv and (type(pv) is list) == (tok[0] == "L"):
            ctx.stats["literal_parse_agree"] += 1
        elif not ok and pv is None and _re.search(r"(?<![0-9_])0[0-9_]", m):
            # Python's grammar forbids leading zeros (SyntaxError — a refusal, not another value); `parse` accepts them
            ctx.stats["literal_parse_leading_zero"] += 1
        else:
            ctx.tie_broken.append((case, None, f"reading of {m!r}: model {mo!r} python {pv!r}"))


# --------------------------------------------------------------------------- main


def opt_subset(rng, k: int):
    """k option tuples, always covering each flag on and off."""
    base = [L.OPTS16[0], L.OPTS16[15], L.OPTS16[0b0110], L.OPTS16[0b1001]]
    rest = [o for o in L.OPTS16 if o not in base]
    rng.shuffle(rest)
    return (base + rest)[:k]


def main(run: core.Run) -> None:
    import onnxruntime as ort

    ort.set_default_logger_severity(4)
    run.assumptions += [
        "A-py: CPython's ast/compile and `set` iteration order (the order of _names_used_in_function is an input of the model)",
        "A-op: onnxruntime CPU (optimisations off) is the runtime on which original and round-tripped models are compared",
        "rendering of FLOAT values (float repr) and make_tensor text is not modelled in Lean: in the exporter model literals "
        "are opaque tokens whose parsed-back value is compared with the original tensor in the harness (float32 bit patterns, "
        "never text); INT64 rendering is modelled (OV.C13V.render/parse) and tied to _get_const_repr and to Python's reading",
        "names are ASCII (str.isalpha/isalnum over non-ASCII is outside the model); model-local functions "
        "(ModelProto.functions) and attribute defaults (attribute_proto) are not generated",
        "output *names* of the round-tripped graph are not required to be preserved (counted in the histogram); "
        "input names must equal the cleaned original names, input/output types and order must be equal",
    ]
    t0 = time.time()
    audit = run.prove(PROP_MODULES)
    drv = core.Driver("C13")
    run.coverage["prove_and_build_seconds"] = round(time.time() - t0, 1)
    ctx = Ctx(run, drv)
    try:
        _main(run, ctx, audit)
    finally:
        ctx.close()


def _main(run: core.Run, ctx: Ctx, audit: dict) -> None:
    rng = run.rng
    if run.replay_path:
        body = json.loads(open(run.replay_path).read())
        cj = body["case"].get("case")
        if cj is None:
            print("REPLAY: the replay names a theorem/correspondence, not an input")
            return
        case = case_from_json(cj)
        optl = [cj["opts"]] if cj.get("opts") else L.OPTS16
        items = tie_cases(ctx, [case], lambda c: optl)
        for it in items:
            oracle(ctx, it)
        for c, o, d in ctx.tie_broken:
            print("REPLAY tie:", d)
        for c, o, stage, d in ctx.failures:
            print("REPLAY property:", stage, d)
        if ctx.failures or ctx.tie_broken:
            run.violation({"case": cj}, "replayed case still fails")
        run.coverage.update(evaluations=len(items), distinct_nontrivial=len(items))
        return

    drift = core.fingerprint_drift(
        "C13", "onnxscript/backend/onnx_export.py",
        ["_cleanup_variable_name", "_make_short_name_mapper", "_get_const_repr", "_Exporter._translate_node",
         "_Exporter._translate_if", "_Exporter._translate_loop", "_Exporter._translate_graph_body",
         "_Exporter._handle_attrname_conflict", "_Exporter._translate_graph", "_Exporter._translate_function"],
    )  # fmt: skip
    run.coverage["fingerprint_drift"] = drift
    scale = 3 if (drift and run.tier == "quick") else 1

    # 1. character-level stream for the clean-up function
    cleanup_stream(ctx, rng, run.size(1500, 20000))

    type_stream(ctx, rng, run.size(40, 400))
    table_stream(ctx)
    literal_stream(ctx, rng, run.size(300, 5000))

    # 2. witnesses of the known findings, on the real code
    open_ids = {f["id"] for f in run.open_findings()}
    for fid, case, opts in witnesses():
        before = ctx.known[fid]
        items = tie_cases(ctx, [case], lambda c, o=opts: [o])
        for it in items:
            oracle(ctx, it)
        ctx.stats["witness_" + fid + ("_reproduced" if ctx.known[fid] > before else "_not_reproduced")] += 1

    # 3. generated protos
    n_direct = run.size(104, 1200) * scale
    n_script = run.size(30, 300) * scale
    n_attr = run.size(24, 300) * scale
    k_opts_tie = 16
    k_oracle = run.size(16, 16)
    cases = gen_direct(rng, n_direct)
    scases, nrefused = gen_scripts(rng, n_script)
    ctx.stats["script_refused_by_converter"] = nrefused
    acases = gen_attr_functions(rng, n_attr)
    shcases = gen_shapes(rng, run.size(20, 200) * scale)
    lfcases = gen_local_functions(rng, run.size(6, 60) * scale)
    sbcases = gen_sibling(rng, run.size(16, 200) * scale)
    allcases = cases + scases + acases + shcases + lfcases + sbcases
    for c in allcases[:3] + scases[:2]:
        run.sample({"kind": c["kind"], "meta": {k: v for k, v in c["meta"].items() if k != "src"},
                    "text": onnx.printer.to_text(c["proto"])[:600]})  # fmt: skip
    for c in allcases:
        ctx.stats["case_" + c["meta"].get("scheme", "?")] += 1
        for fl in c["meta"].get("flags", []):
            ctx.stats["flag_" + fl] += 1
        if c["meta"].get("refusal"):
            ctx.stats["refusal_" + c["meta"]["refusal"]] += 1
    # tie first, for every case and all 16 option tuples (cheap) ...
    items = []
    for k in range(0, len(allcases), 20):
        items += tie_cases(ctx, allcases[k : k + 20], lambda c: L.OPTS16[:k_opts_tie])
    # ... then the execution oracle, the option tuples that can complete a round trip first
    deadline = time.time() + run.size(70, 720)  # counted after the proof step (which may wait for the build lock)
    core4 = ("0000", "0110", "0010", "0100")
    rng.shuffle(items)
    first = [it for it in items if L.opts_str(it[1]) in core4 or it[0]["kind"] == "F" or it[0]["meta"].get("flags") and "init" in it[0]["meta"]["flags"]]
    firstids = {id(it) for it in first}
    second = [it for it in items if id(it) not in firstids]
    for it in first + second:
        if it[0]["meta"].get("tie_only"):
            continue
        if time.time() < deadline:
            oracle(ctx, it)
        else:
            ctx.stats["oracle_skipped_budget"] += 1

    verdict(run, ctx, audit, len(allcases))


def verdict(run: core.Run, ctx: Ctx, audit: dict, ncases: int) -> None:
    st = ctx.stats
    for fid, n in sorted(ctx.known.items()):
        case, opts, stage, detail = ctx.known_example[fid]
        run.known(fid, f"{stage}: {detail[:220]} [opts={L.opts_str(opts)}; {n} case(s) in this run]")
    if ctx.failures:
        def size(f):
            c = f[0]
            return c["proto"].ByteSize() if "proto" in c else 0

        ctx.failures.sort(key=size)
        case, opts, stage, detail = ctx.failures[0]
        cj = case_json(case, opts) if "proto" in case else case
        run.violation(
            {"case": cj, "stage": stage, "detail": detail, "others": len(ctx.failures) - 1,
             "text": onnx.printer.to_text(case["proto"])[:3000] if "proto" in case else None},
            f"round trip fails at stage {stage} with options {L.opts_str(opts) if opts else '-'}: {detail[:300]}",
        )  # fmt: skip
    elif ctx.tie_broken:
        def size2(f):
            c = f[0]
            return c["proto"].ByteSize() if "proto" in c else 0

        ctx.tie_broken.sort(key=size2)
        case, opts, detail = ctx.tie_broken[0]
        cj = case_json(case, opts) if "proto" in case else case
        run.violation(
            {"case": cj, "detail": detail, "broken": "correspondence OV.C13.exportModel/exportFunction/cleanup vs onnx_export.py",
             "others": len(ctx.tie_broken) - 1},
            f"correspondence broken: {detail[:400]}; no input found on which the round trip itself fails",
            no_input=True,
        )  # fmt: skip
    if not audit["ok"]:
        run.violation(
            {"broken": "proof obligations of OV.Props.C13", "problems": audit["problems"], "log": audit["build_log"][-1500:]},
            "Lean proof obligations for C13 do not check: " + "; ".join(audit["problems"][:3]),
            no_input=True,
        )
    run.coverage.update(
        evaluations=st["exports"] + st["cleanup_evals"],
        distinct_nontrivial=st["exports"],
        rule="(proto, option tuple) pairs exported by the real proto2python and by the Lean model and compared as canonical "
        "programs; protos are distinct generated models/functions with >= 1 node",
        traces_validated_against_impl=st["tie_ok"] + st["cleanup_evals"],
        distribution=dict(sorted(st.items())),
        exhaustive=False,
        oracle_seconds=round(ctx.t_oracle, 1),
        explanation="all 16 option tuples are compared for every proto (tie); the execution oracle runs on a covering subset "
        "of option tuples per proto; single characters 1..127 and the keyword list are enumerated completely for cleanup",
    )
    required = ["stmt_call", "stmt_op", "stmt_assign", "stmt_if", "stmt_else", "stmt_for", "stmt_while", "stmt_forbreak",
                "stmt_wrap", "stmt_deco", "stmt_sig", "stmt_return", "err_KeyError", "err_NotImplementedError",
                "err_RuntimeError", "err_AssertionError", "err_IndexError", "fragment_cases", "fragment_reread_ok",
                "type_evals", "table_entries", "cleanup_evals", "literal_evals", "literal_scalar", "literal_list_1", "literal_list_4",
                "literal_not_inlined", "literal_negative", "literal_int64_limit", "literal_parse_agree",
                "literal_parse_model_rejects", "literal_parse_leading_zero", "import_lines_compared", "branch_attr_conflict_renamed", "branch_unique_suffix",
                "roundtrip_ok_with_if", "roundtrip_ok_with_loop_for", "roundtrip_ok_with_loop_while",
                "roundtrip_ok_with_init", "flag_loop_forcond", "flag_shapes", "flag_local_functions", "flag_attr_fn", "flag_loop_cond_identity_of_computed",
                "flag_local_order_given", "flag_local_order_reversed", "flag_forced_loop_identity", "flag_forced_loop_direct",
                "roundtrip_ok_with_forced_loop_identity",
                "flag_forced_loop_condpass", "flag_loop_passthrough_identity", "flag_forced_loop_constfalse", "flag_loop_cond_const_false", "roundtrip_ok_with_forced_loop_constfalse",
                "flag_sibling_reuse", "flag_sibling_reuse_const", "flag_sibling_reuse_plain",
                "roundtrip_ok_with_sibling_reuse", "roundtrip_ok_with_sibling_reuse_const",
                "roundtrip_ok_with_sibling_reuse_plain",
                "refused_as_expected"]  # fmt: skip
    missing = [k for k in required if not st[k]]
    run.coverage["required_counters"] = {k: st[k] for k in required}
    if missing and not run.violations:
        # a vacuous pass is not a pass — but never mask a behavioural difference: violations were printed above
        raise core.Infra(f"coverage counters are zero: {missing}")
    if st["oracle_cases"] and st["orig_not_runnable"] > 0.1 * st["oracle_cases"]:
        raise core.Infra("generator degenerated: >10% of original models not runnable")
    if st["exports"] < 16 * 0.7 * ncases:
        raise core.Infra("generator degenerated: too few cases")
    if st["oracle_cases"] and st["roundtrip_ok"] < 0.1 * st["oracle_cases"]:
        raise core.Infra("generator degenerated: <10% of oracle cases complete the round trip")
