"""C12 — Python literals are promoted identically by converter, eager mode and graph builder.

Proof obligations: lean/OV/Props/C12.lean (model lean/OV/Model/C12Autocast.lean, generated tables
lean/OV/Gen/C12*.lean).

Tie, two parts, both re-established on every run:
* translator  — harness/extract_schemas.py regenerates the signature tables from /repo's own schema
  readings (`values.Op(...).op_signature` and `BuilderBase._get_schema`) and the table theorems are
  re-checked by the kernel (`registry_ok`);
* correspondence — for operator signatures × argument positions × literals × sibling dtypes the operand
  actually handed to the operator is obtained from the REAL converter (emitted Constant/CastLike nodes of
  a compiled @script function), the REAL eager path (recording evaluator) and the REAL graph builder
  (`GraphBuilder._cast_inputs`, plus `op.X(...)` end to end on a sample), and compared with the Lean
  model's `castStatic` / `castDynamic` / `castBuilder` (tie) and with the rule `expected` (property).
  The constant cache is driven with promotion sequences and compared with the model's `promote`.
"""
from __future__ import annotations

import importlib
import json
import math
import os
import time
from collections import Counter
from fractions import Fraction

import numpy as np

from harness import core, extract_schemas, scriptgen

PROP_MODULES = ["OV.Props.C12"]

DT = {
    "FLOAT": np.float32, "DOUBLE": np.float64, "FLOAT16": np.float16,
    "INT8": np.int8, "INT16": np.int16, "INT32": np.int32, "INT64": np.int64,
    "UINT8": np.uint8, "UINT16": np.uint16, "UINT32": np.uint32, "UINT64": np.uint64,
    "BOOL": np.bool_,
}
NP2NAME = {np.dtype(v): k for k, v in DT.items()}
SIB = ["FLOAT", "DOUBLE", "FLOAT16", "INT64", "INT32", "UINT8", "BOOL"]
ANNOT = set(["FLOAT", "DOUBLE", "FLOAT16", "INT8", "INT16", "INT32", "INT64", "UINT8", "UINT16", "UINT32", "UINT64", "BOOL"])
LITSET = [0, 1, -3, 2.5, -0.0, True, [1, 2], [0.5]]

# --------------------------------------------------------------------------- literal encoding


def enc_scalar(x) -> str:
    if isinstance(x, bool):
        return "b1" if x else "b0"
    if isinstance(x, int):
        return f"i{x}"
    if isinstance(x, float):
        n, d = abs(x).as_integer_ratio()
        neg = math.copysign(1.0, x) < 0
        return f"f{'-' if neg else '+'}{n}/{d}"
    raise TypeError(x)


def enc_lit(x) -> str:
    if isinstance(x, list):
        return "l:" + ",".join(enc_scalar(e) for e in x)
    return "s:" + enc_scalar(x)


def dec_scalar(s: str):
    if s[0] == "b":
        return s[1] == "1"
    if s[0] == "i":
        return int(s[1:])
    n, d = s[2:].split("/")
    v = float(Fraction(int(n), int(d)))
    return -v if s[1] == "-" else v


def dec_lit(tok: str):
    kind, body = tok.split(":", 1)
    if kind == "l":
        return [dec_scalar(e) for e in body.split(",")]
    return dec_scalar(body)


def lit_src(x) -> str:
    return repr(x)


# --------------------------------------------------------------------------- result canonical form
# ("N",) | ("P", dtype) | ("C", dtype, isList, ndarray | None(unmodelled mask handled separately))


OUT_OF_RANGE = "out-of-range"


def sval_to_np(tok: str, dtype: str):
    """Decode one model SVal into a numpy scalar of `dtype`; None when the model says unmodelled."""
    npdt = DT[dtype]
    if tok == "u":
        return None
    if tok[0] == "b":
        return np.array(tok[1] == "1").astype(npdt)
    if tok[0] == "i":
        try:
            return np.array(int(tok[1:]), dtype=npdt)
        except OverflowError:
            return OUT_OF_RANGE  # the rule's value does not exist in this dtype: equal to no real tensor
    body, via = tok[1:].split("@")
    n, d = body[1:].split("/")
    x = float(Fraction(int(n), int(d)))
    if body[0] == "-":
        x = -x
    a = np.array(x, dtype=np.float64)
    if via == "1":
        a = a.astype(np.float32)
    with np.errstate(all="ignore"):
        return a.astype(npdt)


def parse_model(line: str):
    if line.startswith("ERR:"):
        return line
    toks = line.split(" ")
    assert toks[0] == "ok", line
    outs = []
    for t in toks[1:]:
        if t == "N":
            outs.append(("N",))
        elif t.startswith("P:"):
            outs.append(("P", t[2:]))
        else:
            _, dt, sl, vals = t.split(":", 3)
            outs.append(("C", dt, sl == "l", [sval_to_np(v, dt) for v in vals.split(",")]))
    return outs


def strip_trailing_none(outs):
    if isinstance(outs, str):
        return outs
    outs = list(outs)
    while outs and outs[-1] == ("N",):
        outs.pop()
    return outs


def same_out(real, model, stats=None) -> str | None:
    """None if equal; else a description.  Unmodelled elements are not compared (counted)."""
    if isinstance(real, str) or isinstance(model, str):
        return None if real == model else f"{real} vs {model}"
    real, model = strip_trailing_none(real), strip_trailing_none(model)
    if len(real) != len(model):
        return f"arity {len(real)} vs {len(model)}"
    for i, (r, m) in enumerate(zip(real, model)):
        if r[0] != m[0]:
            return f"pos {i}: {r[0]} vs {m[0]}"
        if r[0] == "P" and r[1] != m[1]:
            return f"pos {i}: tensor {r[1]} vs {m[1]}"
        if r[0] == "C":
            if r[1] != m[1]:
                return f"pos {i}: dtype {r[1]} vs {m[1]}"
            if r[2] != m[2]:
                return f"pos {i}: rank {'1' if r[2] else '0'} vs {'1' if m[2] else '0'}"
            ra = np.atleast_1d(r[3])
            if len(ra) != len(m[3]):
                return f"pos {i}: length {len(ra)} vs {len(m[3])}"
            for k, mv in enumerate(m[3]):
                if mv is None:
                    if stats is not None:
                        stats["unmodelled_elems"] += 1
                    continue
                if isinstance(mv, str) or ra[k : k + 1].tobytes() != np.atleast_1d(mv).tobytes():
                    return f"pos {i}: value {ra[k]!r} vs {mv!r}"
    return None


def as_model(outs):
    """A real result in the shape `same_out` expects on its right-hand side."""
    if isinstance(outs, str):
        return outs
    return [(o[0], o[1], o[2], list(np.atleast_1d(o[3]))) if o[0] == "C" else o for o in outs]


def show_out(outs) -> str:
    if isinstance(outs, str):
        return outs
    parts = []
    for o in outs:
        if o[0] == "?":
            parts.append(f"?{o[1:]}")
        elif o[0] == "N":
            parts.append("None")
        elif o[0] == "P":
            parts.append(f"tensor:{o[1]}")
        else:
            v = o[3]
            if isinstance(v, list):
                v = [e if (e is None or isinstance(e, str)) else e.item() for e in v]
            else:
                v = np.asarray(v).tolist()
            parts.append(f"{o[1]}{'[]' if o[2] else ''}={v!r}")
    return "(" + ", ".join(parts) + ")"


# --------------------------------------------------------------------------- cases


def formal_tok(f) -> str:
    tc, var, hom = f
    return f"F:{tc}:{1 if var else 0}:{1 if hom else 0}"


def case_line(mode: str, case: dict) -> str:
    fs = case["raw"] if mode in ("builder", "function") else case["sig"]
    if mode == "static":
        mode = f"staticat:{case['opset']}"  # the converter's promotion depends on the function's default opset (7b0eb49)
    args = list(case["args"])
    if mode == "dynamic":
        # `Opset._prepare_inputs` (the generated opset methods) drops trailing None before the evaluator sees the call
        while args and args[-1] == "n":
            args.pop()
    return f"cast {mode} " + " ".join(formal_tok(f) for f in fs) + " | " + " ".join(args)


def case_key(case: dict) -> str:
    return f"{case['op']}@{case['opset']} " + " ".join(case["args"])


def positions(sig) -> list[int]:
    n = len(sig)
    if sig and sig[-1][1]:
        return list(range(n + 2))
    return list(range(n))


def probe_args(n: int, p: int, lit, other: str) -> list[str]:
    m = max(n, p + 1)
    return [enc_lit(lit) if i == p else other for i in range(m)]


def well_typed(case: dict) -> bool:
    """Tensor operands sharing a type variable (in either reading) have one dtype."""
    for fs in (case["sig"], case["raw"]):
        seen: dict[str, str] = {}
        n = len(fs)
        for i, a in enumerate(case["args"]):
            if not a.startswith("t:"):
                continue
            if i < n:
                tc = fs[i][0]
            elif fs and fs[-1][1] and fs[-1][2]:
                tc = fs[-1][0]
            else:
                continue
            if "(" in tc:
                continue
            d = a.split(":")[1]
            if seen.setdefault(tc, d) != d:
                return False
    return True


# --------------------------------------------------------------------------- known-finding predicates

INT_RANGE = {k: (int(np.iinfo(v).min), int(np.iinfo(v).max)) for k, v in DT.items() if np.issubdtype(v, np.integer)}


def f32_exact(x: float) -> bool:
    return float(np.float32(x)) == x or x != x


def has_mixed_list(case: dict) -> bool:
    for tok in case["args"]:
        if tok.startswith("l:"):
            lit = dec_lit(tok)
            if len({type(x) for x in lit}) > 1:
                return True
    return False


def classify(case: dict, expected) -> str | None:
    """Which open finding's predicate (if any) a WellTyped case falls into, given the rule's dtypes."""
    if isinstance(expected, str):
        return None
    for tok, e in zip(case["args"], expected):
        if not (tok.startswith("s:") or tok.startswith("l:")):
            continue
        lit = dec_lit(tok)
        elems = lit if isinstance(lit, list) else [lit]
        dt = e[1]
        for x in elems:
            if dt in INT_RANGE and not (isinstance(x, float) and (x != x or abs(x) == float("inf"))):
                lo, hi = INT_RANGE[dt]
                if not (lo <= int(x) <= hi):  # int() truncates a float toward zero, as NumPy and ONNX Cast do
                    return "D21"
            if isinstance(x, float) and dt != "FLOAT" and not f32_exact(x):
                return "D23"
    return None


# --------------------------------------------------------------------------- real front end: converter


def np_cast(arr: np.ndarray, dtype: str) -> np.ndarray:
    with np.errstate(all="ignore"):
        return arr.astype(DT[dtype])


def static_sources(cases):
    """One @script function per case (one operator call each)."""
    bodies = []
    for i, case in enumerate(cases):
        params, call_args = [], []
        for j, a in enumerate(case["args"]):
            if a == "n":
                call_args.append("None")
            elif a.startswith("t:"):
                d = a.split(":")[1]
                params.append(f"x{j}: {d}[2]")
                if a.endswith(":0") and case["op"] != "Identity":
                    # a sibling whose dtype the converter does not know statically: an intermediate value
                    call_args.append(f"opset{case['opset']}.Identity(x{j})")
                else:
                    call_args.append(f"x{j}")
            else:
                call_args.append(lit_src(dec_lit(a)))
        v = case["opset"]
        src = (
            f"@script(default_opset=opset{v})\n"
            f"def f{i}({', '.join(params)}):\n"
            f"    r = opset{v}.{case['op']}({', '.join(call_args)})\n"
            f"    return r\n"
        )
        bodies.append((f"f{i}", src))
    return bodies


HEADER_EXTRA = (
    "from onnxscript import INT8, INT16, UINT16, UINT32, UINT64\n"
    + "".join(f"from onnxscript import opset{v}\n" for v in range(13, 24))
)


def all_nodes(graph):
    """Nodes of a graph and, depth first, of the subgraphs in its nodes' attributes (If/Loop/Scan bodies)."""
    out = []
    for n in graph:
        out.append(n)
        for a in n.attributes.values():
            if a.type.name == "GRAPH" and a.value is not None:
                out += all_nodes(a.value)
            elif a.type.name == "GRAPHS" and a.value:
                for g in a.value:
                    out += all_nodes(g)
    return out


def scope_audit(graph):
    """Name scoping of a translated function (what serialization keeps): every node input must be a graph input, an
    initializer or the output of an EARLIER node of the same graph or of an enclosing graph.  Returns (dangling, reuse):
    `dangling` = descriptions of operands that are not defined where they are read (such an operand has no dtype and no
    value: the literal/tensor it stands for never reaches the op); `reuse` = number of (constant, sibling) pairs that are
    CastLike'd/Cast in one block and needed again outside that block (sibling block or enclosing graph) — the class of
    programs on which a per-function memo of casts would hand out a value from a scope that is not visible."""
    dangling, first_path, reuse = [], {}, set()

    def visit(g, visible, path):
        visible = set(visible) | {v.name for v in g.inputs} | {k for k in getattr(g, "initializers", {})}
        for idx, n in enumerate(g):
            for v in n.inputs:
                if v is not None and v.name not in visible:
                    dangling.append(f"{n.op_type}({', '.join('' if w is None else str(w.name) for w in n.inputs)}) in graph {g.name!r} reads "
                                    f"{v.name!r}, which is not defined in its scope")
            if n.op_type in ("CastLike", "Cast") and n.inputs and n.inputs[0] is not None:
                # the pair is keyed the way a memo would key it; for a dangling read (the memo at work) recover it from the reader
                key = (n.inputs[0].name, n.inputs[1].name if len(n.inputs) > 1 and n.inputs[1] is not None else None)
                if key not in first_path:
                    first_path[key] = path
                elif path[: len(first_path[key])] != first_path[key]:
                    reuse.add(key)
            for a in n.attributes.values():
                if a.type.name == "GRAPH" and a.value is not None:
                    visit(a.value, visible, path + ((idx, a.name),))
                elif a.type.name == "GRAPHS" and a.value:
                    for j, sg in enumerate(a.value):
                        visit(sg, visible, path + ((idx, a.name, j),))
            visible |= {o.name for o in n.outputs if o is not None}

    visit(graph, set(), ())
    return dangling, len(reuse)


def audit_into(stats, graph):
    """Run `scope_audit`, count, and return the first dangling operand (or None)."""
    dangling, reuse = scope_audit(graph)
    stats["scope_audit_graphs"] += 1
    stats["scope_audit_cast_needed_again_outside_its_block"] += reuse
    return dangling[0] if dangling else None


def run_static(cases, stats, cast_log, sources=None):
    """Returns list of results (canonical outs or 'ERR:…' / 'REFUSED:…')."""
    import onnx_ir as ir

    fn, err, modname = scriptgen.compile_functions(sources or static_sources(cases), header_extra=HEADER_EXTRA)
    results = []
    for i, case in enumerate(cases):
        name = f"f{i}"
        if name in err:
            cls, msg = err[name]
            if "out of bounds" in msg or "OverflowError" in msg or "too large" in msg:
                results.append("ERR:overflow")
            elif "CastLike requires opset 15" in msg:
                results.append("ERR:refused")
                stats["static_refused_below_opset15"] += 1
            else:
                results.append(f"REFUSED:{cls}:{msg[:120]}")
                stats["static_refused"] += 1
                stats["refused:" + cls + ":" + msg.replace("\n", " ")[:60]] += 1
            continue
        try:
            graph = fn[name].function_ir.graph
            nodes = all_nodes(graph)
            bad = audit_into(stats, graph)
            if bad is not None:
                results.append([("?", "dangling operand: " + bad)])
                continue
            target = None
            for n in reversed(nodes):
                if n.op_type == case["op"]:
                    target = n
                    break
            if target is None:
                results.append("REFUSED:no-target-node")
                stats["static_refused"] += 1
                continue
            in_dtype = {}
            for v in graph.inputs:
                in_dtype[v.name] = v.dtype.name if v.dtype is not None else None
            def param_of(val):
                """The function input a value is (directly, or through the Identity the generator wraps untyped siblings in)."""
                pr = val.producer()
                if pr is None:
                    return val
                if pr.op_type == "Identity" and pr.inputs[0] is not None and pr.inputs[0].producer() is None:
                    return pr.inputs[0]
                return None

            outs = []
            for v in target.inputs:
                if v is None:
                    outs.append(("N",))
                    continue
                prod = v.producer()
                if prod is None or (prod.op_type == "Identity" and case["op"] != "Identity" and param_of(v) is not None):
                    outs.append(("P", in_dtype.get(param_of(v).name)))
                elif prod.op_type == "Constant":
                    t = prod.attributes["value"].value
                    arr = t.numpy()
                    outs.append(("C", t.dtype.name, arr.ndim == 1, arr))
                    stats["static_plain_const"] += 1
                elif prod.op_type == "CastLike" and prod.inputs[0].producer() is not None and prod.inputs[0].producer().op_type == "Constant":
                    t = prod.inputs[0].producer().attributes["value"].value
                    like = param_of(prod.inputs[1])
                    ld = in_dtype.get(like.name) if like is not None else None
                    if ld is None:
                        outs.append(("?", "castlike-to-nonparam"))
                        continue
                    arr = t.numpy()
                    cast_log.add((t.dtype.name, arr.tobytes(), arr.shape, ld))
                    outs.append(("C", ld, arr.ndim == 1, np_cast(arr, ld)))
                    stats["static_castlike"] += 1
                    case["_cast_emitted"] = True
                    if case["opset"] < 15:
                        case["_castlike_below15"] = True  # CastLike exists from opset 15 only (finding D47)
                elif prod.op_type == "Cast" and prod.inputs[0].producer() is not None and prod.inputs[0].producer().op_type == "Constant" \
                        and "value" in prod.inputs[0].producer().attributes:
                    # a literal promoted with Cast(to=<static type of the sibling>) — what the converter emits below opset 15 after fix D47
                    t = prod.inputs[0].producer().attributes["value"].value
                    ld = ir.DataType(prod.attributes["to"].value).name
                    arr = t.numpy()
                    cast_log.add((t.dtype.name, arr.tobytes(), arr.shape, ld))
                    outs.append(("C", ld, arr.ndim == 1, np_cast(arr, ld)))
                    stats["static_cast"] += 1
                    case["_cast_emitted"] = True
                else:
                    outs.append(("?", prod.op_type))
            results.append(outs)
        except Exception as e:  # reading the emitted graph failed: harness trouble, not a verdict
            raise core.Infra(f"cannot read converter output for {case_key(case)}: {type(e).__name__}: {e}")
    scriptgen.release(modname)
    return results


def validate_casts_on_ort(cast_log, stats):
    """A-op check: numpy `astype` used to evaluate the emitted CastLike == onnxruntime's CastLike,
    for every (constant, target dtype) seen whose result the model determines."""
    import onnx
    import onnxruntime as ort
    from onnx import TensorProto, helper, numpy_helper

    ort.set_default_logger_severity(4)
    items = sorted(cast_log, key=lambda t: (t[0], t[3], t[1]))
    nodes, outputs, expect = [], [], []
    for k, (src, raw, shape, dst) in enumerate(items):
        arr = np.frombuffer(raw, dtype=DT[src]).reshape(shape)
        if dst == "FLOAT16" and src == "DOUBLE":
            continue
        with np.errstate(all="ignore"):
            want = arr.astype(DT[dst])
        # skip implementation-defined conversions (float -> int out of range / negative to unsigned)
        if np.issubdtype(DT[src], np.floating) and np.issubdtype(DT[dst], np.integer):
            lo, hi = INT_RANGE[dst]
            if not np.all((np.trunc(arr) >= lo) & (np.trunc(arr) <= hi)):
                continue
        nodes.append(helper.make_node("Constant", [], [f"c{k}"], value=numpy_helper.from_array(arr, f"c{k}")))
        nodes.append(helper.make_node("Constant", [], [f"l{k}"], value=numpy_helper.from_array(np.zeros((1,), DT[dst]), f"l{k}")))
        nodes.append(helper.make_node("CastLike", [f"c{k}", f"l{k}"], [f"o{k}"]))
        outputs.append(helper.make_tensor_value_info(f"o{k}", helper.np_dtype_to_tensor_dtype(np.dtype(DT[dst])), list(shape)))
        expect.append((want, (src, dst, arr.tolist())))
    if not nodes:
        return []
    g = helper.make_graph(nodes, "casts", [], outputs)
    m = helper.make_model(g, opset_imports=[helper.make_opsetid("", 19)], ir_version=9)
    so = ort.SessionOptions()
    so.graph_optimization_level = ort.GraphOptimizationLevel.ORT_DISABLE_ALL
    so.log_severity_level = 4
    try:
        sess = ort.InferenceSession(m.SerializeToString(), so, providers=["CPUExecutionProvider"])
        got = sess.run(None, {})
    except Exception as e:
        raise core.Infra(f"onnxruntime cannot run the CastLike validation model: {e}")
    bad = []
    for g_, (want, desc) in zip(got, expect):
        stats["ort_cast_validated"] += 1
        if g_.tobytes() != want.tobytes():
            bad.append((desc, g_.tolist(), want.tolist()))
    return bad


# --------------------------------------------------------------------------- real front end: eager


class _Recorder:
    def __init__(self):
        from onnxscript._internal import evaluator

        outer = self

        class Rec(evaluator.BaseEvaluator):
            def _eval(self, schema, inputs, attributes, closure):
                outer.last = list(inputs)
                return [None]

        self.ev = Rec()
        self.last = None
        self.evaluator = evaluator


def py_args(case, mk_tensor):
    out, tensors = [], {}
    for j, a in enumerate(case["args"]):
        if a == "n":
            out.append(None)
        elif a.startswith("t:"):
            _, d, known = a.split(":")
            t = mk_tensor(j, d, known == "1")
            tensors[id(t)] = d
            out.append(t)
        else:
            out.append(dec_lit(a))
    return out, tensors


def err_kind(e: Exception) -> str:
    msg = str(e)
    if isinstance(e, OverflowError):
        return "ERR:overflow"
    if isinstance(e, ValueError) and "exceeds number of formal parameters" in msg:
        return "ERR:tooMany"
    if isinstance(e, IndexError):
        return "ERR:tooMany"  # `expected_inputs[-1]` on an operator without inputs
    if isinstance(e, ValueError) and "Initializer must have a name" in msg:
        return "ERR:refused"
    return f"ERR:other:{type(e).__name__}:{msg[:80]}"


def run_eager(rec: _Recorder, cases, stats):
    from onnxscript._internal import values
    from onnxscript.tensor import Tensor

    import onnxscript

    results = []
    for case in cases:
        opset = getattr(onnxscript, f"opset{case['opset']}")
        op = opset[case["op"]]
        args, tensors = py_args(case, lambda j, d, known: Tensor(np.zeros((2,), dtype=DT[d])))
        rec.last = None
        try:
            with rec.evaluator.default_as(rec.ev):
                op(*opset._prepare_inputs(op.op_schema, *args))
            outs = []
            for x in rec.last:
                if x is None:
                    outs.append(("N",))
                elif id(x) in tensors:
                    outs.append(("P", tensors[id(x)]))
                elif isinstance(x, Tensor):
                    arr = x.value
                    outs.append(("C", NP2NAME.get(arr.dtype, str(arr.dtype)), arr.ndim == 1, arr))
                else:
                    outs.append(("?", type(x).__name__))
            results.append(outs)
        except Exception as e:
            results.append(err_kind(e))
    return results


# --------------------------------------------------------------------------- real front end: builder


def new_builder(opset: int):
    import onnx_ir as ir
    from onnxscript._internal import builder as B

    g = ir.Graph(name="g", inputs=[], outputs=[], nodes=[], opset_imports={"": opset})
    return B.GraphBuilder(g)


def read_builder_value(v, tensors, cast_log):
    if v is None:
        return ("N",)
    if id(v) in tensors:
        return ("P", tensors[id(v)])
    prod = v.producer()
    if prod is None and v.const_value is not None:
        arr = v.const_value.numpy()
        return ("C", v.const_value.dtype.name, arr.ndim == 1, arr)
    if prod is not None and prod.op_type == "CastLike":
        c, like = prod.inputs
        if c.const_value is None or id(like) not in tensors:
            return ("?", "castlike-shape")
        arr = c.const_value.numpy()
        ld = tensors[id(like)]
        cast_log.add((c.const_value.dtype.name, arr.tobytes(), arr.shape, ld))
        return ("C", ld, arr.ndim == 1, np_cast(arr, ld))
    return ("?", prod.op_type if prod is not None else "value")


def run_builder(cases, stats, cast_log, end_to_end=False):
    import onnx_ir as ir

    results = []
    for case in cases:
        gb = new_builder(case["opset"])

        def mk(j, d, known):
            return gb.input(f"x{j}", getattr(ir.DataType, d), [2]) if known else gb.input(f"x{j}")

        args, tensors = py_args(case, mk)
        try:
            if end_to_end:
                # shape inference / constant propagation of the new node are not part of this property, and onnx's C++
                # shape inference can die with SIGFPE on zero-valued literal operands: switch both off for this builder
                gb._infer_shapes = lambda node: None
                gb._constant_propagation = lambda node: None
                r = getattr(gb.op, case["op"])(*args)
                node = (r[0] if isinstance(r, (list, tuple)) else r).producer()
                vals = list(node.inputs)
            else:
                schema = gb._get_schema(case["op"], "", case["opset"])
                vals = gb._cast_inputs(schema, args)
            results.append([read_builder_value(v, tensors, cast_log) for v in vals])
        except Exception as e:
            results.append(err_kind(e))
    return results


# --------------------------------------------------------------------------- the cache

SHORT = None


def short_names():
    global SHORT
    if SHORT is None:
        import onnx_ir as ir

        SHORT = {getattr(ir.DataType, k).short_name(): k for k in DT}
    return SHORT


def canon_real_name(name: str) -> str:
    assert name.startswith("const_"), name
    body = name[len("const_"):]
    if body.startswith("1d_"):
        return f"L:{body[3:]}"
    parts = body.rsplit("_", 1)
    sfx = "none"
    if len(parts) == 2 and parts[1] in short_names():
        body, sfx = parts[0], short_names()[parts[1]]
    if body in ("True", "False"):
        sc = "b1" if body == "True" else "b0"
    elif any(ch in body for ch in ".en"):
        sc = enc_scalar(float(body))
    else:
        sc = enc_scalar(int(body))
    return f"S:{sc}:{sfx}"


def run_cache_real(reqs, opset=18):
    """reqs: [(literal, dtype-name|None)].  Returns (answers, cache_size, values_by_request)."""
    import onnx_ir as ir

    gb = new_builder(opset)
    answers, got = [], []
    for lit, dt in reqs:
        try:
            v = gb._promote_constant(lit, getattr(ir.DataType, dt) if dt else None)
            arr = v.const_value.numpy()
            answers.append((canon_real_name(v.name), v.const_value.dtype.name, arr))
            got.append((v.name, arr))
        except Exception as e:
            answers.append(err_kind(e))
            got.append(None)
    return answers, len(gb._constant_cache), got


def cache_line(reqs) -> str:
    return "cache " + " ".join(f"{enc_lit(l)}@{d or 'none'}" for l, d in reqs)


def parse_cache_model(line: str):
    body, size = line.rsplit(" #", 1)
    outs = []
    for part in body.split(";") if body else []:
        if part.startswith("ERR:"):
            outs.append(part)
        else:
            name, rest = part.split("=", 1)
            dt, vals = rest.split(":", 1)
            outs.append((name, dt, [sval_to_np(v, dt) for v in vals.split(",")]))
    return outs, int(size)


def ideal_value(lit, dtype_name: str | None):
    """The tensor a literal should become under dtype (None: by Python type): bitwise, sign of zero included."""
    if dtype_name is None:
        h = lit[0] if isinstance(lit, list) else lit
        dtype_name = "BOOL" if isinstance(h, bool) else "INT64" if isinstance(h, int) else "FLOAT"
    try:
        return np.array(lit, dtype=DT[dtype_name])
    except OverflowError:
        return None


def gen_cache_seq(rng, n):
    scal = [0, 1, -3, 2.5, -0.0, 0.0, True, False, 1.0, 2, 0.5, -1, 255, 256, 3.0, -2.5, 7, 0.1]
    lists = [[1, 2], [0.5], [0.0], [-0.0], [1.0, 2.0], [True, False], [1, True], [0, 0], [0.0, 0.0], [3], [True], [1]]
    dts = [None, None, "FLOAT", "DOUBLE", "INT64", "INT32", "UINT8", "BOOL", "FLOAT16"]
    out = []
    for _ in range(n):
        lit = rng.choice(scal) if rng.random() < 0.65 else list(rng.choice(lists))
        out.append((lit, rng.choice(dts)))
    return out


def pred_d10(l1, l2) -> bool:
    """Two cache-equal keys that differ only in the sign of a zero."""
    a = l1 if isinstance(l1, list) else [l1]
    b = l2 if isinstance(l2, list) else [l2]
    if len(a) != len(b) or isinstance(l1, list) != isinstance(l2, list):
        return False
    diff = False
    for x, y in zip(a, b):
        if x != y:
            return False
        sx = math.copysign(1.0, x) if isinstance(x, float) else 1.0
        sy = math.copysign(1.0, y) if isinstance(y, float) else 1.0
        if x == 0 and sx != sy:
            diff = True
    return diff


def check_cache(run, drv, seqs, stats):
    """Returns (tie_problems, property_failures) for promotion sequences."""
    lines = [cache_line(s) for s in seqs]
    model = drv.ask(lines)
    tie, prop = [], []
    for seq, mline in zip(seqs, model):
        real, size, got = run_cache_real(seq)
        mouts, msize = parse_cache_model(mline)
        stats["cache_sequences"] += 1
        stats["cache_promotions"] += len(seq)
        ok = size == msize and len(real) == len(mouts)
        detail = f"size {size} vs {msize}"
        if ok:
            for r, m in zip(real, mouts):
                if isinstance(r, str) or isinstance(m, str):
                    if r != m:
                        ok, detail = False, f"{r} vs {m}"
                        break
                    stats["cache_err_" + r.split(":")[1]] += 1
                    continue
                if r[0] != m[0] or r[1] != m[1]:
                    ok, detail = False, f"{r[0]}/{r[1]} vs {m[0]}/{m[1]}"
                    break
                d = same_out([("C", r[1], False, r[2])], [("C", m[1], False, m[2])])
                if d:
                    ok, detail = False, d
                    break
        if not ok:
            tie.append((seq, detail))
        # property: requests that were answered with the same initializer must denote the same tensor
        first_by_name: dict[str, int] = {}
        for k, g in enumerate(got):
            if g is None:
                continue
            name, arr = g
            if name in first_by_name:
                stats["cache_hits"] += 1
                j = first_by_name[name]
                kd = seq[k][1]
                want = ideal_value(seq[k][0], kd if kd else None)
                if want is not None and (want.tobytes() != arr.tobytes() or want.dtype != arr.dtype):
                    prop.append((seq, j, k, f"promotion of {seq[k][0]!r} (dtype {kd}) was answered with initializer {name} "
                                 f"holding {arr.dtype}:{arr.tolist()!r} created for {seq[j][0]!r}; it should hold {want.dtype}:{want.tolist()!r}"))
            else:
                first_by_name[name] = k
        # names unique among distinct initializers
        names = [g[0] for g in got if g is not None]
    return tie, prop


# --------------------------------------------------------------------------- case generation


def sweep_cases(rows, rng, quick: bool, stats):
    """The registry sweep: rows × positions × literals × sibling configurations.

    quick: for one representative row per signature shape the full cross product over the literal set with
    3 sampled sibling dtypes (+ absent + same literal); for every other row, every position with 2
    sampled (literal, sibling) pairs.  thorough: the full cross product for every row."""
    seen_shapes = set()
    cases = []
    order = list(rows)
    rng.shuffle(order)
    for r in order:
        n = len(r["sig"])
        first = r["shape"] not in seen_shapes
        seen_shapes.add(r["shape"])
        opset = rng.choice(r["opsets"]) if quick else None
        for v in ([opset] if quick else [r["opsets"][0] if len(cases) % 2 == 0 else r["opsets"][-1]]):
            for p in positions(r["sig"]):
                if not quick or first:
                    sibs = SIB if not quick else rng.sample(SIB, 3)
                    for lit in LITSET:
                        others = [f"t:{d}:1" for d in sibs] + ["n", enc_lit(lit)]
                        others += [f"t:{d}:0" for d in (sibs if not quick else sibs[:1])]
                        for o in others:
                            cases.append(dict(op=r["op"], opset=v, sig=r["sig"], raw=r["raw"], args=probe_args(n, p, lit, o), kind="sweep"))
                else:
                    for _ in range(2):
                        lit = rng.choice(LITSET)
                        o = rng.choice([f"t:{d}:1" for d in SIB] + [f"t:{rng.choice(SIB)}:0", "n"])
                        cases.append(dict(op=r["op"], opset=v, sig=r["sig"], raw=r["raw"], args=probe_args(n, p, lit, o), kind="sweep"))
    return cases


EXTRA_LITS = [0.1, 1e-3, 3, 255, 256, -1, 2**31, 1.5, -2.5, False, 0.0, 16777217, [1, 2.5], [True, 1], [1, True],
              [True, False], [0.0, -0.0], [2, 3, 4], [-3], [0.1]]


def random_cases(rows, rng, n, stats):
    """Adversarial stream: several literals per call, conflicting sibling dtypes (first-wins vs last-wins),
    too many arguments, absent optionals, literals in variadic tails, non-homogeneous lists, unknown dtypes."""
    cases = []
    multi = [r for r in rows if len(r["sig"]) >= 2 or (r["sig"] and r["sig"][-1][1])]
    while len(cases) < n:
        r = rng.choice(multi if rng.random() < 0.85 else rows)
        nf = len(r["sig"])
        variadic = r["sig"][-1][1]
        u = rng.random()
        if variadic:
            m = nf + rng.choice([0, 1, 2, 3])
        elif u < 0.07:
            m = nf + rng.choice([1, 2])  # too many
        else:
            m = nf if rng.random() < 0.8 else rng.randint(max(1, nf - 1), nf)
        conflict = rng.random() < 0.4
        base = rng.choice(SIB)
        args = []
        for i in range(m):
            u = rng.random()
            if u < 0.45:
                d = rng.choice(SIB) if conflict else base
                args.append(f"t:{d}:{0 if rng.random() < 0.2 else 1}")
            elif u < 0.9:
                lit = rng.choice(LITSET + EXTRA_LITS)
                args.append(enc_lit(lit))
            else:
                args.append("n")
        while args and args[-1] == "n":  # trailing None is dropped by the generated opset methods before any cast
            args.pop()
        if not any(a[0] in "sl" for a in args):
            args.append(enc_lit(rng.choice(LITSET)))
        cases.append(dict(op=r["op"], opset=rng.choice(r["opsets"]), sig=r["sig"], raw=r["raw"], args=args, kind="random"))
    return cases


# --------------------------------------------------------------------------- converter: literals across scopes

SCOPE_OPS = {"Mul": "*", "Add": "+", "Sub": "-", "Div": "/"}
PLACEMENTS = ["if_outer", "loop_outer", "if_inner", "if_inline", "loop_inline", "top"]


def scope_source(i: int, case: dict) -> tuple[str, str]:
    """A script function in which the literal of a binary operator call sits in a chosen scope relation to the call:
    bound to a local name in the OUTER scope and used inside an If/Loop body (`*_outer`), bound inside the body
    (`if_inner`), written inline inside the body (`*_inline`), or bound and used at top level (`top`)."""
    v, op, pl = case["opset"], case["op"], case["placement"]
    toks = case["args"]
    lit_pos = 0 if toks[0][0] in "sl" else 1
    dt = toks[1 - lit_pos].split(":")[1]
    lit = lit_src(dec_lit(toks[lit_pos]))
    named = pl in ("if_outer", "loop_outer", "if_inner", "top")
    a = "a" if named else lit
    operands = (a, "x") if lit_pos == 0 else ("x", a)
    if case["form"] == "operator":
        expr = f"{operands[0]} {SCOPE_OPS[op]} {operands[1]}"
    else:
        expr = f"opset{v}.{op}({operands[0]}, {operands[1]})"
    L = [f"@script(default_opset=opset{v})"]
    if pl.startswith("loop"):
        L.append(f"def f{i}(x: {dt}[2], n: INT64):")
        if pl == "loop_outer":
            L.append(f"    a = {lit}")
        L += [f"    acc = opset{v}.Identity(x)", "    for i in range(n):", f"        t = {expr}",
              f"        acc = opset{v}.Max(acc, t)", "    return acc"]
    elif pl.startswith("if"):
        L.append(f"def f{i}(x: {dt}[2], c: BOOL):")
        if pl == "if_outer":
            L.append(f"    a = {lit}")
        L.append("    if c:")
        if pl == "if_inner":
            L.append(f"        a = {lit}")
        L += [f"        y = {expr}", "    else:", f"        y = opset{v}.Identity(x)", "    return y"]
    else:
        L += [f"def f{i}(x: {dt}[2]):", f"    a = {lit}", f"    y = {expr}", "    return y"]
    return f"f{i}", "\n".join(L) + "\n"


def scope_cases(byname, rng, n):
    cases = []
    combos = [(pl, form) for pl in PLACEMENTS for form in ("operator", "call")]
    k = 0
    while len(cases) < n:
        pl, form = combos[k % len(combos)]
        k += 1
        op = rng.choice(sorted(SCOPE_OPS))
        v = rng.choice([13, 15, 18, 21, 23])
        r = byname[(op, v)]
        lit = rng.choice(LITSET + [3, 0.1, [2, 3, 4]])
        dt = rng.choice(["DOUBLE", "FLOAT16", "FLOAT", "INT32", "INT64", "UINT8"])
        args = [enc_lit(lit), f"t:{dt}:1"] if rng.random() < 0.4 else [f"t:{dt}:1", enc_lit(lit)]
        cases.append(dict(op=op, opset=v, sig=r["sig"], raw=r["raw"], args=args, kind="scope", placement=pl, form=form))
    return cases


def scope_key(c):
    return f"{case_key(c)} [{c['placement']}/{c['form']}]"


def check_scope(run, drv, cases, stats, cast_log):
    """Converter only: the operand a scoped literal becomes vs `castStatic` (tie) and the rule (property)."""
    lines = []
    for c in cases:
        lines += [case_line("static", c), case_line("expected", c), case_line("repr", c)]
    outs = drv.ask(lines)
    res = run_static(cases, stats, cast_log, sources=[scope_source(i, c) for i, c in enumerate(cases)])
    problems = []
    for i, c in enumerate(cases):
        m_static, m_exp = parse_model(outs[3 * i]), parse_model(outs[3 * i + 1])
        representable = outs[3 * i + 2] == "1"
        r = res[i]
        stats["scope_cases"] += 1
        stats["scope_" + c["placement"]] += 1
        stats["static_cases"] += 1
        if isinstance(r, str) and r.startswith("REFUSED"):
            stats["scope_refused"] += 1
            continue
        src = scope_source(0, c)[1]
        if not isinstance(r, str) and any(o[0] == "?" for o in r):
            problems.append((c, "static", "tie", f"unreadable operand {r} in\n{src}"))
            continue
        if c.get("_castlike_below15"):
            stats["castlike_below_opset15"] += 1
            problems.append((c, "static", "property", f"[{c['placement']}/{c['form']}] CastLike emitted in an opset-{c['opset']} function (CastLike exists from opset 15 only)", "D47"))
        d = same_out(r, m_static, stats)
        if d:
            problems.append((c, "static", "tie", f"[{c['placement']}/{c['form']}] impl {show_out(r)} ; model {show_out(m_static)} : {d}"))
        d = same_out(r, m_exp)
        if d:
            fid = None if representable else classify(c, m_exp)
            if representable or fid:
                problems.append((c, "static", "property",
                                 f"[{c['placement']}/{c['form']}] converter feeds {show_out(r)} ; rule {show_out(m_exp)} : {d} ; program:\n{src}", fid))
            else:
                stats["outside_representable_not_judged"] += 1
    return problems


# --------------------------------------------------------------------------- converter: attribute parameters used as operands

ATTR_KINDS = {"bool": ("True", "s:b1", "BOOL"), "int": ("2", "s:i2", "INT64"), "float": ("0.5", "s:" + "f+1/2", "FLOAT")}


def attr_cases(byname, rng, n):
    """A script function's attribute parameter (bool/int/float, with or without default) used beside a tensor — at top
    level or inside an If body.  In eager mode it IS a Python number; the converter promotes it (`_to_onnx_var`:
    Constant(ref attr) [+ Cast to BOOL]) and must CastLike it to the sibling like any literal."""
    cases = []
    combos = [(k, d, pl, form) for k in ATTR_KINDS for d in (False, True) for pl in ("top", "if") for form in ("operator", "call")]
    i = 0
    while len(cases) < n:
        kind, dflt, pl, form = combos[i % len(combos)]
        i += 1
        op = rng.choice(sorted(SCOPE_OPS))
        v = rng.choice([15, 18, 21, 23])
        r = byname[(op, v)]
        dt = rng.choice(["DOUBLE", "FLOAT16", "FLOAT", "INT32", "INT64", "UINT8"])
        lit_first = rng.random() < 0.4
        args = [ATTR_KINDS[kind][1], f"t:{dt}:1"] if lit_first else [f"t:{dt}:1", ATTR_KINDS[kind][1]]
        cases.append(dict(op=op, opset=v, sig=r["sig"], raw=r["raw"], args=args, kind="attr", attr_kind=kind, default=dflt,
                          placement=pl, form=form))
    return cases


def attr_source(i: int, c: dict):
    v, op = c["opset"], c["op"]
    lit_pos = 0 if c["args"][0][0] == "s" else 1
    dt = c["args"][1 - lit_pos].split(":")[1]
    a = "alpha"
    operands = (a, "x") if lit_pos == 0 else ("x", a)
    expr = f"{operands[0]} {SCOPE_OPS[op]} {operands[1]}" if c["form"] == "operator" else f"opset{v}.{op}({operands[0]}, {operands[1]})"
    decl = f"alpha: {c['attr_kind']}" + (f" = {ATTR_KINDS[c['attr_kind']][0]}" if c["default"] else "")
    L = [f"@script(default_opset=opset{v})"]
    if c["placement"] == "if":
        L += [f"def f{i}(x: {dt}[2], c: BOOL, {decl}):", "    if c:", f"        y = {expr}", "    else:", f"        y = opset{v}.Identity(x)", "    return y"]
    else:
        L += [f"def f{i}(x: {dt}[2], {decl}):", f"    y = {expr}", "    return y"]
    return f"f{i}", "\n".join(L) + "\n"


def check_attr_params(run, drv, cases, stats):
    lines = []
    for c in cases:
        lines += [case_line("static", c), case_line("expected", c)]
    outs = drv.ask(lines)
    bodies = [attr_source(i, c) for i, c in enumerate(cases)]
    fn, err, modname = scriptgen.compile_functions(bodies, header_extra=HEADER_EXTRA)
    import onnx_ir as ir

    problems = []
    for i, c in enumerate(cases):
        m_static, m_exp = parse_model(outs[2 * i]), parse_model(outs[2 * i + 1])
        name = f"f{i}"
        stats["attr_cases"] += 1
        stats["attr_" + c["attr_kind"] + ("_default" if c["default"] else "")] += 1
        stats["static_cases"] += 1
        if name in err:
            stats["attr_refused"] += 1
            stats["attr_refused:" + err[name][0] + ":" + err[name][1].replace("\n", " ")[:50]] += 1
            continue
        graph = fn[name].function_ir.graph
        bad = audit_into(stats, graph)
        if bad is not None:
            problems.append((c, "static", "property", f"attribute parameter `alpha: {c['attr_kind']}`: the translated function is not well scoped: {bad} ; program:\n{bodies[i][1]}", None))
            continue
        target = next((nd for nd in reversed(all_nodes(graph)) if nd.op_type == c["op"]), None)
        if target is None:
            stats["attr_refused"] += 1
            continue
        in_dtype = {v.name: (v.dtype.name if v.dtype is not None else None) for v in graph.inputs}
        got = []
        for v in target.inputs:
            prod = v.producer() if v is not None else None
            if v is None:
                got.append(None)
            elif prod is None:
                got.append(in_dtype.get(v.name))
            elif prod.op_type == "CastLike":
                like = prod.inputs[1]
                got.append(in_dtype.get(like.name) if like.producer() is None else "?")
                stats["attr_castlike"] += 1
            elif prod.op_type == "Cast":
                got.append(ir.DataType(prod.attributes["to"].value).name)  # BOOL: the promoted bool attribute itself, not cast to the sibling
            elif prod.op_type == "Constant":
                a = next(iter(prod.attributes.values()))
                got.append({"value_float": "FLOAT", "value_int": "INT64"}.get(a.name, "?"))
            else:
                got.append("?")
        want = [o[1] for o in m_exp]
        want_model = [o[1] for o in m_static]
        src = bodies[i][1]
        if got != want_model:
            problems.append((c, "static", "tie", f"attribute parameter `alpha: {c['attr_kind']}`: converter operands have dtypes {got} ; model {want_model} ; program:\n{src}"))
        if got != want:
            problems.append((c, "static", "property", f"attribute parameter `alpha: {c['attr_kind']}` (a Python {c['attr_kind']} in eager mode) reaches {c['op']} with "
                             f"dtypes {got} ; rule {want} ; program:\n{src}", None))
    scriptgen.release(modname)
    return problems


# --------------------------------------------------------------------------- builder: FUNCTION bodies (build_function), serialized

FUNC_SAFE_OPS = ["Add", "Sub", "Mul", "Div", "Max", "Min", "Sum", "Mean", "Where", "Pow", "Equal", "Less", "Greater", "PRelu", "Clip", "And", "Or"]


def func_cases(rows, rng, n):
    rs = [r for r in rows if r["op"] in FUNC_SAFE_OPS]
    lits = LITSET + [0.1, 3, [2, 3, 4], 1.5, False, [1, 2.5]]
    cases = []
    while len(cases) < n:
        r = rng.choice(rs)
        nf = len(r["sig"])
        m = nf + (rng.choice([0, 1, 2]) if r["sig"][-1][1] else 0)
        base = rng.choice(["FLOAT16", "DOUBLE", "INT32", "UINT8", "FLOAT", "INT64", "BOOL"])
        args = []
        for i in range(m):
            u = rng.random()
            if i == 0 or u < 0.4:
                args.append(f"t:{base}:{0 if rng.random() < 0.15 else 1}")
            elif u < 0.95:
                args.append(enc_lit(rng.choice(lits)))
            else:
                args.append("n")
        while args and args[-1] == "n":
            args.pop()
        if not any(a[0] in "sl" for a in args):
            args[-1] = enc_lit(rng.choice(lits))
        cases.append(dict(op=r["op"], opset=rng.choice(r["opsets"]), sig=r["sig"], raw=r["raw"], args=args, kind="function"))
    return cases


def run_function_bodies(cases, stats):
    """Trace each call as the body of an ir.Function with `builder.build_function`, serialize the function, and read the
    operands of the operator from the FunctionProto (Constant nodes in any of their attribute forms, CastLike)."""
    import onnx
    import onnx_ir as ir
    from onnx import numpy_helper

    from onnxscript._internal import builder as B

    results = []
    for case in cases:
        tensors, in_vals, lits = {}, [], []
        for j, a in enumerate(case["args"]):
            if a.startswith("t:"):
                _, d, known = a.split(":")
                v = ir.Value(name=f"x{j}", type=ir.TensorType(getattr(ir.DataType, d)) if known == "1" else None, shape=ir.Shape([2]) if known == "1" else None)
                tensors[f"x{j}"] = d
                in_vals.append(v)

        def trace(op, *xs, case=case):
            it = iter(xs)
            call = [next(it) if a.startswith("t:") else (None if a == "n" else dec_lit(a)) for a in case["args"]]
            return getattr(op, case["op"])(*call)

        try:
            fn = B.build_function(trace, in_vals, domain="c12.test", name="F", opset_imports={"": case["opset"]})
            fp = ir.serde.serialize_function(fn)
        except Exception as e:
            results.append(err_kind(e))
            continue
        producers = {o: n for n in fp.node for o in n.output}
        target = next((n for n in reversed(fp.node) if n.op_type == case["op"]), None)
        if target is None:
            results.append("ERR:other:no-target")
            continue

        def const_of(node):
            a = node.attribute[0]
            if a.name == "value":
                arr = numpy_helper.to_array(a.t)
            elif a.name == "value_float":
                arr = np.array(a.f, dtype=np.float32)
            elif a.name == "value_int":
                arr = np.array(a.i, dtype=np.int64)
            elif a.name == "value_floats":
                arr = np.array(list(a.floats), dtype=np.float32)
            elif a.name == "value_ints":
                arr = np.array(list(a.ints), dtype=np.int64)
            else:
                return None
            stats["function_const_" + a.name] += 1
            return arr

        outs = []
        for name in target.input:
            if name == "":
                outs.append(("N",))
            elif name in tensors:
                outs.append(("P", tensors[name]))
            else:
                node = producers.get(name)
                if node is not None and node.op_type == "Constant":
                    arr = const_of(node)
                    outs.append(("?", "constant-form") if arr is None else ("C", NP2NAME.get(arr.dtype, str(arr.dtype)), arr.ndim == 1, arr))
                elif node is not None and node.op_type == "CastLike" and node.input[1] in tensors and producers.get(node.input[0]) is not None \
                        and producers[node.input[0]].op_type == "Constant":
                    arr = const_of(producers[node.input[0]])
                    ld = tensors[node.input[1]]
                    outs.append(("?", "constant-form") if arr is None else ("C", ld, arr.ndim == 1, np_cast(arr, ld)))
                else:
                    outs.append(("?", node.op_type if node is not None else name))
        results.append(outs)
    return results


def check_function_bodies(run, drv, cases, stats):
    lines = []
    for c in cases:
        lines += [case_line("function", c), case_line("expected", c), case_line("repr", c)]
    outs = drv.ask(lines)
    real = run_function_bodies(cases, stats)
    problems = []
    for i, c in enumerate(cases):
        m_b, m_e = parse_model(outs[3 * i]), parse_model(outs[3 * i + 1])
        representable = outs[3 * i + 2] == "1"
        r = real[i]
        stats["function_cases"] += 1
        stats["builder_cases"] += 1
        if isinstance(r, str) and r.startswith("ERR:other"):
            stats["function_other_error"] += 1
            stats["function_err:" + r[:70]] += 1
            continue
        if not isinstance(r, str) and any(o[0] == "?" for o in r):
            problems.append((c, "builder", "tie", f"function body: unreadable operand {r}"))
            continue
        d = same_out(r, m_b, stats)
        if d:
            problems.append((c, "builder", "tie", f"[serialized function body] impl {show_out(r)} ; model {show_out(m_b)} : {d}"))
        if well_typed(c):
            d = same_out(r, m_e)
            if d:
                fid = None if representable else classify(c, m_e)
                if representable or fid:
                    problems.append((c, "builder", "property", f"[build_function body, serialized] the operator is fed {show_out(r)} ; rule {show_out(m_e)} : {d}", fid))
                else:
                    stats["outside_representable_not_judged"] += 1
    return problems


# --------------------------------------------------------------------------- converter: castable bookkeeping (OV.Scope)

SCOPE_LITS = ["2", "2.5", "True", "[1, 2]", "-3", "0.5"]


def gen_scope_program(rng, pool=4, max_depth=3, top_len=9):
    """A random function body as (a) the instruction list of OV.Scope and (b) Python source.  Names `v<n>` (n < pool) may
    be rebound anywhere; every If binds its live outputs in both branches and they are used right after it, so that the
    converter's liveness analysis and the model's `exit outs` coincide; block-local temporaries get unique names."""
    st = dict(k=0, tmp=100, uses=0)
    instrs, lines = [], []

    def bind(n, indent, visible, lit=None):
        lit = rng.random() < 0.5 if lit is None else lit
        if lit:
            instrs.append(f"L{n}")
            lines.append("    " * indent + f"v{n} = {rng.choice(SCOPE_LITS)}")
        else:
            instrs.append(f"T{n}")
            lines.append("    " * indent + f"v{n} = x + x")
        visible[-1].add(n)

    def use(n, indent):
        k = st["uses"]
        st["uses"] += 1
        instrs.append(f"U{n}")
        lines.append("    " * indent + f"u{k} = x * v{n}")

    def vis(visible):
        return sorted(set().union(*visible))

    def block(indent, depth, visible, bindable, length):
        for _ in range(length):
            r = rng.random()
            v = vis(visible)
            if r < 0.35 and bindable:
                bind(rng.choice(bindable), indent, visible)
            elif r < 0.45:
                st["tmp"] += 1
                bind(st["tmp"], indent, visible)
                use(st["tmp"], indent)
            elif r < 0.8 and v:
                use(rng.choice(v), indent)
            elif depth < max_depth:
                if_stmt(indent, depth, visible, bindable)
            elif v:
                use(rng.choice(v), indent)

    def if_stmt(indent, depth, visible, bindable):
        outs = [n for n in bindable if rng.random() < 0.4]
        st["tmp"] += 1
        dummy = st["tmp"]
        lines.append("    " * indent + "if c:")
        instrs.append("E")
        visible.append(set())
        block(indent + 1, depth + 1, visible, outs, rng.randint(1, 4))
        for n in outs:
            if n not in visible[-1]:
                bind(n, indent + 1, visible)
        bind(dummy, indent + 1, visible, lit=False)
        visible.pop()
        instrs.append("X:")
        lines.append("    " * indent + "else:")
        instrs.append("E")
        visible.append(set())
        v = vis(visible)
        if v and rng.random() < 0.6:
            use(rng.choice(v), indent + 1)
        for n in outs:
            bind(n, indent + 1, visible, lit=rng.random() < 0.3)
        bind(dummy, indent + 1, visible, lit=False)
        visible.pop()
        live = sorted(outs + [dummy], key=lambda n: f"v{n}")
        instrs.append("X:" + ",".join(map(str, live)))
        visible[-1].update(live)
        for n in live:
            use(n, indent)

    visible = [set()]
    bind(0, 1, visible, lit=True)
    block(1, 0, visible, list(range(pool)), top_len)
    body = "\n".join(lines)
    return instrs, body, st["uses"]


def check_scope_model(run, drv, progs, stats):
    """`Converter._is_castable` at every use of a named operand vs OV.Scope.run."""
    bodies = []
    for i, (instrs, body, nuses) in enumerate(progs):
        src = (f"@script(default_opset=opset18)\ndef f{i}(x: DOUBLE[2], c: BOOL):\n{body}\n    r = x + x\n    return r\n")
        bodies.append((f"f{i}", src))
    answers = drv.ask(["scope " + " ".join(instrs) for instrs, _, _ in progs])
    fn, err, modname = scriptgen.compile_functions(bodies, header_extra=HEADER_EXTRA)
    problems = []
    for i, (instrs, body, nuses) in enumerate(progs):
        name = f"f{i}"
        stats["scopemodel_programs"] += 1
        if name in err:
            stats["scopemodel_refused"] += 1
            stats["scopemodel_refused:" + err[name][0] + ":" + err[name][1].replace("\n", " ")[:50]] += 1
            continue
        model = answers[i].split(" ") if answers[i] else []
        real = {}
        bad = audit_into(stats, fn[name].function_ir.graph)
        if bad is not None:
            problems.append((" ".join(instrs), bodies[i][1], f"the translated function is not well scoped: {bad}"))
            continue
        for n in all_nodes(fn[name].function_ir.graph):
            if n.op_type == "Mul" and n.outputs and n.outputs[0].name and n.outputs[0].name.startswith("u"):
                k = n.outputs[0].name[1:]
                if k.isdigit():
                    prod = n.inputs[1].producer() if n.inputs[1] is not None else None
                    real[int(k)] = "1" if (prod is not None and prod.op_type == "CastLike") else "0"
        got = [real.get(k, "?") for k in range(nuses)]
        stats["scopemodel_uses"] += nuses
        stats["scopemodel_castable"] += got.count("1")
        stats["scopemodel_depth_max"] = max(stats["scopemodel_depth_max"], max((ln.count("    ") for ln in body.split("\n")), default=0))
        if got != model:
            k = next((j for j in range(min(len(got), len(model))) if got[j] != model[j]), None)
            problems.append((" ".join(instrs), bodies[i][1], f"use #{k}: converter {'CastLikes' if k is not None and got[k] == '1' else 'does not CastLike'} the operand, "
                             f"model says {model[k] if k is not None else model}; all uses impl={''.join(got)} model={''.join(model)}"))
    scriptgen.release(modname)
    return problems


# --------------------------------------------------------------------------- converter: structured programs with loops (round 5)
#
# Free-form statement trees (no contrived live outputs): literal / tensor assignments, uses, `if c:` with both branches,
# `for i in range(3):`, `while w:`.  The live outputs of every If and the loop-carried names of every loop are computed
# HERE, independently of onnxscript/_internal/analysis.py (same definitions: liveness with loops iterated to a fixed point,
# `exposed_uses`, `assigned_vars`), and handed to the model as annotations of `XB:`/`I:`/`F..:`/`XL:`.  A disagreement of
# the analysis therefore shows up as a disagreement of this stream (refusal or castable answers).


def _nid(name: str) -> int:
    return {"v": 0, "i": 1000, "w": 2000}[name[0]] + int(name[1:])


def ast_assigned(block) -> set:
    out = set()
    for s in block:
        k = s[0]
        if k in ("lit", "ten", "wupd"):
            out.add(s[1])
        elif k == "if":
            out |= ast_assigned(s[1]) | ast_assigned(s[2])
        elif k == "for":
            out |= ast_assigned(s[2]) | {s[1]}
        elif k == "while":
            out |= ast_assigned(s[2])
    return out


def ast_live_block(block, out, rec):
    for s in reversed(block):
        out = ast_live_stmt(s, out, rec)
    return out


def ast_live_stmt(s, out, rec):
    rec[id(s)] = frozenset(out)
    k = s[0]
    if k in ("lit", "ten"):
        return out - {s[1]}
    if k == "wupd":
        return (out - {s[1]}) | {s[1]}
    if k == "use":
        return out | {s[1]}
    if k == "if":
        return ast_live_block(s[1], out, rec) | ast_live_block(s[2], out, rec)
    if k == "for":
        prev, curr = None, out
        while curr != prev:
            prev = curr
            curr = (ast_live_block(s[2], prev, rec) - {s[1]}) | out
        return curr
    if k == "while":
        cond = {s[1]}
        prev, curr = None, out | cond
        while curr != prev:
            prev = curr
            curr = ast_live_block(s[2], prev, rec) | cond | out
        return curr
    raise AssertionError(k)


def ast_exposed(block, out=frozenset()):
    out = set(out)
    for s in reversed(block):
        k = s[0]
        if k in ("lit", "ten"):
            out = out - {s[1]}
        elif k == "wupd":
            out = (out - {s[1]}) | {s[1]}
        elif k == "use":
            out = out | {s[1]}
        elif k == "if":
            out = ast_exposed(s[1], out) | ast_exposed(s[2], out)
        elif k == "for":
            out = (ast_exposed(s[2]) - {s[1]}) | (out - {s[1]})
        elif k == "while":
            out = ast_exposed(s[2]) | {s[1]} | out
    return out


def ast_compile(block, rec, instrs, lines, indent, stats=None):
    """The converter's order of operations on a block -> OV.Scope instructions, and the Python text."""
    pad = "    " * indent
    names = lambda ns: ",".join(str(_nid(n)) for n in sorted(ns))
    for s in block:
        k = s[0]
        if k == "lit":
            instrs.append(f"L{_nid(s[1])}")
            lines.append(f"{pad}{s[1]} = {s[2]}")
        elif k == "ten":
            instrs.append(f"T{_nid(s[1])}")
            lines.append(f"{pad}{s[1]} = {'x + x' if s[1][0] == 'v' else 'opset18.Not(c)'}")
        elif k == "wupd":
            instrs.append(f"T{_nid(s[1])}")
            lines.append(f"{pad}{s[1]} = opset18.Not({s[1]})")
        elif k == "use":
            instrs.append(f"U{_nid(s[1])}")
            lines.append(f"{pad}u{s[2]} = x * {s[1]}")
        elif k == "if":
            outs = (ast_assigned(s[1]) | ast_assigned(s[2])) & rec[id(s)]
            lines.append(f"{pad}if c:")
            instrs.append("E")
            ast_compile(s[1], rec, instrs, lines, indent + 1, stats)
            instrs.append("XB:" + names(outs))
            if s[2]:
                lines.append(f"{pad}else:")  # an If without else: the else block is translated as an empty block
            instrs.append("E")
            ast_compile(s[2], rec, instrs, lines, indent + 1, stats)
            instrs.append("XB:" + names(outs))
            instrs.append("I:" + names(outs))
        elif k in ("for", "while"):
            state = ast_assigned(s[2]) & (ast_exposed(s[2]) | rec[id(s)])
            if k == "for":
                lines.append(f"{pad}for {s[1]} in range(3):")
                instrs.append(f"F{_nid(s[1])}:" + names(state))
            else:
                lines.append(f"{pad}while {s[1]}:")
                instrs.append("F-:" + names(state))
            ast_compile(s[2], rec, instrs, lines, indent + 1, stats)
            instrs.append("XL:" + names(state))


def gen_scope_ast(rng, pool=4, max_depth=3, top_len=8, wild=0.02):
    """A random statement tree as (instructions of OV.Scope, Python body, number of uses).  `defined` tracks the names that
    have a value on every path (so that most programs are accepted); with probability `wild` per choice the generator
    ignores it, which produces each of the modelled refusals."""
    st = dict(uses=0, loops=0, tmp=100)

    def pick_use(defined):
        if defined and rng.random() >= wild:
            return rng.choice(sorted(defined))
        return f"v{rng.randrange(pool)}"

    def stmt_use(n):
        st["uses"] += 1
        return ("use", n, st["uses"] - 1)

    def assign(n, defined, lit=None):
        lit = rng.random() < 0.5 if lit is None else lit
        defined.add(n)
        return ("lit", n, rng.choice(SCOPE_LITS)) if lit else ("ten", n)

    def pick_target(defined, in_loop):
        # inside a loop a name without a value before the loop cannot be carried: prefer names that have one
        if in_loop and rng.random() >= wild:
            cand = sorted(n for n in defined if n[0] == "v" and int(n[1:]) < pool)
            if cand:
                return rng.choice(cand)
        return f"v{rng.randrange(pool)}"

    def block(depth, length, defined, in_loop):
        out = []
        for _ in range(length):
            r = rng.random()
            if r < 0.33:
                out.append(assign(pick_target(defined, in_loop), defined))
            elif r < 0.40:
                st["tmp"] += 1
                out.append(assign(f"v{st['tmp']}", defined))
                out.append(stmt_use(f"v{st['tmp']}"))
            elif r < 0.70 or depth >= max_depth:
                out.append(stmt_use(pick_use(defined)))
            else:
                q = rng.random()
                if q < 0.45:
                    d1, d2 = set(defined), set(defined)
                    thn = block(depth + 1, rng.randint(1, 3), d1, in_loop)
                    els = block(depth + 1, rng.randint(0, 3), d2, in_loop)
                    for n in sorted(ast_assigned(thn) - ast_assigned(els) - defined):
                        if n[0] == "v" and rng.random() >= wild:
                            els.append(assign(n, d2))  # a live output needs a value on both sides
                    both = d1 & d2
                    out.append(("if", thn, els))
                    cand = sorted(n for n in (ast_assigned(thn) | ast_assigned(els)) & both if n[0] == "v")
                    if not cand and rng.random() >= wild:
                        n = pick_target(defined, in_loop)
                        thn.append(assign(n, d1))
                        if n not in defined:
                            els.append(assign(n, d2))
                        both = d1 & d2
                        cand = [n]
                    defined |= both
                    for n in cand:
                        if rng.random() < 0.6 or n == cand[0]:
                            out.append(stmt_use(n))
                else:
                    st["loops"] += 1
                    is_for = q < 0.8
                    lv = f"i{st['loops']}" if is_for else f"w{st['loops']}"
                    if not is_for:
                        out.append(("ten", lv))
                    d1 = set(defined) | ({lv} if is_for else set())
                    body = block(depth + 1, rng.randint(1, 4), d1, True)
                    carried = sorted(n for n in ast_assigned(body) & defined if n[0] == "v")
                    if is_for and not carried and rng.random() >= wild:
                        n = pick_target(defined, True)
                        if n in defined:
                            body.append(assign(n, d1))
                            carried = [n]
                    if not is_for:
                        body.append(("wupd", lv))
                    out.append(("for" if is_for else "while", lv, body))
                    for n in carried:
                        if rng.random() < 0.6 or n == carried[0]:
                            out.append(stmt_use(n))
        if not out and length:
            out.append(assign(pick_target(defined, in_loop), defined))
        return out

    defined = set()
    prog = [assign("v0", defined, lit=True)] + block(0, top_len, defined, False)
    rec = {}
    ast_live_block(prog, frozenset(), rec)
    instrs, lines = [], []
    ast_compile(prog, rec, instrs, lines, 1)
    return instrs, "\n".join(lines), st["uses"]


def scope_ast_fixed():
    """Boundary programs, always run first: each modelled refusal once, and the If/Loop boundary shapes (C01-D24)."""
    U = lambda n, k: ("use", n, k)
    progs = [
        [("lit", "v0", "2"), ("for", "i1", [U("v0", 0)])],                                            # loop has no effect
        [("lit", "v0", "2"), ("for", "i1", [("lit", "v1", "2")]), U("v1", 0)],                        # carried name unbound before the loop
        [("lit", "v0", "2"), ("if", [("lit", "v1", "2")], [("lit", "v0", "3")]), U("v1", 0)],         # live output missing on one side
        [("lit", "v0", "2"), ("if", [("lit", "v1", "2")], []), U("v1", 0)],                            # the same without else (IndexError variant)
        [("lit", "v0", "2"), ("if", [("lit", "v1", "2")], [("lit", "v1", "3")])],                      # If without live outputs
        [("lit", "v1", "2"), ("for", "i1", [U("v1", 0), ("lit", "v1", "2"), U("v1", 1)]), U("v1", 2)],  # literal carried by a loop
        [("lit", "v0", "2"), ("if", [("lit", "v1", "1")], [("lit", "v1", "1")]), U("v1", 0), U("v0", 1)],
        [("lit", "v1", "2.5"), ("ten", "w1"), ("while", "w1", [U("v1", 0), ("wupd", "w1")]), U("v1", 1)],  # not carried: stays castable
        [("lit", "v1", "2.5"), ("for", "i1", [("if", [("for", "i2", [U("v1", 0), ("ten", "v2")])], []), ("lit", "v2", "1")]), U("v1", 1)],
    ]
    out = []
    for prog in progs:
        rec = {}
        ast_live_block(prog, frozenset(), rec)
        instrs, lines = [], []
        ast_compile(prog, rec, instrs, lines, 1)
        out.append((instrs, "\n".join(lines), sum(1 for t in instrs if t.startswith("U"))))
    return out


SCOPE2_MODELLED_REFUSALS = ("Unbound name", "not assigned a value along a conditional", "do not have any output variable",
                            "The loop has no effect")


def check_scope_ast(run, drv, progs, stats):
    """Structured programs (If / for / while, free-form): refusal by one of the modelled error branches and
    `Converter._is_castable` at every use vs OV.Scope.run (`scope2`)."""
    bodies = []
    for i, (instrs, body, nuses) in enumerate(progs):
        bodies.append((f"f{i}", f"@script(default_opset=opset18)\ndef f{i}(x: DOUBLE[2], c: BOOL):\n{body}\n    r = x + x\n    return r\n"))
    for instrs, body, _ in progs:
        # what `scope_stack_balanced` assumes: blocks are entered and left in pairs, depth 0 at the end
        d = 0
        for t in instrs:
            d += 1 if (t == "E" or t.startswith("F")) else -1 if t.startswith(("XB:", "XL:", "X:")) else 0
            if d < 0:
                break
        if d != 0:
            raise core.Infra(f"harness: unbalanced scope program {' '.join(instrs)}")
    answers = drv.ask(["scope2 " + " ".join(instrs) for instrs, _, _ in progs])
    fn, err, modname = scriptgen.compile_functions(bodies, header_extra=HEADER_EXTRA)
    problems = []
    for i, (instrs, body, nuses) in enumerate(progs):
        name = f"f{i}"
        stats["scope2_programs"] += 1
        verdict, _, obs = answers[i].partition(" ")
        model = obs.split(" ") if obs else []
        if any(t.startswith("F") and not t.startswith("F-") for t in instrs):
            stats["scope2_with_for"] += 1
        if any(t.startswith("F-") for t in instrs):
            stats["scope2_with_while"] += 1
        if any(t.startswith("I:") for t in instrs):
            stats["scope2_with_if"] += 1
        if name in err:
            msg = err[name][1].replace("\n", " ")
            kind = next((m for m in SCOPE2_MODELLED_REFUSALS if m in msg), None)
            if kind is None and err[name][0] == "IndexError" and any(a == "E" and b.startswith("XB:") and b != "XB:" for a, b in zip(instrs, instrs[1:])):
                # `_translate_block` reports "not assigned a value along a conditional branch" at `stmts[0]`: with an
                # empty else block that expression itself raises IndexError — the same refusal branch, a worse diagnostic
                kind = "not assigned a value along a conditional (IndexError: empty else block)"
            stats["scope2_refused"] += 1
            stats["scope2_refused:" + (kind or (err[name][0] + ":" + msg[:60]))] += 1
            if verdict != "refused":
                problems.append((" ".join(instrs), bodies[i][1], f"converter refuses the program ({err[name][0]}: {msg[:160]}), model translates it"))
            elif kind is None:
                problems.append((" ".join(instrs), bodies[i][1], f"converter refuses the program with an error that is not modelled ({err[name][0]}: {msg[:160]})"))
            continue
        if verdict != "ok":
            problems.append((" ".join(instrs), bodies[i][1], f"model refuses the program ({answers[i]}), converter translates it"))
            continue
        real = {}
        in_loop = set()
        bad = audit_into(stats, fn[name].function_ir.graph)
        if bad is not None:
            problems.append((" ".join(instrs), bodies[i][1], f"the translated function is not well scoped: {bad}"))
            continue

        def walk(graph, inside):
            for n in graph:
                if n.op_type == "Mul" and n.outputs and n.outputs[0].name and n.outputs[0].name.startswith("u") and n.outputs[0].name[1:].isdigit():
                    prod = n.inputs[1].producer() if n.inputs[1] is not None else None
                    real[int(n.outputs[0].name[1:])] = "1" if (prod is not None and prod.op_type == "CastLike") else "0"
                    if inside:
                        in_loop.add(int(n.outputs[0].name[1:]))
                for a in n.attributes.values():
                    if hasattr(a, "type") and a.type.name == "GRAPH":
                        walk(a.value, inside or n.op_type == "Loop")

        walk(fn[name].function_ir.graph, False)
        got = [real.get(k, "?") for k in range(nuses)]
        stats["scope2_uses"] += nuses
        stats["scope2_uses_in_loop"] += len(in_loop)
        stats["scope2_castable"] += got.count("1")
        stats["scope2_castable_in_loop"] += sum(1 for k in in_loop if real[k] == "1")
        stats["scope2_not_castable_in_loop"] += sum(1 for k in in_loop if real[k] == "0")
        if got != model:
            k = next((j for j in range(min(len(got), len(model))) if got[j] != model[j]), None)
            problems.append((" ".join(instrs), bodies[i][1], f"use #{k}: converter {'CastLikes' if k is not None and got[k] == '1' else 'does not CastLike'} the operand, "
                             f"model says {model[k] if k is not None else model}; all uses impl={''.join(got)} model={''.join(model)}"))
    scriptgen.release(modname)
    return problems


# --------------------------------------------------------------------------- which positional arguments are inputs (OV.Call)

ATTR_VALUE = {"INT": "1", "FLOAT": "0.5", "STRING": "'a'", "INTS": "[1, 2]", "FLOATS": "[0.5]", "STRINGS": "['a']"}


def param_tok(p) -> str:
    if p[0] == "I":
        return f"I{1 if p[2] else 0}{1 if p[3] else 0}"
    return f"A{1 if p[2] else 0}{1 if p[3] else 0}"


def check_calls(run, drv, rows, rng, stats, n_static):
    """`separate_input_attributes_from_arguments` on calls of every row — every number of positional arguments, plus
    variants with later inputs/attributes given by keyword — both `allow_extra_args` settings (real function with
    sentinel arguments; the builder's `_partition_inputs_attributes`; the converter end to end on a sample) vs
    OV.Call.separate."""
    import onnxscript
    from onnxscript._internal import param_manipulation

    jobs, lines = [], []
    for r in rows:
        ps = r["params_full"]
        limit = len(ps)
        for i, p in enumerate(ps):
            if p[0] == "A" and p[4] not in ATTR_VALUE:
                limit = i  # values for graph/tensor-valued attributes are not generated
                break
        for n in range(0, limit + 1 + (1 if limit == len(ps) else 0)):
            kw_sets = [[]]
            later = [i for i in range(n, limit) if not (ps[i][0] == "I" and ps[i][2])]  # a variadic input cannot be a keyword
            for _ in range(2):
                if later:
                    kw_sets.append(sorted(rng.sample(later, rng.randint(1, min(2, len(later))))))
            for kws in kw_sets:
                for ae in (True, False):
                    jobs.append((r, n, kws, ae))
                    lines.append(f"sep {1 if ae else 0} {n} {','.join(map(str, kws)) or '-'} " + " ".join(param_tok(p) for p in ps))
    answers = drv.ask(lines)
    problems, static_jobs = [], []
    gb = new_builder(18)
    for (r, n, kws, ae), ans in zip(jobs, answers):
        v = r["opsets"][0]
        op = getattr(onnxscript, f"opset{v}")[r["op"]]
        ps = r["params_full"]
        sentinels = [object() for _ in range(n)]
        kwargs = {ps[i][1]: object() for i in kws}
        stats["calls_cases"] += 1
        if kws:
            stats["calls_with_keywords"] += 1

        def canon(fn):
            try:
                ins, attrs = fn()
                idx = {id(x): f"p{k}" for k, x in enumerate(sentinels)}
                idx.update({id(kwargs[ps[i][1]]): f"k{i}" for i in kws})
                names = [p[1] for p in ps]
                return ("ok in=" + ",".join("-" if x is None else idx[id(x)] for x in ins) + " attr="
                        + ",".join(f"{names.index(k)}:{idx[id(val)]}" for k, val in attrs.items()))
            except TypeError as e:
                msg = str(e)
                return "ERR:missing" if "was not provided" in msg else "ERR:tooMany" if "Too many positional" in msg else f"ERR:other:{msg[:60]}"

        real = canon(lambda: param_manipulation.separate_input_attributes_from_arguments(
            op.op_signature, list(sentinels), dict(kwargs), fill_defaults=False, allow_extra_args=ae))
        stats["calls_" + ans.split(" ")[0].replace(":", "_")] += 1
        if "-" in ans.split(" ")[1] if ans.startswith("ok") else False:
            stats["calls_placeholder"] += 1
        tag = f"{n} positional" + (f" + keywords {[ps[i][1] for i in kws]}" if kws else "")
        if real != ans:
            problems.append((r["op"], v, tag, ae, f"separate_input_attributes_from_arguments: impl {real} ; model {ans}"))
        if not ae:
            realb = canon(lambda: gb._partition_inputs_attributes(gb._get_schema(r["op"], "", v), list(sentinels), dict(kwargs)))
            if realb != ans:
                problems.append((r["op"], v, tag, ae, f"BuilderBase._partition_inputs_attributes: impl {realb} ; model {ans}"))
        elif ans.startswith("ok") and (n >= 1 or kws):
            static_jobs.append((r, v, n, kws, ans))
    # converter end to end on a sample: operator inputs (None positions) and the attribute names of the emitted node
    rng.shuffle(static_jobs)
    static_jobs = sorted(static_jobs, key=lambda j: not j[3])[: n_static]  # calls with keywords first
    bodies = []
    for i, (r, v, n, kws, ans) in enumerate(static_jobs):
        ps = r["params_full"]
        args, params = [], []

        def value_for(k, positional):
            if k >= len(ps):
                return "7"  # surplus positional argument
            if ps[k][0] == "A":
                return ATTR_VALUE[ps[k][4]]
            if (k == 0 and positional) or rng.random() < 0.5:
                params.append(f"x{k}: FLOAT[2]")
                return f"x{k}"
            return "1"

        for k in range(n):
            args.append(value_for(k, True))
        for k in kws:
            args.append(f"{ps[k][1]}={value_for(k, False)}")
        if not params:
            params.append("z: FLOAT[2]")
        bodies.append((f"f{i}", f"@script(default_opset=opset{v})\ndef f{i}({', '.join(params)}):\n    r = opset{v}.{r['op']}({', '.join(args)})\n    return r\n"))
    if bodies:
        fn, err, modname = scriptgen.compile_functions(bodies, header_extra=HEADER_EXTRA)
        for i, (r, v, n, kws, ans) in enumerate(static_jobs):
            name = f"f{i}"
            stats["calls_static"] += 1
            if name in err:
                stats["calls_static_refused"] += 1
                continue
            node = next((nd for nd in reversed(all_nodes(fn[name].function_ir.graph)) if nd.op_type == r["op"]), None)
            if node is None:
                stats["calls_static_refused"] += 1
                continue
            m_in = ans.split(" ")[1][3:]
            m_attr = ans.split(" ")[2][5:]
            want_in = [t == "-" for t in m_in.split(",")] if m_in else []
            want_attrs = sorted(r["params_full"][int(q.split(":")[0])][1] for q in m_attr.split(",")) if m_attr else []
            got_attrs = sorted(node.attributes.keys())
            got_in = [x is None for x in node.inputs]
            if got_in != want_in or got_attrs != want_attrs:
                problems.append((r["op"], v, f"{n} positional + keywords {kws}", True,
                                 f"converter: node inputs (True = absent) {got_in} and attributes {got_attrs} ; model {ans} ; program:\n{bodies[i][1]}"))
        scriptgen.release(modname)
    return problems


# --------------------------------------------------------------------------- builder: histories of opsets in one process


def ser_outs(outs):
    if isinstance(outs, str):
        return outs
    res = []
    for o in outs:
        if o[0] == "C":
            arr = np.asarray(o[3])
            res.append(["C", o[1], bool(o[2]), arr.tobytes().hex(), list(arr.shape)])
        else:
            res.append(list(o))
    return res


def deser_outs(ser):
    if isinstance(ser, str):
        return ser
    res = []
    for o in ser:
        if o[0] == "C":
            dt = DT.get(o[1])
            arr = np.frombuffer(bytes.fromhex(o[3]), dtype=dt).reshape(o[4]) if dt is not None else None
            res.append(("C", o[1], o[2], arr))
        else:
            res.append(tuple(o))
    return res


def history_worker_main():
    """`python -m harness.c12_history`: run builder calls in the given order in THIS fresh process."""
    import sys

    items = json.load(sys.stdin)
    stats, cast_log, out = Counter(), set(), []
    for it in items:
        case = dict(op=it["op"], opset=it["opset"], args=it["args"])
        direct = run_builder([case], stats, cast_log)[0]
        e2e = run_builder([case], stats, cast_log, end_to_end=True)[0]
        out.append({"direct": ser_outs(direct), "e2e": ser_outs(e2e)})
    json.dump(out, sys.stdout)


def run_history(items):
    import subprocess
    import sys

    try:
        p = subprocess.run([sys.executable, "-m", "harness.c12_history"], input=json.dumps(items), capture_output=True,
                           text=True, cwd=str(core.VERIF), timeout=600)
    except subprocess.TimeoutExpired as e:
        raise core.Infra("history worker timed out") from e
    if p.returncode != 0:
        raise core.Infra(f"history worker failed rc={p.returncode}: {p.stderr[-600:]}")
    return json.loads(p.stdout[p.stdout.index("["):])


def history_items(rows, rng, order: str, per_pos: int):
    """For every operator with several versions in opsets 13..23: calls at one opset of each version, versions visited
    ascending or descending, all in one process.  Siblings are FLOAT16 so that 'default FLOAT' and 'sibling dtype' differ."""
    by_op: dict[str, list] = {}
    for r in rows:
        by_op.setdefault(r["op"], []).append(r)
    items = []
    for op in sorted(by_op):
        rs = sorted(by_op[op], key=lambda r: r["since"], reverse=(order == "desc"))
        if len(rs) < 2:
            continue
        for r in rs:
            v = r["opsets"][0] if order == "asc" else r["opsets"][-1]
            n = len(r["sig"])
            for p in positions(r["sig"])[: n + 1]:
                for lit in rng.sample([0.5, 1, [1], True, 2.5, [0.5]], per_pos):
                    items.append(dict(op=op, opset=v, sig=r["sig"], raw=r["raw"], args=probe_args(n, p, lit, "t:FLOAT16:1"),
                                      kind="history", order=order))
    return items


def check_history(run, drv, items, stats):
    """Compare what a builder feeds at (op, opset) — after other opsets of the same operator were traced in the same
    process — with the per-version model (tie) and rule (property)."""
    if not items:
        return []
    lines = []
    for c in items:
        lines += [case_line("builder", c), case_line("expected", c), case_line("repr", c)]
    outs = drv.ask(lines)
    real = run_history([dict(op=c["op"], opset=c["opset"], args=c["args"]) for c in items])
    problems = []
    seen_of: dict[str, list] = {}
    for i, c in enumerate(items):
        m_b, m_e = parse_model(outs[3 * i]), parse_model(outs[3 * i + 1])
        representable = outs[3 * i + 2] == "1"
        before = list(seen_of.get(c["op"], []))
        seen_of.setdefault(c["op"], [])
        if c["opset"] not in seen_of[c["op"]]:
            seen_of[c["op"]].append(c["opset"])
        stats["history_calls"] += 1
        stats["builder_cases"] += 1
        for path in ("direct", "e2e"):
            r = deser_outs(real[i][path])
            if isinstance(r, str) and r.startswith("ERR:other"):
                stats["history_other_error_" + path] += 1
                if path == "e2e":
                    continue
            if not isinstance(r, str) and any(o[0] == "?" for o in r):
                problems.append((c, "builder", "tie", f"unreadable operand {r}"))
                continue
            hist = f"in a process that traced {c['op']} at opset(s) {before} before" if before else "first trace of the operator in the process"
            d = same_out(r, m_b, stats)
            if d:
                problems.append((c, "builder", "tie", f"[{path}, {hist}] impl {show_out(r)} ; model {show_out(m_b)} : {d}"))
            d = same_out(r, m_e)
            if d:
                fid = None if representable else classify(c, m_e)
                if representable or fid:
                    problems.append((c, "builder", "property",
                                     f"[{path}, {hist}] builder feeds {show_out(r)} ; rule for {c['op']}@{c['opset']} {show_out(m_e)} : {d}", fid,
                                     [dict(op=x["op"], opset=x["opset"], args=x["args"], sig=x["sig"], raw=x["raw"], kind="history", order=x["order"])
                                      for x in items[: i + 1] if x["op"] == c["op"]]))
                else:
                    stats["outside_representable_not_judged"] += 1
    return problems


# --------------------------------------------------------------------------- builder: sessions (several calls, one builder, one cache)

SESSION_LITS = [0, 1, 0.0, -0.0, True, False, 1.0, 2.5, -3, 0.5, 2, [1, 2], [0.5], [1.0, 2.0], [0.0], [-0.0], [1, 2.5], [True, 1],
                [1, True], 300, -2.5]


def session_cases(rows, rng, ncalls):
    multi = [r for r in rows if len(r["sig"]) >= 2 or r["sig"][-1][1]]
    out = []
    for _ in range(ncalls):
        r = rng.choice(multi)
        nf = len(r["sig"])
        m = nf + (rng.choice([0, 1, 2]) if r["sig"][-1][1] else (1 if rng.random() < 0.05 else 0))
        base = rng.choice(["FLOAT", "FLOAT", "DOUBLE", "INT64", "UINT8", "FLOAT16", "BOOL"])
        args = []
        for i in range(m):
            u = rng.random()
            if u < 0.35:
                args.append(f"t:{base if rng.random() < 0.85 else rng.choice(SIB)}:{0 if rng.random() < 0.2 else 1}")
            elif u < 0.93:
                args.append(enc_lit(rng.choice(SESSION_LITS)))
            else:
                args.append("n")
        # round 5: a third of the calls are traced inside `GraphBuilder.subgraph(...)` (depth 1 or 2): child builders delegate
        # the constant cache to the root builder, so the model (one cache per session) must keep answering
        sub = rng.choice([0, 0, 0, 0, 1, 1, 2])
        out.append(dict(op=r["op"], opset=rng.choice(r["opsets"]), sig=r["sig"], raw=r["raw"], args=args, kind="session", sub=sub))
    return out


def run_session_real(calls):
    """Execute the calls on ONE real GraphBuilder through `_get_schema` + `_cast_inputs`; operands with initializer names."""
    import onnx_ir as ir

    gb = new_builder(18)
    results = []
    for k, case in enumerate(calls):
        def mk(j, d, known, k=k):
            return gb.input(f"x{k}_{j}", getattr(ir.DataType, d), [2]) if known else gb.input(f"x{k}_{j}")

        args, tensors = py_args(case, mk)
        try:
            box = []

            def call_on(b):
                box.append(b._cast_inputs(b._get_schema(case["op"], "", case["opset"]), args))

            def traced(depth):
                def trace(op):
                    if depth <= 1:
                        call_on(op.builder)
                    else:
                        op.builder.subgraph(traced(depth - 1), inputs=[], outputs=[], name=f"sub{k}_{depth - 1}")
                    return []
                return trace

            sub = case.get("sub", 0)
            if sub:
                gb.subgraph(traced(sub), inputs=[], outputs=[], name=f"sub{k}_{sub}")
            else:
                call_on(gb)
            vals = box[0]
            outs = []
            for v in vals:
                o = read_builder_value(v, tensors, set())
                name = "-"
                if o[0] == "C":
                    src = v if v.producer() is None else v.producer().inputs[0]
                    name = canon_real_name(src.name)
                    if src.name not in gb._graph.initializers:
                        # a cached constant is handed to every scope of the session: it must live in the root graph
                        o = ("?", f"initializer {src.name!r} is not registered in the root graph")
                outs.append((o, name))
            results.append(outs)
        except Exception as e:
            results.append(err_kind(e))
    return results, len(gb._constant_cache)


def check_sessions(run, drv, sessions, stats):
    """Several calls on one builder vs the model's `runCalls` (operands, initializer names, cache size)."""
    lines = ["hist " + " ;; ".join(" ".join(formal_tok(f) for f in c["raw"]) + " | " + " ".join(c["args"]) for c in sess)
             for sess in sessions]
    answers = drv.ask(lines)
    problems = []
    for sess, ans in zip(sessions, answers):
        body, size = ans.rsplit(" #", 1)
        parts = body.split(" ;; ")
        real, rsize = run_session_real(sess)
        scopes_of = {}
        stats["session_count"] += 1
        stats["session_calls"] += len(sess)
        stats["builder_cases"] += len(sess)
        bad = None
        if len(parts) != len(sess):
            bad = f"model answered {len(parts)} calls for {len(sess)}"
        elif int(size) != rsize:
            bad = f"cache size {rsize} vs model {size}"
        else:
            for k, (c, r, mline) in enumerate(zip(sess, real, parts)):
                if mline.startswith("ERR:"):
                    if r != mline:
                        bad = f"call {k} {case_key(c)}: impl {r if isinstance(r, str) else show_out([o for o, _ in r])} ; model {mline}"
                        break
                    stats["session_err_" + mline.split(":")[1]] += 1
                    continue
                if isinstance(r, str):
                    bad = f"call {k} {case_key(c)}: impl {r} ; model {mline}"
                    break
                toks = mline.split(" ")[1:]
                m_outs = parse_model("ok " + " ".join(t.rsplit("@", 1)[0] for t in toks)) if toks else []
                m_names = [t.rsplit("@", 1)[1] for t in toks]
                d = same_out([o for o, _ in r], m_outs, stats)
                if d:
                    bad = f"call {k} {case_key(c)}: impl {show_out([o for o, _ in r])} ; model {show_out(m_outs)} : {d}"
                    break
                r_names = [n for _, n in r]
                if r_names[: len(m_names)] != m_names[: len(r_names)]:
                    bad = f"call {k} {case_key(c)}: initializers {r_names} ; model {m_names}"
                    break
                stats["session_shared_initializers"] += len([n for n in r_names if n != "-"]) - len({n for n in r_names if n != "-"})
                if c.get("sub"):
                    stats["session_calls_in_subgraph"] += 1
                    stats[f"session_calls_in_subgraph_depth{c['sub']}"] += 1
                for n in r_names:
                    if n != "-":
                        scopes_of.setdefault(n, set()).add(c.get("sub", 0))
        stats["session_initializers_shared_across_scopes"] += sum(1 for v in scopes_of.values() if len(v) > 1)
        if bad:
            problems.append((sess, bad))
    return problems


# --------------------------------------------------------------------------- checking a batch


def static_applicable(case) -> bool:
    """The converter path needs a call the script language can express: at most the declared number of
    positional arguments for non-variadic operators (extra positionals are attributes there), annotatable dtypes."""
    nf = len(case["sig"])
    if not case["sig"][-1][1] and len(case["args"]) > nf:
        return False
    return all(a.split(":")[1] in ANNOT for a in case["args"] if a.startswith("t:"))


def check_batch(run, drv, cases, stats, rec, cast_log, e2e_every=0):
    """Returns problems: (case, front_end, kind in {tie, property}, detail)."""
    lines = []
    for c in cases:
        lines += [case_line("static", c), case_line("dynamic", c), case_line("builder", c), case_line("expected", c), case_line("repr", c),
                  case_line("castlike", c)]
    outs = drv.ask(lines)
    st_cases = [c for c in cases if static_applicable(c)]
    st_res = dict(zip(map(id, st_cases), run_static(st_cases, stats, cast_log))) if st_cases else {}
    dy_res = run_eager(rec, cases, stats)
    bu_res = run_builder(cases, stats, cast_log)
    problems = []
    for i, c in enumerate(cases):
        m = {k: parse_model(outs[6 * i + j]) for j, k in enumerate(["static", "dynamic", "builder", "expected"])}
        representable = outs[6 * i + 4] == "1"
        m_castlike = outs[6 * i + 5] == "1"
        wt = well_typed(c)
        stats["cases"] += 1
        stats["kind_" + c["kind"]] += 1
        stats["well_typed" if wt else "conflicting_siblings"] += 1
        real = {"dynamic": dy_res[i], "builder": bu_res[i]}
        if id(c) in st_res:
            real["static"] = st_res[id(c)]
        if e2e_every and i % e2e_every == 0 and not isinstance(bu_res[i], str):
            e2e = run_builder([c], stats, cast_log, end_to_end=True)[0]
            stats["builder_end_to_end"] += 1
            if isinstance(e2e, str) and e2e.startswith("ERR:other"):
                stats["builder_end_to_end_other_error"] += 1
                stats["e2e:" + e2e[:70]] += 1
            else:
                d = same_out(e2e, as_model(bu_res[i]))
                if d:
                    problems.append((c, "builder", "tie", f"op.{c['op']}(...) end to end feeds {show_out(e2e)}, _cast_inputs alone {show_out(bu_res[i])}: {d}"))
        if wt and has_mixed_list(c) and "static" in real and not (isinstance(real["static"], str) and (real["static"].startswith("REFUSED") or real["static"] == "ERR:refused")) \
                and classify(c, m["expected"]) is None \
                and not any((not isinstance(r, str)) and any(o[0] == "?" for o in r) for r in real.values()):
            # lists mixing Python types lie outside `allRepresentable`; the property is judged directly: same operands in all three
            stats["mixed_list_three_way"] += 1
            for fe in ("dynamic", "builder"):
                d = same_out(real[fe], as_model(real["static"]))
                if d:
                    problems.append((c, fe, "property", f"mixed-type list: {fe} feeds {show_out(real[fe])} ; converter {show_out(real['static'])} : {d}", None))
        if id(c) in st_res and not isinstance(st_res[id(c)], str) and bool(c.get("_cast_emitted")) != m_castlike:
            problems.append((c, "static", "tie", f"converter {'emits' if c.get('_cast_emitted') else 'does not emit'} a CastLike/Cast for a literal ; "
                             f"model usesCastLike = {m_castlike}"))
        if c.get("_castlike_below15"):
            stats["castlike_below_opset15"] += 1
            problems.append((c, "static", "property", f"the converter promotes the literal with CastLike in an opset-{c['opset']} function; "
                             "CastLike exists from opset 15 only, the model is rejected by onnxruntime while eager mode computes the result", "D47"))
        for fe, r in real.items():
            stats[fe + "_cases"] += 1
            if isinstance(r, str) and r.startswith("REFUSED"):
                continue
            if isinstance(r, str):
                stats[f"{fe}_{r.split(':')[1]}"] += 1
            if not isinstance(r, str) and any(o[0] == "?" for o in r):
                problems.append((c, fe, "tie", f"unreadable operand {r}"))
                continue
            # ---- tie
            d = same_out(r, m[fe], stats)
            if d:
                problems.append((c, fe, "tie", f"impl {show_out(r)} ; model {show_out(m[fe])} : {d}"))
            # ---- property (the rule), judged on well-typed calls only (a refusal below opset 15 produces no graph: not judged)
            if wt and not (fe == "static" and r == "ERR:refused"):
                d = same_out(r, m["expected"])
                if d:
                    fid = None if representable else classify(c, m["expected"])
                    if representable or fid:
                        problems.append((c, fe, "property", f"{fe} feeds {show_out(r)} ; rule {show_out(m['expected'])} : {d}", fid))
                    else:
                        stats["outside_representable_not_judged"] += 1
        # branch histogram
        for a in c["args"]:
            stats["arg_" + ("tensor_unknown" if a.startswith("t:") and a.endswith(":0") else "tensor" if a.startswith("t:") else "none" if a == "n" else "list" if a.startswith("l:") else "scalar")] += 1
        nf = len(c["sig"])
        if len(c["args"]) > nf:
            stats["tail_" + ("toomany" if not c["sig"][-1][1] else "homogeneous" if c["sig"][-1][2] else "nonhomogeneous")] += 1
        if any("(" in f[0] for f in c["raw"]):
            stats["has_concrete_typed_formal"] += 1
    return problems


# --------------------------------------------------------------------------- main

CORPUS = [
    # (op, opset, args) — witnesses of the known findings and past disagreements
    ("Add", 18, ["t:UINT8:1", "s:i-3"]),            # D21
    ("Add", 18, ["t:DOUBLE:1", "s:" + enc_scalar(0.1)]),  # D23
    ("Add", 18, ["t:DOUBLE:1", "l:i1," + enc_scalar(2.5)]),  # D24 (fixed by fa769b8: must pass now)
    ("Reshape", 18, ["t:FLOAT:1", "l:i1," + enc_scalar(2.5)]),
    ("Add", 18, ["t:INT64:1", "l:b1,i1"]),
    ("Concat", 18, ["l:" + enc_scalar(2.5) + ",i1", "t:FLOAT16:1", "l:i1,b1"]),
    ("Add", 18, ["t:INT64:1", "s:" + enc_scalar(2.5)]),
    ("Add", 13, ["t:DOUBLE:1", "s:i1"]),                 # D47 (fixed by 7b0eb49: Cast below opset 15; must pass now)
    ("Add", 13, ["t:DOUBLE:0", "s:i1"]),                 # sibling of unknown static dtype below opset 15: refused
    ("Add", 18, ["t:DOUBLE:0", "s:i1"]),
    ("Mul", 14, ["s:" + enc_scalar(2.5), "t:FLOAT16:1"]),
    ("Add", 18, ["s:i1", "t:FLOAT:0"]),
    ("Where", 18, ["s:b1", "t:FLOAT:1", "t:DOUBLE:1"]),
    ("Sum", 18, ["t:FLOAT:1", "s:i1", "t:DOUBLE:1", "s:i2"]),
    ("Clip", 18, ["t:FLOAT:1", "n", "s:i1"]),
    ("Concat", 18, ["t:FLOAT:1", "l:" + enc_scalar(0.5), "s:i1"]),
    ("Reshape", 18, ["t:FLOAT:1", "l:i1,i2"]),
    ("Loop", 18, ["s:i1", "s:b1", "t:FLOAT:1", "s:i2"]),
    ("Relu", 18, ["t:FLOAT:1", "s:i1"]),
    ("Pad", 18, ["t:FLOAT16:1", "l:i0,i1", "s:" + enc_scalar(-0.0)]),
    ("Mul", 18, ["s:" + enc_scalar(-0.0), "s:" + enc_scalar(0.0)]),      # D10 inside one call (fixed: must pass now)
    ("Sum", 18, ["t:FLOAT:1", "s:" + enc_scalar(0.0), "s:" + enc_scalar(-0.0), "s:i0", "s:b0"]),
]


def main(run: core.Run) -> None:
    run.assumptions += [
        "A-op: ONNX Cast/CastLike semantics as transcribed in OV.Autocast.onnxCast (truncation toward zero, integer "
        "wrap-around, non-zero -> true); the numpy `astype` used to evaluate emitted CastLike nodes is validated against "
        "onnxruntime's CastLike on every (constant, dtype) pair seen in the run",
        "NumPy >= 2 conversion `np.array(python_value, dtype)` as transcribed in OV.Autocast.npCast (out-of-range Python ints raise)",
        "A-py: repr of a Python bool/int/float determines its type and value (sign of zero included) and is injective on floats; "
        "the constant cache key is (repr(value), dtype) since commit 610a39a",
        "inf/nan literals, strings and empty lists are outside the model; float values are exact dyadic rationals and IEEE "
        "rounding is symbolic (only 'rounded directly' vs 'rounded through float32' is distinguished)",
        "interning of type-constraint names to numbers (Shape.intern) is alpha-renaming; the generated interned table is "
        "checked against the kernel-evaluated Shape.intern (intern_ok)",
    ]
    t0 = time.time()
    # A tree other than /repo (seeded change, scratch worktree) must never change files under /verif: its table is
    # compared with lean/OV/Gen and, when different, kernel-checked in a temporary directory.
    foreign = core.REPO.resolve() != core.Path("/repo")
    rows, shapes, problems, changed = extract_schemas.regenerate(write=not foreign)
    scratch = None
    if foreign and changed:
        ok, log = extract_schemas.scratch_check(rows, shapes)
        scratch = dict(ok=ok, log=log[-1200:])
    run.coverage["translator"] = dict(rows=len(rows), shapes=len(shapes), regenerated=changed, problems=problems[:5],
                                      seconds=round(time.time() - t0, 2), foreign_tree=foreign,
                                      scratch_table_check=None if scratch is None else scratch["ok"])
    if len(rows) < 200:
        raise core.Infra(f"schema registry degenerated: only {len(rows)} rows")
    audit = run.prove(PROP_MODULES)
    drv = core.Driver("C12")
    t_tie = time.time()  # the tie's own budget starts after the (cached or not) Lean build
    stats: Counter = Counter()
    rec = _Recorder()
    cast_log: set = set()
    byname = {}
    for r in rows:
        for v in r["opsets"]:
            byname[(r["op"], v)] = r

    def mk(op, opset, args, kind):
        r = byname[(op, opset)]
        return dict(op=op, opset=opset, sig=r["sig"], raw=r["raw"], args=list(args), kind=kind)

    all_problems = []
    seen = set()

    def batch(cases, **kw):
        uniq = []
        for c in cases:
            k = case_key(c)
            if k not in seen:
                seen.add(k)
                uniq.append(c)
        for k in range(0, len(uniq), 400):
            all_problems.extend(check_batch(run, drv, uniq[k : k + 400], stats, rec, cast_log, **kw))
            if run.tier == "quick" and time.time() - t_tie > 240:
                raise core.Infra("quick tier ran out of time")

    if run.replay_path:
        body = json.loads(open(run.replay_path).read())
        c = body["case"]
        if "seq" in c:
            tie, prop = check_cache(run, drv, [[(l, d) for l, d in c["seq"]]], stats)
            for s, d in tie:
                print(f"REPLAY tie cache: {d}")
            for p in prop:
                print(f"REPLAY property cache: {p[3]}")
            d10_open = any(f["id"] == "D10" for f in run.open_findings())
            if tie or [p for p in prop if not (d10_open and pred_d10(p[0][p[1]][0], p[0][p[2]][0]))]:
                run.violation(c, "replayed cache sequence still fails")
        elif "scope_program" in c:
            body = c["source"].split("\n", 2)[2].rsplit("\n    r = x + x", 1)[0]
            probs = check_scope_model(run, drv, [(c["scope_program"].split(" "), body, c["scope_program"].count("U"))], stats)
            for _, _, d in probs:
                print(f"REPLAY tie scope program: {d}")
            if probs:
                run.violation(c, "replayed scope program still disagrees with the model")
        elif "scope2_program" in c:
            body = c["source"].split("\n", 2)[2].rsplit("\n    r = x + x", 1)[0]
            probs = check_scope_ast(run, drv, [(c["scope2_program"].split(" "), body, sum(1 for t in c["scope2_program"].split(" ") if t.startswith("U")))], stats)
            for _, _, d in probs:
                print(f"REPLAY tie structured scope program: {d}")
            if probs:
                run.violation(c, "replayed structured scope program still disagrees with the model")
        elif "session" in c:
            sess = c["session"]
            for it in sess:
                it["sig"] = [tuple(f) for f in it["sig"]]
                it["raw"] = [tuple(f) for f in it["raw"]]
            probs = check_sessions(run, drv, [sess], stats)
            for _, d in probs:
                print(f"REPLAY tie session: {d}")
            if probs:
                run.violation(c, "replayed builder session still disagrees with the model")
        elif "case" in c:
            cc = c["case"]
            cc["sig"] = [tuple(f) for f in cc["sig"]]
            cc["raw"] = [tuple(f) for f in cc["raw"]]
            if c.get("history"):
                items = c["history"]
                for it in items:
                    it["sig"] = [tuple(f) for f in it["sig"]]
                    it["raw"] = [tuple(f) for f in it["raw"]]
                probs = check_history(run, drv, items, stats)
            elif cc.get("kind") == "scope":
                probs = check_scope(run, drv, [cc], stats, cast_log)
            elif cc.get("kind") == "attr":
                probs = check_attr_params(run, drv, [cc], stats)
            elif cc.get("kind") == "function":
                probs = check_function_bodies(run, drv, [cc], stats)
            else:
                probs = check_batch(run, drv, [cc], stats, rec, cast_log)
            for p in probs:
                print(f"REPLAY {p[2]} {p[1]}: {case_key(p[0])} :: {p[3]}")
            if any(p[2] == "tie" or (p[2] == "property" and p[4] is None) for p in probs):
                run.violation(c, "replayed case still fails")
        run.coverage.update(evaluations=stats["cases"] + stats["cache_promotions"], distinct_nontrivial=1)
        return

    quick = run.tier == "quick"
    if quick:
        sweep_rows = [r for r in rows if set(r["opsets"]) & {13, 18, 21, 23}]
    else:
        sweep_rows = rows
    drift = []
    for path, names in [
        ("onnxscript/_internal/autocast.py", ["cast_inputs", "static_cast_inputs", "dynamic_cast_inputs", "cast_pyvalue_to_os_tensor", "_get_dtype", "_promotable"]),
        ("onnxscript/_internal/tape_builder.py", ["BuilderBase._cast_inputs", "BuilderBase._input_to_ir_value", "BuilderBase._promote_constant", "_constant_name"]),
        ("onnxscript/_internal/builder.py", ["GraphBuilder._get_or_create_constant", "GraphBuilder._promote_constant"]),
        ("onnxscript/_internal/converter.py", ["Converter._emit_const", "Converter._is_castable"]),
    ]:
        drift += core.fingerprint_drift("C12", path, names)
    run.coverage["fingerprint_drift"] = drift

    batch([mk(op, v, a, "corpus") for op, v, a in CORPUS])
    batch(sweep_cases(sweep_rows, run.rng, quick, stats), e2e_every=7)
    n_random = run.size(2500, 40000) * (3 if drift and quick else 1)
    batch(random_cases(rows, run.rng, n_random, stats), e2e_every=11)

    # ---- converter: literals bound in an outer scope and used inside If/Loop bodies (and the other scope relations)
    sc = scope_cases(byname, run.rng, run.size(420, 4200) * (3 if drift and quick else 1))
    for k in range(0, len(sc), 300):
        all_problems.extend(check_scope(run, drv, sc[k : k + 300], stats, cast_log))
    seen.update(scope_key(c) for c in sc)

    # ---- converter: attribute parameters (bool/int/float, with/without default) used as operands
    ac = attr_cases(byname, run.rng, run.size(192, 1920))
    for k in range(0, len(ac), 300):
        all_problems.extend(check_attr_params(run, drv, ac[k : k + 300], stats))

    # ---- builder: calls traced as FUNCTION bodies (build_function), read back from the serialized FunctionProto
    all_problems.extend(check_function_bodies(run, drv, func_cases(rows, run.rng, run.size(600, 8000)), stats))

    # ---- converter: castable bookkeeping across nested scopes vs OV.Scope (instruction programs)
    progs = [gen_scope_program(run.rng) for _ in range(run.size(150, 2000))]
    scope_model_tie = check_scope_model(run, drv, progs, stats)
    if stats["scopemodel_programs"] and stats["scopemodel_refused"] > 0.3 * stats["scopemodel_programs"]:
        raise core.Infra(f"converter refused {stats['scopemodel_refused']} of {stats['scopemodel_programs']} scope programs")

    # ---- converter: structured programs with for/while loops and free-form Ifs vs OV.Scope (round 5)
    progs2 = scope_ast_fixed() + [gen_scope_ast(run.rng) for _ in range(run.size(120, 1500))]
    scope_ast_tie = []
    for k in range(0, len(progs2), 250):
        scope_ast_tie.extend(check_scope_ast(run, drv, progs2[k : k + 250], stats))
    if stats["scope2_refused"] > 0.5 * stats["scope2_programs"]:
        raise core.Infra(f"converter refused {stats['scope2_refused']} of {stats['scope2_programs']} structured scope programs")

    # ---- which positional arguments are inputs: param_manipulation vs OV.Call
    call_tie = check_calls(run, drv, sweep_rows if quick else rows, run.rng, stats, run.size(250, 2500))

    # ---- builder: the same operator traced at several opsets in ONE process, ascending and descending
    for order in ("asc", "desc"):
        all_problems.extend(check_history(run, drv, history_items(rows, run.rng, order, run.size(1, 3)), stats))

    # ---- builder sessions: several calls on one builder (constant cache threaded through `_cast_inputs`)
    sessions = [[mk("Add", 18, ["t:FLOAT:1", "s:" + enc_scalar(0.0)], "session"), mk("Mul", 18, ["s:" + enc_scalar(-0.0), "s:" + enc_scalar(0.0)], "session"),
                 mk("Add", 18, ["t:INT64:1", "s:i1"], "session"), mk("Add", 18, ["t:INT64:1", "s:b1"], "session"),
                 mk("Add", 18, ["t:INT64:1", "s:" + enc_scalar(1.0)], "session"), mk("Add", 13, ["t:INT64:0", "s:i1"], "session")]]
    sessions += [session_cases(rows, run.rng, run.rng.randint(2, 7)) for _ in range(run.size(250, 4000))]
    session_tie = check_sessions(run, drv, sessions, stats)

    bad_casts = validate_casts_on_ort(cast_log, stats)

    # ---- cache
    seqs = [
        [(0.0, None), (-0.0, None)],                       # D10 witness (fixed by 610a39a: must pass now)
        [([0.0], "FLOAT"), ([-0.0], "FLOAT")],
        [(0, "FLOAT"), (-0.0, "FLOAT")],
        [(1, "INT64"), (True, "INT64"), (1.0, "INT64"), (1, None), (True, None), (1.0, None)],
        [(1, "FLOAT"), (1, "DOUBLE"), (1.0, "FLOAT"), ([1], "FLOAT"), ([1, 2], None), ([1, 2], "INT64"), ([1.0, 2.0], "INT64")],
        [(-3, "UINT8"), (2.5, "INT64"), (2, "INT64"), ([1, 2.5], None), ([True, 1], None), ([1, True], None)],
    ]
    seqs += [gen_cache_seq(run.rng, run.rng.randint(2, 12)) for _ in range(run.size(300, 5000))]
    cache_tie, cache_prop = check_cache(run, drv, seqs, stats)

    for k in list(seen)[:5]:
        run.sample(k)
    run.sample(cache_line(seqs[3]))

    # ---- verdict
    findings = {f["id"]: f for f in run.open_findings()}
    known = Counter()
    tie_broken, prop_fail = [], []
    for p in all_problems:
        c, fe, kind, detail = p[:4]
        if kind == "tie":
            tie_broken.append((c, fe, detail))
        else:
            fid = p[4]
            if fid and fid in findings:
                known[fid] += 1
                if known[fid] == 1:
                    run.known(fid, f"{c['op']}@{c['opset']}({', '.join(str(dec_lit(a)) if a[0] in 'sl' else a for a in c['args'])}): {detail}")
            else:
                prop_fail.append((c, fe, detail, p[5] if len(p) > 5 else None))
    cache_viol = []
    for seq, j, k, detail in cache_prop:
        if pred_d10(seq[j][0], seq[k][0]) and "D10" in findings:
            known["D10"] += 1
            if known["D10"] == 1:
                run.known("D10", detail)
        else:
            cache_viol.append((seq, j, k, detail))
    for fid in ("D10", "D21", "D23"):
        stats["known_" + fid] = known[fid]

    def slim(c):
        return {k: c[k] for k in ("op", "opset", "sig", "raw", "args", "kind", "placement", "form", "order", "attr_kind", "default", "sub") if k in c}

    if prop_fail:
        prop_fail.sort(key=lambda p: (len(p[0]["args"]), len(str(p[0]["args"]))))
        c, fe, detail, hist = prop_fail[0]
        body = {"case": slim(c), "front_end": fe, "detail": detail, "others": len(prop_fail) - 1}
        if hist:
            body["history"] = hist  # the builder calls of this operator executed, in order, in one fresh process
        elif fe == "builder":
            body["process_history"] = ("before this call the translator (harness/extract_schemas.py) called BuilderBase._get_schema for every "
                                       "operator at opsets 13, 14, …, 23 in this order, in this process; `--replay` does the same")
        run.violation(body, f"{fe} promotes a literal differently from the rule: {case_key(c)} :: {detail}")
        with_hist = [p for p in prop_fail if p[3]]
        if with_hist and not hist:
            c, fe, detail, hist = with_hist[0]
            run.violation({"case": slim(c), "front_end": fe, "detail": detail, "history": hist, "others": len(with_hist) - 1},
                          f"builder result depends on which opsets were traced earlier in the process: {case_key(c)} :: {detail}")
    if cache_viol:
        seq, j, k, detail = min(cache_viol, key=lambda v: len(v[0]))
        run.violation({"seq": [[l, d] for l, d in seq[: k + 1]], "detail": detail}, f"constant cache shares a tensor with a different value: {detail}")
    if not prop_fail and not cache_viol:
        if tie_broken:
            tie_broken.sort(key=lambda p: (len(p[0]["args"]), len(str(p[0]["args"]))))
            c, fe, detail = tie_broken[0]
            run.violation({"case": slim(c), "front_end": fe, "detail": detail, "others": len(tie_broken) - 1,
                           "broken": f"correspondence OV.Autocast.cast{ {'static': 'Static', 'dynamic': 'Dynamic', 'builder': 'Builder'}[fe]} vs implementation"},
                          f"correspondence broken ({fe}): {case_key(c)} :: {detail}; no well-typed representable input found on which a front end leaves the rule",
                          no_input=True)
        elif scope_model_tie:
            instrs, src, detail = min(scope_model_tie, key=lambda v: len(v[0]))
            # a literal bound to a name and not CastLike'd beside a DOUBLE tensor is itself a failing input of the property
            run.violation({"scope_program": instrs, "source": src, "detail": detail,
                           "broken": "correspondence OV.Scope.run vs Converter._castable/_locals bookkeeping"},
                          f"converter and model disagree on which named operand is a polymorphic constant: {detail}\n{src}",
                          no_input=not ("does not CastLike" in detail or "not defined in its scope" in detail))
        elif scope_ast_tie:
            instrs, src, detail = min(scope_ast_tie, key=lambda v: len(v[0]))
            run.violation({"scope2_program": instrs, "source": src, "detail": detail, "others": len(scope_ast_tie) - 1,
                           "broken": "correspondence OV.Scope.run (loops, If outputs, refusals) vs Converter._translate_if_stmt/_translate_loop_stmt/_castable"},
                          f"converter and model disagree on a structured program: {detail}\n{src}",
                          no_input=not ("does not CastLike" in detail or "not defined in its scope" in detail))
        elif call_tie:
            opn, v, n, ae, detail = call_tie[0]
            run.violation({"call": dict(op=opn, opset=v, arguments=n, allow_extra_args=ae), "detail": detail, "others": len(call_tie) - 1,
                           "broken": "correspondence OV.Call.separate vs param_manipulation.separate_input_attributes_from_arguments"},
                          f"correspondence broken (arguments of {opn}@{v}: {n}, allow_extra_args={ae}): {detail}", no_input=True)
        elif session_tie:
            sess, detail = min(session_tie, key=lambda v: len(v[0]))
            run.violation({"session": [slim(c) for c in sess], "detail": detail,
                           "broken": "correspondence OV.Autocast.runCalls (castBuilderC) vs GraphBuilder._cast_inputs on one builder"},
                          f"correspondence broken (builder session of {len(sess)} calls): {detail}", no_input=True)
        elif cache_tie:
            seq, detail = min(cache_tie, key=lambda v: len(v[0]))
            run.violation({"seq": [[l, d] for l, d in seq], "detail": detail, "broken": "correspondence OV.Autocast.promote vs GraphBuilder._get_or_create_constant"},
                          f"correspondence broken (constant cache): {cache_line(seq)} :: {detail}", no_input=True)
        elif bad_casts:
            run.violation({"broken": "A-op: numpy astype vs onnxruntime CastLike", "cases": bad_casts[:5]},
                          f"onnxruntime CastLike differs from the cast semantics assumed by the model: {bad_casts[0]}", no_input=True)
    if not audit["ok"]:
        # the table theorem or a proof no longer checks: look for a concrete row on which the front ends disagree — the
        # sweep above already ran every row of the tier; report what it found, else no input
        run.violation({"broken": "proof obligations of OV.Props.C12 (registry_ok is regenerated from /repo's schema readings)",
                       "problems": audit["problems"], "log": audit["build_log"][-1500:]},
                      "Lean proof obligations for C12 do not check: " + "; ".join(audit["problems"][:3]), no_input=True)
    if scratch is not None and not scratch["ok"] and not prop_fail:
        run.violation({"broken": "registry_ok for the signature table read from this tree (checked in a scratch directory; lean/OV/Gen untouched)",
                       "log": scratch["log"]},
                      "the table theorems (intern_ok / chunk_ok / ishapes_ok) do not check for the schema readings of this tree", no_input=True)
    if problems and not prop_fail:
        run.violation({"broken": "translator: the two schema readings are not comparable", "problems": problems[:10]},
                      "schema registry readings diverge: " + "; ".join(problems[:3]), no_input=True)

    n_static = stats["static_cases"]
    run.coverage.update(
        evaluations=stats["static_cases"] + stats["dynamic_cases"] + stats["builder_cases"] + stats["cache_promotions"],
        distinct_nontrivial=len(seen),
        rule="distinct (operator@opset, argument list) calls containing at least one Python literal; each is run through the "
        "real converter (when expressible as a script call), real eager mode, the real GraphBuilder._cast_inputs, and the Lean "
        "model's three functions and the rule",
        traces_validated_against_impl=stats["static_cases"] + stats["dynamic_cases"] + stats["builder_cases"] + stats["cache_sequences"],
        distribution=dict(stats),
        exhaustive=not quick,
        explanation=("quick: full literal set x positions for one operator per signature shape (3 sampled sibling dtypes), 2 samples "
                     "per position for every other operator effective in opsets 13/18/21/23; " if quick else
                     "thorough: every (op, since_version) effective in opsets 13..23 x every position (incl. two variadic tail positions) x the 8 "
                     "literals x 7 sibling dtypes (known and unknown to the builder) + absent + same-literal; ")
        + "the Lean table theorem registry_ok evaluates, for every row in both tiers, every position x the 8 literals x 16 fixed sibling probes (7 dtypes known/unknown, absent, same literal) — not all dtypes",
    )
    required = ["static_castlike", "static_plain_const", "dynamic_overflow", "builder_overflow", "mixed_list_three_way", "tail_homogeneous",
                "tail_nonhomogeneous", "tail_toomany", "conflicting_siblings", "arg_tensor_unknown", "arg_none", "arg_list",
                "has_concrete_typed_formal", "builder_end_to_end", "scope_if_outer", "scope_loop_outer", "scope_if_inner", "scope_top",
                "history_calls", "session_calls", "session_shared_initializers", "session_err_overflow", "session_err_tooMany",
                "scopemodel_uses", "scopemodel_castable", "scope2_with_for", "scope2_with_while", "scope2_with_if", "scope2_castable_in_loop",
                "scope2_not_castable_in_loop", "scope2_refused:Unbound name", "scope2_refused:not assigned a value along a conditional",
                "scope2_refused:do not have any output variable", "scope2_refused:The loop has no effect", "scope_audit_graphs",
                "scope_audit_cast_needed_again_outside_its_block", "session_calls_in_subgraph", "session_calls_in_subgraph_depth2",
                "session_initializers_shared_across_scopes", "calls_ok", "calls_ERR_missing", "calls_ERR_tooMany", "static_cast", "static_refused_below_opset15", "calls_static", "calls_with_keywords", "calls_placeholder", "attr_castlike", "attr_bool", "attr_bool_default", "attr_int", "attr_float_default", "function_cases",
                "function_const_value", "cache_hits", "cache_err_overflow", "ort_cast_validated"]
    zero = [k for k in required if not stats[k]]
    run.coverage["required_counters"] = {k: stats[k] for k in required}
    if zero and not run.violations:
        raise core.Infra(f"generator degenerated: branch counters at zero: {zero}")
    if n_static and stats["static_refused"] > 0.3 * n_static:
        raise core.Infra(f"converter refused {stats['static_refused']} of {n_static} generated calls")
    if stats["cases"] and stats["dynamic_other"] + stats["builder_other"] > 0.05 * stats["cases"]:
        raise core.Infra("more than 5% of calls end in unclassified errors")
