"""C01/C02 shared: source <-> wire formats.

* `encode_function(src)`     Python source of one `@script` function  ->  S-expression line for the
                             Lean model (`OV.Model.C01SExp.decFunc`).  Works from `ast.parse`, i.e. from
                             what the real converter is given, not from the generator's own tree.
* `proto_to_neutral(fp)`     FunctionProto / GraphProto -> neutral nested structure
* `lean_to_neutral(text)`    the driver's `(graph …)` answer -> the same neutral structure
* `canonical(neutral)`       alpha-renamed (first occurrence) canonical text; attributes sorted by name
* `neutral_to_sexp(neutral)` neutral structure (names made wire-safe) -> `(graph …)` for `C01 wf`
* `scope_walk(neutral)`      independent pure-Python SSA / scope walker (the C02 oracle)
"""
from __future__ import annotations

import ast
import re

import numpy as np
import onnx
from onnx import numpy_helper


class Unmodelled(Exception):
    """The program uses a construct outside the Lean model (nested def, subscript, …)."""


# --------------------------------------------------------------------------- S-expressions


def sx(*parts) -> str:
    return "(" + " ".join(parts) + ")"


def parse_sexp(text: str):
    toks = re.findall(r"\(|\)|[^\s()]+", text)
    stack: list[list] = [[]]
    for t in toks:
        if t == "(":
            stack.append([])
        elif t == ")":
            top = stack.pop()
            stack[-1].append(top)
        else:
            stack[-1].append(t)
    assert len(stack) == 1 and len(stack[0]) == 1, "bad sexp"
    return stack[0][0]


# --------------------------------------------------------------------------- source -> sexp

_SCHEMA_CACHE: dict = {}


def schema_sig(opname: str, version: int = 18):
    """(known, variadic, homog, [typevar|_]) as `autocast.cast_inputs` sees the callee's signature.
    Derived from the installed onnx schema (onnx_ir names a fixed-type formal after the parameter)."""
    key = (opname, version)
    if key not in _SCHEMA_CACHE:
        try:
            sch = onnx.defs.get_schema(opname, version, "")
        except Exception:
            _SCHEMA_CACHE[key] = None
        else:
            tcs = {tc.type_param_str for tc in sch.type_constraints}
            tvs = [(i.type_str if i.type_str in tcs else i.name) for i in sch.inputs]
            variadic = bool(sch.inputs) and sch.inputs[-1].option == onnx.defs.OpSchema.FormalParameterOption.Variadic
            homog = bool(sch.inputs) and bool(sch.inputs[-1].is_homogeneous)
            _SCHEMA_CACHE[key] = (True, variadic, homog, tvs)
    return _SCHEMA_CACHE[key]


def _b(x: bool) -> str:
    return "T" if x else "F"


def f32repr(v: float) -> str:
    return repr(float(np.float32(v)))


def attr_const_text(v) -> str:
    if isinstance(v, bool):
        return f"i:{int(v)}"
    if isinstance(v, int):
        return f"i:{v}"
    if isinstance(v, float):
        return "f:" + f32repr(v)
    if isinstance(v, str):
        return "s:" + re.sub(r"[\s()]", "_", v)
    if isinstance(v, (list, tuple)) and all(isinstance(x, int) for x in v):
        return "is:" + ",".join(str(int(x)) for x in v)
    if isinstance(v, (list, tuple)) and all(isinstance(x, float) for x in v):
        return "fs:" + ",".join(f32repr(x) for x in v)
    raise Unmodelled(f"attribute value {v!r}")


OPSET_ALIASES = {"op": 18, "opset11": 11, "opset12": 12, "opset13": 13, "opset17": 17, "opset18": 18, "opset19": 19, "opset20": 20, "opset21": 21}
DEFAULT_OPSET_VERSION = 18


class Encoder:
    def __init__(self, op_aliases=None, functions: dict | None = None):
        self.op_aliases = dict(op_aliases or OPSET_ALIASES)
        # name -> list of parameter names of tensor kind (for `T_<param>` type variables)
        self.functions = functions or {}

    # ---- expressions
    def expr(self, e: ast.AST) -> str:
        if isinstance(e, ast.Name):
            return sx("var", e.id)
        if isinstance(e, ast.Constant):
            v = e.value
            if isinstance(v, bool):
                return sx("bool", _b(v))
            if isinstance(v, int):
                return sx("int", str(v))
            if isinstance(v, float):
                return sx("flt", f32repr(v))
            raise Unmodelled(f"constant {v!r}")
        if isinstance(e, ast.List) and all(
            isinstance(x, ast.Constant) and isinstance(x.value, int) and not isinstance(x.value, bool) for x in e.elts
        ):
            return sx("ints", *[str(x.value) for x in e.elts])
        if isinstance(e, ast.Call):
            f = e.func
            if isinstance(f, ast.Attribute) and isinstance(f.value, ast.Name) and f.value.id in self.op_aliases:
                dom, name = "_", f.attr
                ver = self.op_aliases[f.value.id]
                sig = schema_sig(name, ver)
                if sig is None:
                    sigs = sx("sig", "F", "F", "F", sx(), str(ver))
                else:
                    sigs = sx("sig", _b(sig[0]), _b(sig[1]), _b(sig[2]), sx(*sig[3]), str(ver))
            elif isinstance(f, ast.Name) and f.id in self.functions:
                dom, name = "this", f.id
                sigs = sx("sig", "T", "F", "F", sx(*[f"T_{p}" for p in self.functions[f.id]]))
            elif isinstance(f, ast.Name) and f.id == "range":
                dom, name = "_", "range"
                sigs = sx("sig", "F", "F", "F", sx())
            else:
                raise Unmodelled("callee " + ast.dump(f)[:60])
            args = [self.expr(a) for a in e.args]
            attrs = []
            # An operator INPUT given by keyword (`op.Clip(x, min=lo, max=hi)`).  `param_manipulation.
            # separate_input_attributes_from_arguments` walks the formals in order; since b7afd5e (C01-D43) an
            # omitted optional input before a given one becomes a missing input (`Clip(x, "", hi)`).  The model
            # has positional inputs only: the order of the real helper is restated here, a call that needs a
            # missing input in the middle is outside the model (the semantic oracle still runs on it).
            in_names = []
            if dom == "_" and name != "range":
                try:
                    in_names = [i.name for i in onnx.defs.get_schema(name, ver, "").inputs]
                except Exception:
                    in_names = []
            kw_inputs = {kw.arg: kw.value for kw in e.keywords if kw.arg in in_names}
            omitted = False
            for i, nm in enumerate(in_names):
                if i < len(e.args):
                    continue
                if nm in kw_inputs:
                    v = kw_inputs[nm]
                    if isinstance(v, ast.Constant) and v.value is None:
                        omitted = True
                        continue
                    if omitted:
                        raise Unmodelled("a missing operator input before an input given by keyword")
                    args.append(self.expr(v))
                else:
                    omitted = True
            for kw in e.keywords:
                if kw.arg in kw_inputs:
                    continue
                if kw.arg is None:
                    raise Unmodelled("**kwargs")
                if isinstance(kw.value, ast.Name):
                    attrs.append(sx(kw.arg, sx("r", kw.value.id)))
                else:
                    try:
                        v = ast.literal_eval(kw.value)
                    except Exception as ex:
                        raise Unmodelled("attribute expression") from ex
                    if v is None:
                        continue  # `attr=None` is dropped by the converter
                    attrs.append(sx(kw.arg, sx("c", attr_const_text(v))))
            return sx("call", dom, name, sigs, sx(*args), sx(*attrs))
        if isinstance(e, ast.BinOp):
            return sx("binop", type(e.op).__name__, self.expr(e.left), self.expr(e.right))
        if isinstance(e, ast.UnaryOp):
            return sx("unop", type(e.op).__name__, self.expr(e.operand))
        if isinstance(e, ast.Compare) and len(e.ops) == 1 and len(e.comparators) == 1:
            return sx("cmp", type(e.ops[0]).__name__, self.expr(e.left), self.expr(e.comparators[0]))
        if isinstance(e, ast.Subscript):
            # constant subscripts only (every index an int, or a slice of ints): the model transcribes the node
            # emission of `_translate_subscript_expr` for them; tensor-valued indices stay outside
            sl = e.slice
            elts = sl.elts if isinstance(sl, ast.Tuple) else [sl]
            return sx("subscript", self.expr(e.value), sx(*[self.index(x) for x in elts]))
        if isinstance(e, (ast.BoolOp, ast.IfExp)):
            names = sorted({n.id for n in ast.walk(e) if isinstance(n, ast.Name)})
            return sx("other", *names)
        raise Unmodelled("expression " + type(e).__name__)

    @staticmethod
    def const_int(x):
        if isinstance(x, ast.Constant) and isinstance(x.value, int) and not isinstance(x.value, bool):
            return x.value
        if (isinstance(x, ast.UnaryOp) and isinstance(x.op, ast.USub) and isinstance(x.operand, ast.Constant)
                and isinstance(x.operand.value, int) and not isinstance(x.operand.value, bool)):
            return -x.operand.value
        raise Unmodelled("non-constant subscript")

    def index(self, x: ast.AST) -> str:
        if isinstance(x, ast.Slice):
            parts = [("_" if c is None else str(self.const_int(c))) for c in (x.lower, x.upper, x.step)]
            return sx("sl", *parts)
        return sx("k", str(self.const_int(x)))

    # ---- statements
    def names_of(self, t: ast.AST) -> list[str]:
        if isinstance(t, ast.Name):
            return [t.id]
        if isinstance(t, ast.Tuple) and all(isinstance(x, ast.Name) for x in t.elts):
            return [x.id for x in t.elts]
        raise Unmodelled("assignment target")

    def stmt(self, s: ast.stmt) -> str:
        if isinstance(s, ast.Assign):
            if len(s.targets) != 1:
                xs = [n for t in s.targets for n in self.names_of(t)]
                # analysis looks at targets[0] only
                return sx("badassign", sx(*self.names_of(s.targets[0])), self.expr(s.value)) if xs else ""
            lhs, rhs = s.targets[0], s.value
            if isinstance(rhs, ast.Tuple):
                if not isinstance(lhs, ast.Tuple):
                    return sx("badassign", sx(*self.names_of(lhs)), sx("other", *sorted(
                        {n.id for n in ast.walk(rhs) if isinstance(n, ast.Name)})))
                return sx("par", sx(*self.names_of(lhs)), sx(*[self.expr(x) for x in rhs.elts]))
            if isinstance(lhs, ast.Tuple):
                return sx("tuple", sx(*self.names_of(lhs)), self.expr(rhs))
            return sx("assign", self.names_of(lhs)[0], self.expr(rhs))
        if isinstance(s, ast.If):
            if len(s.body) == 1 and isinstance(s.body[0], ast.Break):
                if s.orelse:
                    # refused since a0a3f70 (C01-D44: the else statements used to be dropped silently); the model has
                    # no such statement, the refusal is checked by the crash oracle and the `break-else` stream
                    raise Unmodelled("`if b: break` with an else branch")
                return sx("break", self.expr(s.test))
            return sx("if", self.expr(s.test), sx(*self.block(s.body)), sx(*self.block(s.orelse)))
        if isinstance(s, ast.For):
            if not isinstance(s.target, ast.Name):
                raise Unmodelled("for target")
            it = s.iter
            ok = (
                isinstance(it, ast.Call)
                and isinstance(it.func, ast.Name)
                and it.func.id == "range"
                and len(it.args) == 1
                and not it.keywords
            )
            if ok:
                bound = self.expr(it.args[0])
            elif isinstance(it, ast.Call):
                bound = sx("call", "_", "iter", sx("sig", "F", "F", "F", sx()), sx(*[self.expr(a) for a in it.args]), sx())
            else:
                bound = self.expr(it)
            return sx("for", s.target.id, _b(ok), bound, sx(*self.block(s.body)))
        if isinstance(s, ast.While):
            return sx("while", self.expr(s.test), sx(*self.block(s.body)))
        if isinstance(s, ast.Return):
            if s.value is None:
                return sx("barereturn")
            if isinstance(s.value, ast.Tuple):
                return sx("return", *[self.expr(x) for x in s.value.elts])
            return sx("return", self.expr(s.value))
        if isinstance(s, ast.Expr):
            v = s.value
            if isinstance(v, ast.Constant) and isinstance(v.value, str):
                return sx("skip")
            if isinstance(v, ast.Call) and isinstance(v.func, ast.Name) and v.func.id == "print":
                return sx("skip")
            return sx("unsupported")
        if isinstance(s, ast.FunctionDef):
            raise Unmodelled("nested def")
        if isinstance(s, (ast.AugAssign, ast.Pass, ast.Assert, ast.Delete, ast.Global, ast.Nonlocal, ast.Raise,
                          ast.Continue, ast.Break, ast.With, ast.Try, ast.Import, ast.ImportFrom)):
            return sx("unsupported")
        raise Unmodelled("statement " + type(s).__name__)

    def block(self, ss) -> list[str]:
        return [self.stmt(s) for s in ss]

    # ---- function
    def function(self, fn: ast.FunctionDef) -> str:
        params = []
        for a in fn.args.args:
            ann = ast.unparse(a.annotation) if a.annotation is not None else ""
            kind = {"float": "float", "int": "int", "bool": "bool", "str": "string"}.get(ann)
            if kind is None and re.match(r"^(Sequence|List|typing\.Sequence)\[int\]$", ann):
                kind = "ints"
            if kind is None and re.match(r"^(Sequence|List|typing\.Sequence)\[float\]$", ann):
                kind = "floats"
            if kind:
                params.append(sx("a", a.arg, kind))
            else:
                params.append(sx("t", a.arg))
        if fn.returns is None:
            ret = "_"
        else:
            r = fn.returns
            if isinstance(r, ast.Subscript) and ast.unparse(r.value) in ("Tuple", "typing.Tuple", "tuple"):
                ret = str(len(r.slice.elts) if isinstance(r.slice, ast.Tuple) else 1)
            else:
                ret = "1"
        # `@script(default_opset=<alias>)`: the version the converter takes unqualified operators from
        dver = DEFAULT_OPSET_VERSION
        for d in fn.decorator_list:
            if isinstance(d, ast.Call):
                for kw in d.keywords:
                    if kw.arg == "default_opset" and isinstance(kw.value, ast.Name) and kw.value.id in self.op_aliases:
                        dver = self.op_aliases[kw.value.id]
        if dver < 15 and any(isinstance(n, ast.Constant) and isinstance(n.value, (int, float)) and not isinstance(n.value, bool)
                             for st in fn.body for n in ast.walk(st)):
            # 7b0eb49 (C01-D47): below opset 15 a literal beside a tensor is promoted with Cast(to=<static dtype of the
            # sibling>) instead of CastLike; the model erases type annotations, so such a function is outside it
            raise Unmodelled("literal promotion under default_opset < 15 (Cast to a static dtype)")
        return sx("func", fn.name, sx("params", *params), sx("ret", ret), sx("opset", str(dver)),
                  sx("body", *self.block(fn.body)))


def _env_lit(kind: str, v) -> str:
    if kind == "float":
        return sx("flt", f32repr(v))
    if kind == "int":
        return sx("int", str(int(v)))
    raise Unmodelled(f"closure / global value of kind {kind}")


def _ast_assigned(stmts) -> set:
    out = set()
    for s in stmts:
        for n in ast.walk(s):
            if isinstance(n, ast.Assign):
                for t in n.targets:
                    out |= {x.id for x in ast.walk(t) if isinstance(x, ast.Name)}
            elif isinstance(n, ast.For) and isinstance(n.target, ast.Name):
                out.add(n.target.id)
    return out


def fold_constant_ifs(fn: ast.FunctionDef, env) -> None:
    """`AstAnalyzer._compute_constant_if_conditions` + `_translate_if_stmt`, restated on the source: `if name:` where
    `name` is neither assigned in the function nor one of its parameters (11e898c, was C01-D45) and is bound in the
    surroundings (closure first, then module globals) is replaced by the branch its value selects."""
    closure, globs = env
    outer = {}
    for n, _, v in globs:
        outer[n] = v
    for n, _, v in closure:
        outer[n] = v
    assigned = _ast_assigned(fn.body) | {a.arg for a in fn.args.args}

    def fold(stmts):
        out = []
        for st in stmts:
            if isinstance(st, ast.If):
                t = st.test
                if isinstance(t, ast.Name) and t.id not in assigned and t.id in outer \
                        and not (len(st.body) == 1 and isinstance(st.body[0], ast.Break)):
                    out += fold(st.body if bool(outer[t.id]) else st.orelse)
                    continue
                st.body, st.orelse = fold(st.body), fold(st.orelse)
            elif isinstance(st, (ast.For, ast.While)):
                st.body = fold(st.body)
            out.append(st)
        return out

    fn.body = fold(fn.body)


def encode_function(src: str, functions: dict | None = None, env=None) -> str:
    """`src` = source of one decorated function (decorator lines allowed).  `env` = (closure, globals): lists of
    (name, kind, value) the function may read from its surroundings; the Lean side resolves the lookup order."""
    tree = ast.parse(src)
    fn = next(n for n in tree.body if isinstance(n, ast.FunctionDef))
    # static `if`s on outer-scope names are folded by the Lean model (`foldBlock` in OV/Model/C01Env.lean);
    # `fold_constant_ifs` below is the same rule on the source, kept for replaying old cases by hand
    f = Encoder(functions=functions).function(fn)
    if env is None:
        return f
    closure, globs = env
    return sx("withenv", sx("closure", *[sx(n, _env_lit(k, v)) for n, k, v in closure]),
              sx("globals", *[sx(n, _env_lit(k, v)) for n, k, v in globs]), f)


# --------------------------------------------------------------------------- protos -> neutral


def tensor_text(t: onnx.TensorProto) -> str:
    a = numpy_helper.to_array(t)
    if a.dtype == np.int64 and a.ndim == 0:
        return f"i:{int(a)}"
    if a.dtype == np.float32 and a.ndim == 0:
        return "f:" + f32repr(float(a))
    if a.dtype == np.bool_ and a.ndim == 0:
        return f"b:{int(bool(a))}"
    if a.dtype == np.int64 and a.ndim == 1:
        return "is:" + ",".join(str(int(x)) for x in a)
    return f"t{t.data_type}:{list(a.shape)}:" + ",".join(repr(x) for x in a.reshape(-1).tolist())


def attr_neutral(a: onnx.AttributeProto):
    if a.ref_attr_name:
        return (a.name, ("r", a.ref_attr_name))
    T = onnx.AttributeProto
    if a.type == T.INT:
        return (a.name, ("c", f"i:{a.i}"))
    if a.type == T.FLOAT:
        return (a.name, ("c", "f:" + f32repr(a.f)))
    if a.type == T.STRING:
        return (a.name, ("c", "s:" + re.sub(r"[\s()]", "_", a.s.decode("utf8", "replace"))))
    if a.type == T.INTS:
        return (a.name, ("c", "is:" + ",".join(str(x) for x in a.ints)))
    if a.type == T.FLOATS:
        return (a.name, ("c", "fs:" + ",".join(f32repr(x) for x in a.floats)))
    if a.type == T.TENSOR:
        return (a.name, ("c", tensor_text(a.t)))
    return (a.name, ("c", f"attrtype{a.type}"))


def node_neutral(n: onnx.NodeProto):
    graphs = {a.name: a.g for a in n.attribute if a.type == onnx.AttributeProto.GRAPH}
    if n.op_type == "If" and n.domain == "" and set(graphs) == {"then_branch", "else_branch"}:
        t, e = graphs["then_branch"], graphs["else_branch"]
        return ("if", n.input[0], list(n.output),
                [node_neutral(x) for x in t.node], [o.name for o in t.output],
                [node_neutral(x) for x in e.node], [o.name for o in e.output])
    if n.op_type == "Loop" and n.domain == "" and set(graphs) == {"body"}:
        b = graphs["body"]
        ins = list(n.input) + [""] * (2 - len(n.input))
        return ("loop", ins[0] or None, ins[1] or None, list(ins[2:]), list(n.output),
                [i.name for i in b.input], [node_neutral(x) for x in b.node], [o.name for o in b.output])
    if graphs:
        subs = [(k, [i.name for i in g.input], [node_neutral(x) for x in g.node], [o.name for o in g.output])
                for k, g in sorted(graphs.items())]
        return ("gen", n.domain, n.op_type, [i or None for i in n.input], list(n.output), subs)
    return ("op", n.domain, n.op_type, [i or None for i in n.input], list(n.output),
            sorted(attr_neutral(a) for a in n.attribute))


def proto_to_neutral(p):
    """FunctionProto or GraphProto -> ('graph', ins, attrs, nodes, outs)."""
    if isinstance(p, onnx.FunctionProto):
        attrs = list(p.attribute) + [a.name for a in p.attribute_proto]
        return ("graph", list(p.input), sorted(attrs), [node_neutral(n) for n in p.node], list(p.output))
    return ("graph", [i.name for i in p.input], [], [node_neutral(n) for n in p.node], [o.name for o in p.output])


# --------------------------------------------------------------------------- lean answer -> neutral


def _names(lst, tag):
    assert lst[0] == tag, (lst, tag)
    return list(lst[1:])


def _lean_node(x):
    k = x[0]
    if k == "op":
        _, dom, name, ins, outs, attrs = x
        al = []
        for kv in attrs[1:]:
            al.append((kv[0], (kv[1][0], kv[1][1])))
        return ("op", "" if dom == "_" else dom, name, [None if i == "_" else i for i in _names(ins, "ins")],
                _names(outs, "outs"), sorted(al))
    if k == "if":
        _, c, outs, tn, to, en, eo = x
        return ("if", c, _names(outs, "outs"), [_lean_node(n) for n in tn[1:]], _names(to, "outs"),
                [_lean_node(n) for n in en[1:]], _names(eo, "outs"))
    if k == "loop":
        _, b, c, inits, outs, bi, bn, bo = x
        return ("loop", None if b == "_" else b, None if c == "_" else c, _names(inits, "inits"),
                _names(outs, "outs"), _names(bi, "ins"), [_lean_node(n) for n in bn[1:]], _names(bo, "outs"))
    raise ValueError(k)


def lean_to_neutral(text: str):
    g = parse_sexp(text)
    assert g[0] == "graph"
    return ("graph", _names(g[1], "ins"), sorted(_names(g[2], "attrs")), [_lean_node(n) for n in g[3][1:]],
            _names(g[4], "outs"))


# --------------------------------------------------------------------------- canonical text


def canonical(g, rename: bool = True) -> str:
    table: dict[str, str] = {}

    def nm(x):
        if x is None:
            return "_"
        if not rename:
            return x
        if x not in table:
            table[x] = f"v{len(table)}"
        return table[x]

    def node(n):
        if n[0] == "op":
            _, dom, name, ins, outs, attrs = n
            i = " ".join(nm(x) for x in ins)
            o = " ".join(nm(x) for x in outs)
            a = " ".join(f"{k}={v[0]}:{v[1]}" for k, v in attrs)
            return f"[{dom}.{name} ({i}) -> ({o}) {{{a}}}]"
        if n[0] == "if":
            _, c, outs, tn, to, en, eo = n
            cs = nm(c)
            ts = " ".join(node(x) for x in tn)
            tos = " ".join(nm(x) for x in to)
            es = " ".join(node(x) for x in en)
            eos = " ".join(nm(x) for x in eo)
            os_ = " ".join(nm(x) for x in outs)
            return f"[If {cs} then{{{ts} => {tos}}} else{{{es} => {eos}}} -> ({os_})]"
        _, b, c, inits, outs, bi, bn, bo = n
        bs, cs = nm(b), nm(c)
        is_ = " ".join(nm(x) for x in inits)
        bis = " ".join(nm(x) for x in bi)
        bns = " ".join(node(x) for x in bn)
        bos = " ".join(nm(x) for x in bo)
        os_ = " ".join(nm(x) for x in outs)
        return f"[Loop {bs} {cs} ({is_}) body({bis}){{{bns} => {bos}}} -> ({os_})]"

    _, ins, attrs, nodes, outs = g
    i = " ".join(nm(x) for x in ins)
    ns = " ".join(node(n) for n in nodes)
    o = " ".join(nm(x) for x in outs)
    return f"in({i}) attrs({' '.join(attrs)}) {ns} out({o})"


# --------------------------------------------------------------------------- neutral -> sexp for `C01 wf`


def has_generic(g) -> bool:
    def any_gen(nodes):
        for n in nodes:
            if n[0] == "gen":
                return True
            if n[0] == "if" and (any_gen(n[3]) or any_gen(n[5])):
                return True
            if n[0] == "loop" and any_gen(n[6]):
                return True
        return False

    return any_gen(g[3])


def neutral_to_sexp(g) -> str:
    table: dict[str, str] = {}

    def nm(x):
        if x is None:
            return "_"
        if x not in table:
            table[x] = f"n{len(table)}"
        return table[x]

    def names(tag, xs):
        return sx(tag, *[nm(x) for x in xs])

    def node(n):
        if n[0] == "op":
            _, dom, name, ins, outs, attrs = n
            al = [sx(re.sub(r"[\s()]", "_", k), sx(v[0], re.sub(r"[\s()]", "_", str(v[1])) or "_")) for k, v in attrs]
            return sx("op", dom or "_", re.sub(r"[\s()]", "_", name), names("ins", ins), names("outs", outs), sx("attrs", *al))
        if n[0] == "if":
            _, c, outs, tn, to, en, eo = n
            return sx("if", nm(c), names("outs", outs), sx("nodes", *[node(x) for x in tn]), names("outs", to),
                      sx("nodes", *[node(x) for x in en]), names("outs", eo))
        _, b, c, inits, outs, bi, bn, bo = n
        return sx("loop", nm(b), nm(c), names("inits", inits), names("outs", outs), names("ins", bi),
                  sx("nodes", *[node(x) for x in bn]), names("outs", bo))

    _, ins, attrs, nodes, outs = g
    return sx("graph", names("ins", ins), sx("attrs", *[re.sub(r"[\s()]", "_", a) for a in attrs]),
              sx("nodes", *[node(n) for n in nodes]), names("outs", outs))


# --------------------------------------------------------------------------- independent scope walker


def scope_walk(g) -> list[str]:
    """Independent implementation of the structural rules of C02 on a neutral graph.
    Returns a list of violated rules (empty = well-formed)."""
    problems: list[str] = []
    defined_once: dict[str, int] = {}

    def define(x, where):
        defined_once[x] = defined_once.get(x, 0) + 1
        if defined_once[x] == 2:
            problems.append(f"name-defined-twice:{x}@{where}")

    def walk(nodes, visible: set, where: str) -> set:
        """returns names produced by nodes of this graph"""
        produced: set = set()
        vis = set(visible)
        for k, n in enumerate(nodes):
            w = f"{where}/{k}"
            if n[0] == "op":
                for i in n[3]:
                    if i is not None and i not in vis:
                        problems.append(f"use-before-def:{i}@{w}")
                outs = n[4]
            elif n[0] == "gen":
                for i in n[3]:
                    if i is not None and i not in vis:
                        problems.append(f"use-before-def:{i}@{w}")
                outs = n[4]
                for an, bi, bn, bo in n[5]:
                    for i in bi:
                        define(i, f"{w}.{an}-input")
                    inner = walk(bn, vis | set(bi), f"{w}.{an}")
                    for o in bo:
                        if o not in inner:
                            problems.append(f"subgraph-output-not-produced-inside:{o}@{w}.{an}")
                    if len(set(bo)) != len(bo):
                        problems.append(f"duplicate-subgraph-output@{w}.{an}")
            elif n[0] == "if":
                _, c, outs, tn, to, en, eo = n
                if c not in vis:
                    problems.append(f"use-before-def:{c}@{w}")
                for tag, bn, bo in (("then", tn, to), ("else", en, eo)):
                    inner = walk(bn, vis, f"{w}.{tag}")
                    for o in bo:
                        if o not in inner:
                            problems.append(f"subgraph-output-not-produced-inside:{o}@{w}.{tag}")
                    if len(bo) != len(outs):
                        problems.append(f"branch-arity@{w}.{tag}")
                    if len(set(bo)) != len(bo):
                        problems.append(f"duplicate-subgraph-output@{w}.{tag}")
            else:
                _, b, c, inits, outs, bi, bn, bo = n
                for i in [b, c] + list(inits):
                    if i is not None and i not in vis:
                        problems.append(f"use-before-def:{i}@{w}")
                for i in bi:
                    define(i, w + ".body-input")
                inner = walk(bn, vis | set(bi), f"{w}.body")
                for o in bo:
                    if o not in inner:
                        problems.append(f"subgraph-output-not-produced-inside:{o}@{w}.body")
                if len(bi) != len(inits) + 2 or len(bo) != len(inits) + 1 or len(outs) != len(inits):
                    problems.append(f"loop-arity@{w}")
                if len(set(bo)) != len(bo):
                    problems.append(f"duplicate-subgraph-output@{w}.body")
            for o in outs:
                define(o, w)
                produced.add(o)
                vis.add(o)
        return produced

    _, ins, _attrs, nodes, outs = g
    for i in ins:
        define(i, "input")
    top = walk(nodes, set(ins), "g")
    seen = set()
    for o in outs:
        if o in ins:
            problems.append(f"input-returned-directly:{o}")
        elif o not in top:
            problems.append(f"output-undefined:{o}")
        if o in seen:
            problems.append(f"duplicate-output:{o}")
        seen.add(o)
    return problems
