#!/bin/bash
# usage: harness/seedimport.sh C10   — copies /tmp/mut_c10/_seeded/* to seeded/C10-k, confirms, runs the check
P=$1; p=$(echo $P | tr A-Z a-z)
cd "$(dirname "$0")/.."
for d in /tmp/mut_$p/_seeded/*/; do
  k=$(basename $d); mkdir -p seeded/$P-$k; cp $d/* seeded/$P-$k/
  /venv/bin/python harness/seedconfirm.py $P-$k /tmp/mut_$p 2>&1 | grep -v conda | cut -c1-300
done
if [ "$2" != "noconfirmrun" ]; then
  for d in seeded/$P-*/; do /venv/bin/python harness/seedrun.py $(basename $d) 2>&1 | grep -v conda; done
fi
