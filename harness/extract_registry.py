"""C16 translator: real torch_lib registry + installed PyTorch schemas -> rows -> OV/Gen/C16Registry*.lean.

For every entry of `onnxscript._framework_apis.torch_2_5.get_torchlib_ops()` (the list the PyTorch
exporter consumes, torch/onnx/_internal/exporter/_registration.py:169) one row records

* qualified name, is_complex, trace_only (TracedOnnxFunction vs OnnxFunction), python function name;
* the function's OpSignature as `/repo`'s `onnxscript.ir._schemas.op_signature_from_function` classifies it,
  computed by calling that real function on the real registered python function (and compared with the
  `op_signature` the object carries): per parameter name / input-vs-attribute / attribute type / required /
  variadic / python parameter kind;
* how the name resolves in the installed PyTorch, using the exporter's own resolver
  `torch.onnx._internal.exporter._registration._get_overload` (after loading the quantized_decomposed
  library), and the resolved operator's schema parsed from `str(op._schema)`: positional and keyword-only
  arguments with (name, base kind, list?, optional?, has default?).

Nothing here decides the property; the rows are data for the Lean table theorems and for the Python twin
in harness/c16.py.
"""
from __future__ import annotations

import hashlib
import inspect
import math
import operator
import re
import warnings
from pathlib import Path
from typing import Any

N_CHUNKS = 8
INT_ONLY_PREFIXES = ("aten::bitwise_", "aten::__lshift__", "aten::__rshift__")

# ----------------------------------------------------------------------------- ATen schema text


def split_top(s: str, sep: str = ",") -> list[str]:
    out, depth, cur, in_str = [], 0, [], None
    for ch in s:
        if in_str:
            cur.append(ch)
            if ch == in_str:
                in_str = None
            continue
        if ch in "\"'":
            in_str = ch
            cur.append(ch)
        elif ch in "([{":
            depth += 1
            cur.append(ch)
        elif ch in ")]}":
            depth -= 1
            cur.append(ch)
        elif ch == sep and depth == 0:
            out.append("".join(cur).strip())
            cur = []
        else:
            cur.append(ch)
    if "".join(cur).strip():
        out.append("".join(cur).strip())
    return out


BASES = {
    "Tensor": "tensor",
    "Scalar": "scalar",
    "int": "int",
    "SymInt": "symint",
    "float": "float",
    "bool": "bool",
    "SymBool": "bool",
    "str": "str",
    "ScalarType": "dtype",
    "Layout": "layout",
    "Device": "device",
    "MemoryFormat": "memfmt",
    "Generator": "generator",
    "Dimname": "dimname",
}


def parse_type(t: str) -> dict:
    """`Tensor(a!)?[]` style type -> {base, isList, elemOpt, optional}."""
    t = re.sub(r"\([^)]*\)", "", t.strip())  # alias annotations
    optional = False
    is_list = False
    elem_opt = False
    if t.endswith("?"):
        optional = True
        t = t[:-1]
    m = re.fullmatch(r"(.*)\[\d*\]", t)
    if m:
        is_list = True
        t = m.group(1)
        if t.endswith("?"):
            elem_opt = True
            t = t[:-1]
    base = BASES.get(t, "other")
    return {"base": base, "isList": is_list, "elemOpt": elem_opt, "optional": optional, "text": t}


def parse_schema(text: str) -> dict:
    """`ns::name.ovl(args) -> ret` -> {positional:[...], kwonly:[...]}."""
    i = text.index("(")
    depth = 0
    for j in range(i, len(text)):
        if text[j] == "(":
            depth += 1
        elif text[j] == ")":
            depth -= 1
            if depth == 0:
                break
    body = text[i + 1 : j]
    pos, kw = [], []
    cur = pos
    for part in split_top(body):
        if part == "*":
            cur = kw
            continue
        if "=" in part:
            decl, default = part.split("=", 1)
            has_default = True
        else:
            decl, has_default = part, False
        decl = decl.strip()
        ty, name = decl.rsplit(" ", 1)
        d = parse_type(ty)
        d.update(name=name, hasDefault=has_default, type=ty.strip())
        cur.append(d)
    return {"positional": pos, "kwonly": kw}


# ----------------------------------------------------------------------------- one row

ATTR_NAMES = {
    "INT": "int",
    "FLOAT": "float",
    "STRING": "string",
    "INTS": "ints",
    "FLOATS": "floats",
    "STRINGS": "strings",
}


def annot_category(hints: dict, name: str) -> str:
    """Syntactic category of an annotation, read WITHOUT `get_attr_type` (independent restatement of its domain)."""
    import collections.abc
    import typing

    import onnx_ir as ir

    base = {int: "int", float: "float", str: "str", bool: "bool", ir.Tensor: "tensor", ir.TensorProtocol: "tensor",
            ir.Graph: "graph", ir.GraphProtocol: "graph"}
    if name not in hints:
        return "missing"
    t = hints[name]
    try:
        if t in base:
            return "base:" + base[t]
    except TypeError:
        pass
    origin = typing.get_origin(t)
    if origin is None:
        return "otherPlain"
    if origin in (collections.abc.Sequence, list, tuple):
        args = typing.get_args(t)
        try:
            if args and args[0] in base:
                return "seqOf:" + base[args[0]]
        except TypeError:
            pass
    return "otherOrigin"


def sig_rows(sig, pyfunc) -> list[dict]:
    import typing

    import onnx_ir as ir

    pysig = inspect.signature(pyfunc)
    kinds = {p.name: p.kind.name for p in pysig.parameters.values()}
    try:
        hints = typing.get_type_hints(pyfunc)
    except Exception:
        hints = {}
    extra = {
        p.name: {"annot": annot_category(hints, p.name), "pyDefault": p.default is not inspect.Parameter.empty}
        for p in pysig.parameters.values()
    }
    out = []
    for p in sig.params:
        if isinstance(p, ir.schemas.AttributeParameter):
            out.append(
                {
                    "name": p.name,
                    "isInput": False,
                    "attr": ATTR_NAMES.get(p.type.name, "other"),
                    "required": bool(p.required),
                    "variadic": False,
                    "pok": kinds.get(p.name) == "POSITIONAL_OR_KEYWORD",
                    **extra.get(p.name, {"annot": "otherPlain", "pyDefault": False}),
                }
            )
        else:
            out.append(
                {
                    "name": p.name,
                    "isInput": True,
                    "attr": "none",
                    "required": bool(p.required),
                    "variadic": bool(p.variadic),
                    "pok": kinds.get(p.name) == "POSITIONAL_OR_KEYWORD",
                    **extra.get(p.name, {"annot": "otherPlain", "pyDefault": False}),
                }
            )
    return out


JUDGED_BASES = {"int", "symint", "float", "bool", "str", "scalar"}


def dval(v, absent: bool = False, judged_kind: bool = True):
    """Default value -> DVal as a JSON-able tuple: ("absent",) | ("none",) | ("bool", b) | ("num", n, d) | ("str", s) |
    ("nums", [[n, d], …]) | ("opaque",).  Only exact python `bool/int/float/str` (no enum members, no infinities) and
    lists/tuples of exact `int/float` are concrete; everything else is opaque."""
    from fractions import Fraction

    def num(x):
        if type(x) is int or (type(x) is float and x == x and abs(x) != float("inf")):
            f = Fraction(x)
            return [f.numerator, f.denominator]
        return None

    if absent:
        return ("absent",)
    if v is None:
        return ("none",)
    if not judged_kind:
        return ("opaque",)
    if type(v) is bool:
        return ("bool", v)
    if num(v) is not None:
        return ("num", *num(v))
    if type(v) is str:
        return ("str", v)
    if type(v) in (list, tuple) and all(num(x) is not None for x in v):
        return ("nums", [num(x) for x in v])
    return ("opaque",)


def py_defaults(pyfunc, names: list[str]) -> list:
    ps = inspect.signature(pyfunc).parameters
    return [dval(ps[n].default, absent=(n not in ps or ps[n].default is inspect.Parameter.empty)) for n in names]


def schema_defaults(target, aten: dict) -> list:
    """Structured defaults of the installed PyTorch (`torch._C.Argument.default_value`), in the order positional ++ kwonly;
    values of dtype / layout / memory-format / device / … arguments are opaque (their python stand-ins are not comparable)."""
    by_name = {a.name: a for a in target._schema.arguments}
    out = []
    for x in aten["positional"] + aten["kwonly"]:
        a = by_name[x["name"]]
        out.append(dval(a.default_value if a.has_default_value() else None, absent=not a.has_default_value(),
                        judged_kind=x["base"] in JUDGED_BASES))
    return out


def builtin_schema(fn) -> dict | None:
    """Python builtins the exporter maps `_operator::x` / `math::x` to: positional-only python values."""
    try:
        ps = list(inspect.signature(fn).parameters.values())
    except (TypeError, ValueError):
        return None
    pos = []
    for p in ps:
        if p.kind not in (p.POSITIONAL_ONLY, p.POSITIONAL_OR_KEYWORD):
            return None
        pos.append(
            {
                "name": p.name,
                "base": "pyobj",
                "isList": False,
                "elemOpt": False,
                "optional": False,
                "hasDefault": p.default is not p.empty,
                "type": "object",
            }
        )
    return {"positional": pos, "kwonly": []}


def load(record_warnings: bool = True) -> dict:
    """Import the real registry (first import in the process) and build the rows."""
    import torch  # noqa: F401
    import torch.ao.quantization.fx._decomposed  # noqa: F401  registers quantized_decomposed::*

    try:  # registers torchvision::* when the package is present
        import torchvision  # noqa: F401

        have_tv = True
    except Exception:
        have_tv = False
    from torch.onnx._internal.exporter import _registration as t_reg

    with warnings.catch_warnings(record=True) as caught:
        warnings.simplefilter("always")
        from onnxscript._framework_apis import torch_2_5

        metas = torch_2_5.get_torchlib_ops()
    import onnxscript
    from onnxscript.function_libs.torch_lib import registration
    from onnxscript.ir import _schemas

    dup_warnings = [str(w.message) for w in caught if "already registered" in str(w.message)]
    rows = []
    objs = []
    for m in metas:
        f = m.function
        scripted = isinstance(f, onnxscript.OnnxFunction)
        pyfunc = f.function if scripted else f.func
        # the real classification function of /repo, on the real registered python function
        sig = _schemas.op_signature_from_function(pyfunc, domain="x", name=getattr(pyfunc, "__name__", "f"))
        params = sig_rows(sig, pyfunc)
        carried = sig_rows(f.op_signature, pyfunc)
        q = m.qualified_name
        ns = q.split("::")[0] if "::" in q else ""
        res, aten, schema_text = "undefined", None, None
        target = None
        try:
            target = t_reg._get_overload(q)
        except Exception as e:  # the exporter's resolver itself failed: treat as undefined, keep the reason
            schema_text = f"resolver raised {type(e).__name__}"
        if isinstance(target, torch._ops.OpOverload):
            res = "resolved"
            schema_text = str(target._schema)
            aten = parse_schema(schema_text)
            # cross-check the text parser against the structured schema
            names = [(a.name, bool(a.kwarg_only), a.has_default_value()) for a in target._schema.arguments]
            mine = [(a["name"], False, a["hasDefault"]) for a in aten["positional"]] + [
                (a["name"], True, a["hasDefault"]) for a in aten["kwonly"]
            ]
            if names != mine:
                raise RuntimeError(f"schema text parser disagrees with torch for {q}: {names} vs {mine}")
        elif target is not None and ns in ("_operator", "math"):
            res = "builtin"
            aten = builtin_schema(target)
            schema_text = f"python builtin {getattr(target, '__module__', '')}.{getattr(target, '__name__', '')}{inspect.signature(target)}"
            if aten is None:
                res = "undefined"
        else:
            if ns == "torchvision" and not have_tv:
                res = "lib_absent"
                schema_text = "torchvision is not installed"
            else:
                res = "undefined"
        pdef = py_defaults(pyfunc, [p["name"] for p in params])
        if res == "resolved":
            adef = schema_defaults(target, aten)
        elif aten is not None:  # python builtins: defaults (none today) are not readable as values
            adef = [("opaque",) if x["hasDefault"] else ("absent",) for x in aten["positional"] + aten["kwonly"]]
        else:
            adef = []
        if aten is not None and q.startswith(INT_ONLY_PREFIXES):
            # Scalars of the bitwise / shift operators are integers by the operator's meaning
            for x in aten["positional"] + aten["kwonly"]:
                x["intScalar"] = x["base"] == "scalar"
        rows.append(
            {
                "qualified": q,
                "isComplex": bool(m.is_complex),
                "traceOnly": not scripted,
                "func": getattr(pyfunc, "__name__", "?"),
                "sig": params,
                "carriedSigSame": params == carried,
                "res": res,
                "aten": aten or {"positional": [], "kwonly": []},
                "schemaText": schema_text,
                "adef": adef,
                "pdef": pdef,
            }
        )
        objs.append(f)
    return {
        "rows": rows,
        "objs": objs,
        "dup_warnings": dup_warnings,
        "registry": registration.default_registry,
        "torch_version": torch.__version__,
    }


# ----------------------------------------------------------------------------- Lean emission


def lstr(s: str) -> str:
    return '"' + s.replace("\\", "\\\\").replace('"', '\\"').replace("\n", "\\n") + '"'


def lbool(b: bool) -> str:
    return "true" if b else "false"


def lean_aarg(a: dict) -> str:
    return (f"⟨{lstr(a['name'])}, .{a['base']}, {lbool(a['isList'])}, {lbool(a['optional'])}, {lbool(a['hasDefault'])}, "
            f"{lbool(a.get('intScalar', False))}⟩")


def lannot(a: str) -> str:
    return "." + a.replace(":", " .")


def lean_param(p: dict) -> str:
    return (
        f"⟨{lstr(p['name'])}, {lbool(p['isInput'])}, .{p['attr']}, {lbool(p['required'])}, "
        f"{lbool(p['variadic'])}, {lbool(p['pok'])}, {lannot(p['annot'])}, {lbool(p['pyDefault'])}⟩"
    )


def lean_dval(d) -> str:
    k = d[0]
    if k in ("absent", "none", "opaque"):
        return "." + k
    if k == "bool":
        return f"(.bool {lbool(d[1])})"
    if k == "num":
        return f"(.num ({d[1]}) {d[2]})"
    if k == "str":
        return f"(.str {lcodes(d[1])})"
    return "(.nums [" + ", ".join(f"(({n}), {m})" for n, m in d[1]) + "])"


def lcodes(s: str) -> str:
    return "[" + ", ".join(str(ord(c)) for c in s) + "]"


def lean_row(r: dict) -> str:
    pos = ", ".join(lean_aarg(a) for a in r["aten"]["positional"])
    kw = ", ".join(lean_aarg(a) for a in r["aten"]["kwonly"])
    sig = ", ".join(lean_param(p) for p in r["sig"])
    mode = ".traced" if r["traceOnly"] else ".scripted"
    return (
        f"  -- {r['qualified']}\n"
        f"  ⟨{lcodes(r['qualified'])}, {lbool(r['isComplex'])}, {mode}, .{r['res']},\n"
        f"   ⟨[{pos}], [{kw}]⟩,\n"
        f"   [{sig}],\n"
        f"   {lcodes(r['func'])},\n"
        f"   [{', '.join(lean_dval(d) for d in r['adef'])}],\n"
        f"   [{', '.join(lean_dval(d) for d in r['pdef'])}]⟩"
    )


def emit(rows: list[dict], gen_dir: Path) -> dict:
    """Write OV/Gen/C16Registry{0..N-1}.lean + C16Registry.lean; only when content changed."""
    gen_dir.mkdir(parents=True, exist_ok=True)
    n = len(rows)
    per = max(1, math.ceil(n / N_CHUNKS))
    written = []
    digest = hashlib.sha1()
    for k in range(N_CHUNKS):
        part = rows[k * per : (k + 1) * per]
        body = ",\n".join(lean_row(r) for r in part)
        text = (
            "import OV.Model.C16Bind\n"
            "/-! GENERATED by harness/extract_registry.py from /repo's torch_lib registry and the installed PyTorch; do not edit. -/\n"
            "namespace OV.Gen.C16\nopen OV.C16\n\n"
            f"def chunk{k} : List Entry := [\n{body}\n]\n\nend OV.Gen.C16\n"
        )
        digest.update(text.encode())
        p = gen_dir / f"C16Registry{k}.lean"
        if not p.exists() or p.read_text() != text:
            p.write_text(text)
            written.append(p.name)
    text = (
        "".join(f"import OV.Gen.C16Registry{k}\n" for k in range(N_CHUNKS))
        + "/-! GENERATED by harness/extract_registry.py; do not edit. -/\n"
        "namespace OV.Gen.C16\nopen OV.C16\n\n"
        "def registry : List Entry := " + " ++ ".join(f"chunk{k}" for k in range(N_CHUNKS)) + "\n\n"
        f"def registrySize : Nat := {n}\n\nend OV.Gen.C16\n"
    )
    digest.update(text.encode())
    p = gen_dir / "C16Registry.lean"
    if not p.exists() or p.read_text() != text:
        p.write_text(text)
        written.append(p.name)
    return {"rows": n, "chunks": N_CHUNKS, "rewritten": written, "sha1": digest.hexdigest()[:16]}
