"""C20 support: build a real ir.Model + scratch directory from a spec, run the real
`save_model_with_external_data` under an in-process fault-injecting file-system wrapper, and
canonicalise everything observable into the same line the Lean driver prints.

Spec (JSON-able dict):
  name     model file name, e.g. "m.onnx"
  dir      "" or a sub-directory of the scratch root (model_path = root/dir/name)
  style    "abs" | "pathlib" | "rel"      how model_path is handed to the function
  verbose  0 | 1 (tqdm present -> callback branch) | 2 (verbose, tqdm absent -> plain branch)
  files    [[relpath, seed, len], ...]    data files present before the call (content gen_bytes(seed,len))
  inits    [{"name","sub":0|1,"kind":"M","seed","len","np":0|1,"dtype","shape"} |
            {"name","sub","kind":"E","file","off","len","valid":0|1,"dtype","shape"} |
            {"name","sub","kind":"U"}]      main-graph initializers first, then sub-graph ones
"""
from __future__ import annotations

import builtins
import contextlib
import errno
import importlib.machinery
import io
import os
import pathlib
import re
import shutil
import sys
import tempfile
import types

import numpy as np

# --------------------------------------------------------------------------- bytes


def gen_bytes(seed: int, n: int) -> bytes:
    """Same content as `OV.Drivers.C20.gen` on the Lean side."""
    i = np.arange(n, dtype=np.int64)
    return ((seed * 131 + i * 7 + (i // 251) * 3 + 1) % 256).astype(np.uint8).tobytes()


def cks(b: bytes) -> str:
    a = np.frombuffer(b, dtype=np.uint8).astype(np.uint64)
    w = np.arange(1, len(a) + 1, dtype=np.uint64)
    return f"{len(a)}:{int((a * w).sum(dtype=np.uint64))}"


# --------------------------------------------------------------------------- fault-injecting FS


class FaultFS:
    """Counts / traces / fails the k-th file-system call made on paths below `root`."""

    def __init__(self, root: str, k: int | None, model_rel: str, partial: bool = False):
        self.root = os.path.realpath(root)
        self.k = k
        self.partial = partial  # a faulted write() first puts the first half of its data on disk (short write, then error)
        self.partial_fired = False
        self.n = 0
        self.trace: list[str] = []
        self.model_rel = model_rel
        self.open_files: list = []
        self.fired = False

    def rel(self, p) -> str | None:
        try:
            s = os.fspath(p)
        except TypeError:
            return None
        if isinstance(s, bytes):
            s = os.fsdecode(s)
        a = os.path.realpath(os.path.abspath(s))
        if a == self.root or a.startswith(self.root + os.sep):
            return os.path.relpath(a, self.root)
        return None

    def tick(self, op: str) -> None:
        idx = self.n
        self.n += 1
        self.trace.append(op)
        if self.k is not None and idx == self.k:
            self.fired = True
            raise OSError(errno.EIO, f"injected fault at file-system call {idx} ({op})")


class FileProxy:
    def __init__(self, fs: FaultFS, real, rel: str):
        self.__dict__["_fs"] = fs
        self.__dict__["_real"] = real
        self.__dict__["_rel"] = rel
        self.__dict__["_closed_ticked"] = False

    # traced + faultable
    def write(self, data):
        n = len(data) if not isinstance(data, memoryview) else data.nbytes
        try:
            self._fs.tick(f"w:{self._rel}:{0 if self._rel == self._fs.model_rel else n}")
        except OSError:
            if self._fs.partial:
                mv = memoryview(data).cast("B")
                self._real.write(mv[: len(mv) // 2])
                self._real.flush()
                self._fs.partial_fired = True
            raise
        return self._real.write(data)

    def flush(self):
        self._fs.tick(f"fl:{self._rel}")
        return self._real.flush()

    def seek(self, pos, whence=0):
        self._fs.tick(f"sk:{self._rel}:{pos}" + ("" if whence == 0 else f":{whence}"))
        return self._real.seek(pos, whence)

    def read(self, *a):
        self._fs.tick(f"rd:{self._rel}")
        return self._real.read(*a)

    def readinto(self, b):
        self._fs.tick(f"rd:{self._rel}")
        return self._real.readinto(b)

    def truncate(self, *a):
        self._fs.tick(f"trunc:{self._rel}")
        return self._real.truncate(*a)

    def close(self):
        if self._closed_ticked:
            return self._real.close()
        self.__dict__["_closed_ticked"] = True
        try:
            self._real.close()
        finally:
            self._fs.tick(f"cl:{self._rel}")

    def __enter__(self):
        return self

    def __exit__(self, *exc):
        self.close()
        return False

    def __iter__(self):
        return iter(self._real)

    # everything else (tell, fileno, name, mode, closed, …) is passed through untraced
    def __getattr__(self, a):
        return getattr(self._real, a)


_PATCH_OS = [
    "replace", "rename", "renames", "remove", "unlink", "mkdir", "makedirs", "rmdir", "truncate",
    "link", "symlink", "open",
]
_PATCH_SHUTIL = ["move", "copy", "copy2", "copyfile", "rmtree"]


@contextlib.contextmanager
def fault_scope(fs: FaultFS):
    real_open = builtins.open
    real_io_open = io.open
    saved = []

    def my_open(file, mode="r", *a, **kw):
        rel = fs.rel(file) if not isinstance(file, int) else None
        if rel is None:
            return real_open(file, mode, *a, **kw)
        writing = any(c in mode for c in "wax+")
        fs.tick(("ow:" if writing else "or:") + rel)
        f = FileProxy(fs, real_open(file, mode, *a, **kw), rel)
        fs.open_files.append(f)
        return f

    def wrap(mod, name):
        real = getattr(mod, name)

        def w(*a, **kw):
            rels = [fs.rel(x) for x in a if isinstance(x, (str, bytes, os.PathLike))]
            rels = [r for r in rels if r is not None]
            if rels:
                fs.tick(f"{mod.__name__}.{name}:" + ":".join(rels))
            return real(*a, **kw)

        saved.append((mod, name, real))
        setattr(mod, name, w)

    builtins.open = my_open
    io.open = my_open
    for n in _PATCH_OS:
        wrap(os, n)
    for n in _PATCH_SHUTIL:
        wrap(shutil, n)
    try:
        yield
    finally:
        builtins.open = real_open
        io.open = real_io_open
        for mod, name, real in saved:
            setattr(mod, name, real)
        for f in fs.open_files:
            try:
                f._real.close()
            except Exception:
                pass


# --------------------------------------------------------------------------- fake tqdm


class _FakeBar:
    def __init__(self, log):
        self.log = log
        self.total = None
        self._total = None

    def __enter__(self):
        return self

    def __exit__(self, *a):
        self.log["total"] = self.total
        return False

    def update(self, n=1):
        self.log["updates"] += 1

    def set_description(self, s):
        self.log["desc"].append(s)


@contextlib.contextmanager
def tqdm_mode(mode: int, log: dict):
    """mode 1: a recording tqdm; mode 2: tqdm absent (find_spec -> None); mode 0: untouched."""
    sentinel = object()
    saved = sys.modules.get("tqdm", sentinel)
    try:
        if mode == 1:
            m = types.ModuleType("tqdm")
            m.__spec__ = importlib.machinery.ModuleSpec("tqdm", None)
            m.tqdm = lambda *a, **kw: _FakeBar(log)
            sys.modules["tqdm"] = m
        elif mode == 2:
            sys.modules["tqdm"] = None  # importlib.util.find_spec("tqdm") returns None
        yield
    finally:
        if saved is sentinel:
            sys.modules.pop("tqdm", None)
        else:
            sys.modules["tqdm"] = saved


# --------------------------------------------------------------------------- world


LEVEL_GRAPH = {0: "g", 1: "then_g", 2: "nest_g", 3: "else_g", 4: "loop_g"}


def join(d: str, n: str) -> str:
    return n if d == "" else d + "/" + n


class World:
    """Scratch directory + real ir.Model built from a spec."""

    def __init__(self, spec: dict):
        from onnxscript import ir

        self.spec = spec
        self.root = os.path.realpath(tempfile.mkdtemp(prefix="c20_"))
        self.dir = spec.get("dir", "")
        self.base = os.path.join(self.root, self.dir) if self.dir else self.root
        os.makedirs(self.base, exist_ok=True)
        self.model_rel = join(self.dir, spec["name"])
        self.data_rel = self.model_rel + ".data"
        self.initial_files: dict[str, bytes] = {}
        for rel, seed, n in spec.get("files", []):
            p = os.path.join(self.root, rel)
            os.makedirs(os.path.dirname(p), exist_ok=True)
            b = gen_bytes(seed, n)
            with open(p, "wb") as f:
                f.write(b)
            self.initial_files[rel] = b
        self.values = []  # all initializer Values, model.graphs() order
        self.objs = []  # original tensor objects (None for U)
        # level ("sub"): 0 main graph, 1 then-branch of an If, 2 If nested inside that then-branch, 3 else-branch,
        # 4 body of a Loop (visited after the If by model.graphs()).  Names may repeat ACROSS levels, not within one.
        levels: dict[int, list] = {0: [], 1: [], 2: [], 3: [], 4: []}
        self.tensors = []  # tensor object per initializer of the spec (aliases included, None for U)
        flags: dict[int, dict] = {}
        by_name: dict[str, object] = {}
        self.owned = []  # tensor objects owned (not aliases), in heap order of the model
        for it in spec.get("inits", []):
            if it["kind"] == "A":
                t = by_name[it["of"]]
                by_name[it["name"]] = t
                src = next(x for x in spec["inits"] if x["name"] == it["of"])
                it = dict(it, shape=src["shape"])
                v = ir.Value(name=it["name"], const_value=t, shape=ir.Shape(list(src["shape"])), type=ir.TensorType(t.dtype))
                levels[int(it.get("sub", 0))].append(v)
                flags[id(v)] = it
                self.objs.append(None)
                self.tensors.append(t)
                continue
            t = self._tensor(ir, it)
            by_name[it["name"]] = t
            if t is None:
                meta = it.get("meta", "full")
                v = ir.Value(
                    name=it["name"],
                    shape=ir.Shape([2]) if meta in ("full", "notype") else None,
                    type=ir.TensorType(ir.DataType.FLOAT) if meta in ("full", "noshape") else None,
                )
            else:
                v = ir.Value(name=it["name"], const_value=t, shape=ir.Shape(list(it["shape"])), type=ir.TensorType(t.dtype))
            levels[int(it.get("sub", 0))].append(v)
            flags[id(v)] = it
            self.objs.append(t)
            self.tensors.append(t)
        self.by_name = by_name
        for lv, vals in levels.items():
            if len({v.name for v in vals}) != len(vals):
                raise ValueError(f"duplicate initializer names inside graph level {lv}")
        order = sorted(spec.get("inits", []), key=lambda it: int(it.get("sub", 0)))
        if order != list(spec.get("inits", [])):
            raise ValueError("spec.inits must be ordered by graph level (main, then, nested, else)")

        def fvalue(nm, shape=(2,), dt=ir.DataType.FLOAT):
            return ir.Value(name=nm, shape=ir.Shape(list(shape)), type=ir.TensorType(dt))

        def mkgraph(nm, inits, extra_inputs, extra_nodes, src, **kw):
            """A graph whose initializers may also be inputs / consumed by a node / outputs (per-initializer flags)."""
            c = ir.node("Identity", [src], name=nm + "_id")
            c.outputs[0].name = nm + "_out"
            c.outputs[0].shape = ir.Shape([2])
            c.outputs[0].type = ir.TensorType(ir.DataType.FLOAT)
            nodes = [c] + list(extra_nodes)
            inputs = list(extra_inputs) + [v for v in inits if flags[id(v)].get("is_input")]
            outputs = [c.outputs[0]] + [v for v in inits if flags[id(v)].get("is_output")]
            for v in inits:
                if flags[id(v)].get("used"):
                    u = ir.node("Identity", [v], name="use_" + v.name)
                    u.outputs[0].name = v.name + "_used"
                    nodes.append(u)
            return ir.Graph(inputs=inputs, outputs=outputs, nodes=nodes, initializers=inits, name=nm, **kw)

        x = fvalue("x")
        extra_inputs = [x]
        extra_nodes = []
        if levels[1] or levels[2] or levels[3]:
            cond = fvalue("cond", (), ir.DataType.BOOL)
            extra_inputs.append(cond)
            then_nodes = []
            if levels[2]:
                nested = ir.node(
                    "If", [cond],
                    attributes={"then_branch": mkgraph("nest_g", levels[2], [], [], x), "else_branch": mkgraph("nest_e", [], [], [], x)},
                    name="ifnest",
                )
                nested.outputs[0].name = "zn"
                then_nodes.append(nested)
            ifn = ir.node(
                "If", [cond],
                attributes={"then_branch": mkgraph("then_g", levels[1], [], then_nodes, x),
                            "else_branch": mkgraph("else_g", levels[3], [], [], x)},
                name="ifn",
            )
            ifn.outputs[0].name = "z"
            extra_nodes.append(ifn)
        if levels[4]:
            trip = fvalue("trip", (), ir.DataType.INT64)
            lcond = fvalue("lcond", (), ir.DataType.BOOL)
            extra_inputs += [trip, lcond]
            body = mkgraph("loop_g", levels[4], [fvalue("it", (), ir.DataType.INT64), fvalue("cin", (), ir.DataType.BOOL)], [], x)
            loop = ir.node("Loop", [trip, lcond], attributes={"body": body}, name="loopn")
            loop.outputs[0].name = "zl"
            extra_nodes.append(loop)
        g = mkgraph("g", levels[0], extra_inputs, extra_nodes, x, opset_imports={"": 18})
        self.values = levels[0] + levels[1] + levels[2] + levels[3] + levels[4]
        self.model = ir.Model(g, ir_version=10)
        got = [v for gg in self.model.graphs() for v in gg.initializers.values()]
        if [id(v) for v in got] != [id(v) for v in self.values]:
            raise RuntimeError("model.graphs() order differs from the spec order")

    def _tensor(self, ir, it):
        k = it["kind"]
        if k == "U":
            return None
        dt = ir.DataType[it["dtype"]]
        shape = list(it["shape"])
        if k == "M":
            raw = gen_bytes(it["seed"], it["len"])
            if it["np"]:
                arr = np.frombuffer(raw, dtype=dt.numpy()).reshape(shape).copy()
                if it.get("lazy"):
                    return ir.LazyTensor(lambda arr=arr, nm=it["name"]: ir.Tensor(arr, name=nm), dtype=dt,
                                         shape=ir.Shape(shape), name=it["name"])
                return ir.Tensor(arr, name=("tn_" + it["name"]) if it.get("tname_differs") else it["name"])
            import onnx

            tp = onnx.TensorProto()
            tp.name = it["name"]
            tp.data_type = int(dt)
            tp.dims.extend(shape)
            tp.raw_data = raw
            return ir.serde.TensorProtoTensor(tp)
        if k == "E":
            target = os.path.join(self.root, it["file"])
            if it.get("via_link"):
                # the tensor names its file through a symbolic link (another spelling of the same file)
                link = target + ".lnk"
                if not os.path.islink(link):
                    os.makedirs(os.path.dirname(link), exist_ok=True)
                    os.symlink(target, link)
                target = link
            loc = os.path.relpath(target, self.base)
            t = ir.ExternalTensor(loc, it["off"], it["len"], dt, shape=ir.Shape(shape), name=it["name"], base_dir=self.base)
            if not it.get("valid", 1):
                t.invalidate()
            return t
        raise ValueError(k)

    def model_path(self):
        st = self.spec.get("style", "abs")
        p = os.path.join(self.root, self.model_rel)
        if st == "abs":
            return p
        if st == "symdir":
            # the destination directory spelled through a symbolic link to it (alias -> real directory)
            link = os.path.join(self.root, "_lnk")
            if not os.path.islink(link):
                os.symlink(self.base, link, target_is_directory=True)
            return os.path.join(link, self.spec["name"])
        if st == "pathlib":
            return pathlib.Path(p)
        return self.model_rel  # "rel": relative to cwd = root

    def cleanup(self):
        for t in self.objs:
            if t is not None and hasattr(t, "release"):
                try:
                    t.release()
                except Exception:
                    pass
        shutil.rmtree(self.root, ignore_errors=True)

    # ----------------------------------------------------------------- observations

    def obs_obj(self, t) -> str:
        from onnxscript import ir

        if isinstance(t, ir.ExternalTensor):
            if not t.valid():
                return "e:0"
            if t.nbytes > 0 and self._model_file_rewritten(t):
                # the file behind the tensor is the model file and no longer holds what it held (finding C20-D5): whatever
                # numpy() returns now (protobuf bytes, or an error when the file is shorter) is "not the tensor's data";
                # the Lean model says the same (`FS.read` of a `proto`/emptied file is `none`)
                return "e:1:ERR"
            try:
                b = t.numpy().tobytes()
                return "e:1:" + cks(b)
            except Exception:
                return "e:1:ERR"
            finally:
                try:
                    t.release()
                except Exception:
                    pass
        return "m:" + cks(t.tobytes())

    def _model_file_rewritten(self, t) -> bool:
        mp = os.path.join(self.root, self.model_rel)
        try:
            if os.path.realpath(t.path) != os.path.realpath(mp):
                return False
            with open(mp, "rb") as fh:
                return fh.read() != self.initial_files.get(self.model_rel)
        except OSError:
            return False

    def obs_heap(self) -> str:
        return ",".join(self.obs_obj(t) for t in self.objs if t is not None)

    def obs_ids(self):
        return [id(v.const_value) if v.const_value is not None else None for v in self.values]

    def obs_graph(self) -> str:
        """Structure of the in-memory model (everything but tensor payloads)."""
        out = []
        for g in self.model.graphs():
            out.append("G " + str(g.name) + " in=" + ",".join(str(v.name) for v in g.inputs) + " out=" + ",".join(str(v.name) for v in g.outputs))
            for n in g:
                out.append(f" N {n.op_type} {[i.name if i is not None else None for i in n.inputs]} {[o.name for o in n.outputs]} {sorted(n.attributes.keys())}")
            for name, v in g.initializers.items():
                t = v.const_value
                out.append(f" I {name} {type(t).__name__} {None if t is None else (t.dtype.name, list(t.shape.numpy()) if hasattr(t.shape,'numpy') else str(t.shape), t.name)}")
        return "\n".join(out)

    def obs_files(self) -> dict[str, bytes]:
        out = {}
        for dp, _dn, fn in os.walk(self.root):
            for f in fn:
                p = os.path.join(dp, f)
                if os.path.islink(p):  # other spellings of files listed under their real names
                    continue
                with open(p, "rb") as fh:
                    out[os.path.relpath(p, self.root)] = fh.read()
        return out

    def _proto_inits(self, proto):
        """(name, sub, payload-string) for every initializer of every graph of a ModelProto."""
        import onnx

        res = []

        def walk(g, sub):
            for t in g.initializer:
                if t.data_location == onnx.TensorProto.EXTERNAL:
                    kv = {e.key: e.value for e in t.external_data}
                    loc = os.path.relpath(os.path.realpath(os.path.join(self.base, kv.get("location", ""))), self.root)
                    res.append(f"{t.name}:{int(sub)}:x:{loc}:{int(kv.get('offset', 0))}:{int(kv.get('length', -1))}")
                else:
                    raw = t.raw_data if t.HasField("raw_data") else onnx.numpy_helper.to_array(t).tobytes()
                    res.append(f"{t.name}:{int(sub)}:i:{cks(raw)}")
            for n in g.node:
                for a in n.attribute:
                    if a.type == onnx.AttributeProto.GRAPH:
                        walk(a.g, True)
                    for gg in a.graphs:
                        walk(gg, True)

        walk(proto.graph, False)
        return sorted(res)

    def obs_fs(self) -> tuple[str, bool]:
        """Canonical file listing; the model file is shown structurally when it holds a freshly written proto."""
        import onnx

        files = self.obs_files()
        items = []
        is_proto = False
        for rel in sorted(files):
            b = files[rel]
            if rel == self.model_rel and len(b) > 0 and b != self.initial_files.get(rel):
                try:
                    proto = onnx.ModelProto()
                    proto.ParseFromString(b)
                    items.append(f"{rel}=p:" + "+".join(self._proto_inits(proto)))
                    is_proto = True
                    continue
                except Exception:
                    pass
            items.append(f"{rel}=d:{cks(b)}")
        return ",".join(sorted(items)), is_proto

    def obs_load(self, is_proto: bool):
        """ir.load of what is on disk: sorted `name:sub:len:cks`, or 'none'.  Also the loaded graph structure."""
        from onnxscript import ir

        self.load_pg = []  # per graph: "<graph name>/<initializer name>:<len>:<cks>"
        if not is_proto:
            return "none", None
        try:
            m2 = ir.load(os.path.join(self.root, self.model_rel))
            out = []
            main = m2.graph
            for g in m2.graphs():
                for name, v in g.initializers.items():
                    t = v.const_value
                    b = t.numpy().tobytes() if isinstance(t, ir.ExternalTensor) else t.tobytes()
                    if hasattr(t, "release"):
                        t.release()
                    out.append(f"{name}:{0 if g is main else 1}:{cks(b)}")
                    self.load_pg.append(f"{g.name}/{name}:{cks(b)}")
            struct = []
            for g in m2.graphs():
                struct.append("G " + str(g.name) + " in=" + ",".join(str(v.name) for v in g.inputs) + " out=" + ",".join(str(v.name) for v in g.outputs))
                for n in g:
                    struct.append(f" N {n.op_type} {[i.name if i is not None else None for i in n.inputs]} {[o.name for o in n.outputs]} {sorted(n.attributes.keys())}")
                for name, v in g.initializers.items():
                    t = v.const_value
                    struct.append(f" I {name} {(t.dtype.name, list(t.shape.numpy()))}")
            return ",".join(sorted(out)), "\n".join(struct)
        except Exception as e:  # unreadable result
            return "none", f"load failed: {type(e).__name__}: {e}"

    def struct_expected(self) -> str:
        """What `obs_load`'s structure should be for the in-memory model (initialized initializers only are required)."""
        struct = []
        for g in self.model.graphs():
            struct.append("G " + str(g.name) + " in=" + ",".join(str(v.name) for v in g.inputs) + " out=" + ",".join(str(v.name) for v in g.outputs))
            for n in g:
                struct.append(f" N {n.op_type} {[i.name if i is not None else None for i in n.inputs]} {[o.name for o in n.outputs]} {sorted(n.attributes.keys())}")
            for name, v in g.initializers.items():
                t = v.const_value
                if t is None:
                    struct.append(f" I {name} UNINITIALIZED")
                else:
                    struct.append(f" I {name} {(t.dtype.name, list(t.shape.numpy()))}")
        return "\n".join(struct)


# --------------------------------------------------------------------------- one real run


def err_class(e: BaseException | None) -> str:
    if e is None:
        return "ok"
    if isinstance(e, OSError):
        return "OSError"
    for c in (ValueError, TypeError):
        if isinstance(e, c):
            return c.__name__
    return type(e).__name__


def payload(obs: str) -> str | None:
    """`len:cks` of an object observation, None when the object is invalid / unreadable."""
    if obs.startswith("m:"):
        return obs[2:]
    if obs.startswith("e:1:") and not obs.endswith("ERR"):
        return obs[4:]
    return None


def run_real(spec: dict, k: int | None) -> dict:
    """Execute the real save on a fresh world under fault plan k; return canonical observations."""
    from onnxscript._framework_apis import torch_2_5 as api

    w = World(spec)
    cwd = os.getcwd()
    try:
        before = {
            "ids": w.obs_ids(),
            "heap": w.obs_heap(),
            "graph": w.obs_graph(),
            "files": w.obs_files(),
            "bytes": [],
        }
        before["bytes"] = [
            (it["name"], LEVEL_GRAPH[int(it.get("sub", 0))], int(bool(it.get("sub"))), payload(w.obs_obj(t)))
            for it, t in zip(spec.get("inits", []), w.tensors) if t is not None
        ]
        struct_expected = w.struct_expected()
        fs = FaultFS(w.root, k, w.model_rel, partial=bool(spec.get("partial")))
        partial_fired = 0
        log = {"total": None, "updates": 0, "desc": []}
        exc = None
        mode = int(spec.get("verbose", 0))
        if spec.get("style") == "rel":
            os.chdir(w.root)
        path = w.model_path()
        devnull = io.StringIO()
        real_stderr = sys.stderr
        prior_res = []
        try:
            sys.stderr = devnull
            # history: earlier calls on the SAME model object and destination, each under its own fault plan; what they
            # leave behind (files, caches inside the tensor objects, names) is what the observed call starts from
            for pk in spec.get("prior") or []:
                pfs = FaultFS(w.root, pk, w.model_rel, partial=bool(spec.get("partial")))
                pexc = None
                with tqdm_mode(mode, {"total": None, "updates": 0, "desc": []}), fault_scope(pfs):
                    try:
                        api.save_model_with_external_data(w.model, path, verbose=bool(mode))
                    except BaseException as e:  # noqa: BLE001
                        pexc = e
                prior_res.append(err_class(pexc))
                partial_fired += int(pfs.partial_fired)
            with tqdm_mode(mode, log), fault_scope(fs):
                try:
                    api.save_model_with_external_data(w.model, path, verbose=bool(mode))
                except BaseException as e:  # noqa: BLE001 - classify everything
                    exc = e
        finally:
            sys.stderr = real_stderr
            os.chdir(cwd)
        fs_str, is_proto = w.obs_fs()
        load_str, load_struct = w.obs_load(is_proto)
        descs = []
        for d in log["desc"]:
            m = re.match(r"Saving (\S+) \(.*\) at offset (\d+)$", d)
            descs.append(f"{m.group(1)}@{m.group(2)}" if m else "?" + d)
        cb = (str(log["total"]) if log["total"] is not None else "-") + ";" + ",".join(descs)
        after = {"ids": w.obs_ids(), "heap": w.obs_heap(), "graph": w.obs_graph(), "files": w.obs_files()}
        line = " | ".join(([("prior=" + ",".join(prior_res))] if prior_res else []) + [
            f"res={err_class(exc)}",
            f"calls={fs.n}",
            "trace=" + ",".join(fs.trace),
            f"cb={cb}",
            "cv=" + ("same" if after["ids"] == before["ids"] else "diff"),
            "heap=" + after["heap"],
            "fs=" + fs_str,
            "load=" + load_str,
            "tn=" + ",".join(str(t.name) for t in w.objs if t is not None),
        ])
        return {
            "line": line,
            "res": err_class(exc),
            "prior_res": prior_res,
            "partial_fired": partial_fired + int(fs.partial_fired),
            "exc": None if exc is None else f"{type(exc).__name__}: {str(exc)[:200]}",
            "calls": fs.n,
            "fired": fs.fired,
            "before": before,
            "after": after,
            "load": load_str,
            "load_pg": sorted(w.load_pg),
            "load_struct": load_struct,
            "struct_expected": struct_expected,
            "updates": log["updates"],
            "ndesc": len(log["desc"]),
        }
    finally:
        os.chdir(cwd)
        w.cleanup()


# --------------------------------------------------------------------------- model line


def model_line(spec: dict, k: int | None, deep: int) -> str:
    files = ";".join(f"{rel}:{seed}:{n}" for rel, seed, n in spec.get("files", [])) or "-"
    parts = []
    for it in spec.get("inits", []):
        head = f"{it['name']}:{int(bool(it.get('sub')))}"
        if it["kind"] == "U":
            parts.append(head + ":U")
        elif it["kind"] == "A":
            j = [x["name"] for x in spec["inits"]].index(it["of"])
            parts.append(head + f":A:{j}")
        elif it["kind"] == "M":
            parts.append(head + f":M:{it['seed']}:{it['len']}:{int(it['np'])}"
                         + (f":tn_{it['name']}" if it.get("tname_differs") and it["np"] and not it.get("lazy") else ""))
        else:
            parts.append(head + f":E:{it['file']}:{it['off']}:{it['len']}:{int(it.get('valid', 1))}")
    mode = int(spec.get("verbose", 0))  # 0 quiet, 1 verbose with tqdm, 2 verbose without tqdm
    verbose = 1 if mode else 0
    tqdm = 0 if mode == 2 else 1
    prior = spec.get("prior") or []
    return " ".join([
        "hist" if prior else "save", f"{deep}{tqdm}", str(verbose), "-" if k is None else str(k), spec.get("dir") or "-",
        spec["name"], files, ";".join(parts) or "-",
    ] + ([",".join("n" if pk is None else str(pk) for pk in prior)] if prior else []))


# --------------------------------------------------------------------------- outside the model: function bodies


def function_body_probe() -> dict:
    """A model whose only uninitialized initializer lives in an If branch *inside a model-local function*
    (`model.functions`): `model.graphs()` does not visit function bodies.  Returns what the real save did."""
    from onnxscript import ir
    from onnxscript._framework_apis import torch_2_5 as api

    def fv(n, shape=(2,), dt=ir.DataType.FLOAT):
        return ir.Value(name=n, shape=ir.Shape(list(shape)), type=ir.TensorType(dt))

    root = tempfile.mkdtemp(prefix="c20f_")
    try:
        fx, cond = fv("fx"), fv("c", (), ir.DataType.BOOL)
        u = fv("fu")
        t = ir.tensor(np.arange(100, dtype=np.float32), name="fb")
        b = ir.Value(name="fb", const_value=t, shape=t.shape, type=ir.TensorType(t.dtype))
        n1 = ir.node("Identity", [fx], name="i1")
        n2 = ir.node("Identity", [fx], name="i2")
        br = ir.Graph(inputs=[], outputs=n1.outputs, nodes=[n1], initializers=[u, b], name="br")
        br2 = ir.Graph(inputs=[], outputs=n2.outputs, nodes=[n2], initializers=[], name="br2")
        ifn = ir.node("If", [cond], attributes={"then_branch": br, "else_branch": br2}, name="if")
        fg = ir.Graph(inputs=[fx, cond], outputs=ifn.outputs, nodes=[ifn], name="f", opset_imports={"": 18})
        f = ir.Function("dom", "f", graph=fg, attributes=[])
        x, c2 = fv("x"), fv("c2", (), ir.DataType.BOOL)
        call = ir.node("f", [x, c2], domain="dom", name="call")
        g = ir.Graph(inputs=[x, c2], outputs=call.outputs, nodes=[call], name="g", opset_imports={"": 18, "dom": 1})
        m = ir.Model(g, ir_version=10, functions=[f])
        exc = None
        try:
            api.save_model_with_external_data(m, os.path.join(root, "m.onnx"))
        except BaseException as e:  # noqa: BLE001
            exc = e
        return {"res": err_class(exc), "files": sorted(os.listdir(root)), "still_uninit": u.const_value is None,
                "big_same": b.const_value is t}
    finally:
        shutil.rmtree(root, ignore_errors=True)

