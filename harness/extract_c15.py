"""C15 translator: regenerate lean/OV/Gen/C15Plumbing.lean from the wrappers' source in core.REPO.

For every dual-entry wrapper and each entry form the Python body is *symbolically executed* (abstract values:
ARG = the caller's object, IR = an ir.Model, NEW = a freshly serialised proto, RESULT = what the IR-level
implementation returned, constants) resolving `isinstance(model, …)`, flag variables and aliases, and the
sequence of plumbing statements (OV.C15.Stmt) is emitted.  Calls to the IR-level implementation additionally
yield the **option routing table**: (api, entry, callee parameter, caller expression).  Anything not
recognised becomes `Stmt.unknown` / an `?`-source, so that the Lean theorems over the generated tables stop
checking instead of silently passing.
"""
from __future__ import annotations

import ast
import hashlib
import sys
from pathlib import Path

from harness import core

ARG, IR, NEW, NEWGRAPH, RESULT, NONE, TRUE, FALSE, UNK = "ARG", "IR", "NEW", "NEWGRAPH", "RESULT", "NONE", "TRUE", "FALSE", "UNK"

# wrapper -> (file, function, name of the model parameter, callee predicate)
WRAPPERS = {
    "optimize": ("onnxscript/optimizer/__init__.py", "optimize"),
    "fold_constants": ("onnxscript/optimizer/__init__.py", "fold_constants"),
    "remove_unused_nodes": ("onnxscript/optimizer/__init__.py", "remove_unused_nodes"),
    "remove_unused_functions": ("onnxscript/optimizer/__init__.py", "remove_unused_functions"),
    "rewrite": ("onnxscript/rewriter/__init__.py", "rewrite"),
    "convert_version": ("onnxscript/version_converter/__init__.py", "convert_version"),
    "replace_functions": ("onnxscript/utils/replace.py", "replace_functions"),
    "inline": ("onnxscript/optimizer/__init__.py", "inline"),
}
DESER = {"ir.serde.deserialize_model", "ir.from_proto"}
SER = {"ir.serde.serialize_model", "ir.to_proto"}
# IR-level implementations (the `call` statement); a `XPass()(m)` expression is matched structurally
CALLEES = {"optimize_ir", "constant_folding.fold_constants", "replace_functions_inplace", "rewrite_pass"}


def _find(tree, name):
    for n in tree.body:
        if isinstance(n, (ast.FunctionDef, ast.ClassDef)) and n.name == name:
            return n
    return None


class Exec:
    def __init__(self, api: str, entry: str, tree: ast.Module, fn: ast.FunctionDef):
        self.api, self.entry, self.tree, self.fn = api, entry, tree, fn
        self.stmts: list[str] = []
        self.routes: list[tuple[str, str, str]] = []  # (callee, param, src)
        self.callees: list[str] = []
        self.env: dict[str, str] = {}
        self.exprs: dict[str, ast.AST] = {}  # local name -> defining expression (for routing sources)
        self.returned = False
        params = [a.arg for a in fn.args.posonlyargs + fn.args.args]
        self.model_param = params[0]
        self.public = params[1:] + [a.arg for a in fn.args.kwonlyargs]
        if fn.args.vararg:
            self.public.append("args")
        if fn.args.kwarg:
            self.public.append("kwargs")
        self.env[self.model_param] = ARG
        for pname in self.public:
            self.env[pname] = "OPT:" + pname
        self.pending_pass = None  # rewrite: the PassManager expression bound to rewrite_pass

    # ---- abstract evaluation
    def val(self, e: ast.AST) -> str:
        if isinstance(e, ast.Name):
            return self.env.get(e.id, UNK)
        if isinstance(e, ast.Constant):
            return {None: NONE, True: TRUE, False: FALSE}.get(e.value, UNK) if isinstance(e.value, (bool, type(None))) else UNK
        if isinstance(e, ast.Attribute) and e.attr == "model":  # PassResult.model is the in-place model
            v = self.val(e.value)
            return IR if v in (RESULT, IR) else ARG if v == "RESULT_ARG" else UNK
        if isinstance(e, ast.Attribute) and e.attr == "graph":
            v = self.val(e.value)
            return v + ".graph" if v in (ARG, IR) else UNK
        return UNK

    def is_ir_obj(self, v: str) -> bool:
        return v == IR or (v == ARG and self.entry == "ir")

    def test(self, t: ast.AST):
        """True / False / None (unknown) / a guard tag."""
        if isinstance(t, ast.Call) and isinstance(t.func, ast.Name) and t.func.id == "isinstance" and len(t.args) == 2:
            if self.val(t.args[0]) == ARG:
                cls = ast.unparse(t.args[1])
                if cls == "ir.Model":
                    return self.entry == "ir"
                if cls == "onnx.ModelProto":
                    return self.entry == "proto"
            return None
        if isinstance(t, ast.Name):
            v = self.val(t)
            return True if v == TRUE else False if v == FALSE else None
        if isinstance(t, ast.Compare) and len(t.ops) == 1 and isinstance(t.comparators[0], ast.Constant) and t.comparators[0].value is None:
            v = self.val(t.left)
            if isinstance(t.ops[0], ast.IsNot):
                return None if v == UNK or v.startswith("OPT:") else v != NONE
            if isinstance(t.ops[0], ast.Is):
                return None if v == UNK or v.startswith("OPT:") else v == NONE
        return None

    # ---- calls
    def callee_of(self, c: ast.Call):
        """Name of the IR-level implementation if `c` invokes one on the model in hand, else None."""
        f = c.func
        name = ast.unparse(f)
        if name in CALLEES and c.args and self.is_ir_obj(self.val(c.args[0])):
            return name
        # Pass construction immediately applied: common_passes.XPass(...)(m) / ConvertVersionPass(...)(m)
        if isinstance(f, ast.Call) and len(c.args) == 1 and self.is_ir_obj(self.val(c.args[0])) and ast.unparse(f.func).endswith("Pass"):
            return ast.unparse(f.func)
        return None

    def record_routes(self, callee: str, c: ast.Call):
        inner = c.func if isinstance(c.func, ast.Call) else c  # Pass(...)(m): options sit in the constructor
        pos = inner.args if inner is not c else c.args[1:]
        pnames = self.callee_params(callee)
        for i, a in enumerate(pos):
            if isinstance(a, ast.Starred):
                self.routes.append((callee, "args", self.src(a.value)))
            else:
                self.routes.append((callee, pnames[i] if i < len(pnames) else f"#{i}", self.src(a)))
        for kw in inner.keywords:
            self.routes.append((callee, kw.arg if kw.arg else "kwargs", self.src(kw.value)))
        if callee == "rewrite_pass" and self.pending_pass is not None:
            # options of the passes inside the PassManager bound to rewrite_pass
            for sub in ast.walk(self.pending_pass):
                if isinstance(sub, ast.Call) and ast.unparse(sub.func) == "RewritePass":
                    pn = self.callee_params("RewritePass")
                    for i, a in enumerate(sub.args):
                        self.routes.append(("RewritePass", pn[i] if i < len(pn) else f"#{i}", self.src(a)))

    def callee_params(self, callee: str) -> list[str]:
        node = _find(self.tree, callee.split(".")[-1])
        if isinstance(node, ast.ClassDef):
            init = next((n for n in node.body if isinstance(n, ast.FunctionDef) and n.name == "__init__"), None)
            if init is None:
                return []
            return [a.arg for a in init.args.posonlyargs + init.args.args][1:]
        if isinstance(node, ast.FunctionDef):
            return [a.arg for a in node.args.posonlyargs + node.args.args][1:]
        return []

    def src(self, e: ast.AST) -> str:
        """Which caller option an argument expression carries ('?…' when it is not a plain pass-through)."""
        if isinstance(e, ast.Name):
            v = self.env.get(e.id, UNK)
            if v.startswith("OPT:"):
                return v[4:]
            if e.id in self.exprs:
                return self.src(self.exprs[e.id])
            return "?" + e.id
        # [ir.from_proto(func) for func in functions]: the option, deserialised element-wise
        if isinstance(e, ast.ListComp) and len(e.generators) == 1 and isinstance(e.generators[0].iter, ast.Name):
            g = e.generators[0]
            if (isinstance(e.elt, ast.Call) and ast.unparse(e.elt.func) in DESER and len(e.elt.args) == 1
                    and ast.unparse(e.elt.args[0]) == ast.unparse(g.target) and not g.ifs):
                return self.src(g.iter)
        return "?" + ast.unparse(e)[:60]

    # ---- statements
    def emit(self, s: str):
        if not self.returned:
            self.stmts.append(s)

    def run_block(self, body):
        for st in body:
            if self.returned:
                return
            self.run_stmt(st)

    def do_call(self, c: ast.Call, target: str | None):
        """Handle a Call expression; returns the abstract value of its result."""
        name = ast.unparse(c.func)
        if name in DESER and len(c.args) == 1:
            if self.val(c.args[0]) == ARG and self.entry == "proto":
                self.emit("deser")
                return IR
            return UNK  # e.g. ir.from_proto(func) on other things
        if name in SER and len(c.args) == 1:
            v = self.val(c.args[0])
            if v == IR:
                self.emit("ser")
                return NEW
            if v == IR + ".graph":
                self.emit("serGraph")
                return NEWGRAPH
            return UNK
        callee = self.callee_of(c)
        if callee is not None:
            if callee == "replace_functions_inplace":
                # defined in the same module: its guard runs before anything is touched
                inner = _find(self.tree, "replace_functions_inplace")
                if inner is not None and _has_function_guard(inner):
                    self.emit("guardNoFunctions")
            self.emit("call")
            self.callees.append(callee)
            self.record_routes(callee, c)
            return RESULT
        if isinstance(c.func, ast.Attribute):
            obj, meth = self.val(c.func.value), c.func.attr
            if meth == "Clear" and not c.args:
                if obj == ARG and self.entry == "proto":
                    self.emit("clearArg")
                    return NONE
                if obj == ARG + ".graph":
                    self.emit("graphClear")
                    return NONE
            if meth == "CopyFrom" and len(c.args) == 1:
                inner = c.args[0]
                v = self.do_call(inner, None) if isinstance(inner, ast.Call) else self.val(inner)
                if obj == ARG and v == NEW:
                    self.emit("copyFromNew")
                    return NONE
                if obj == ARG + ".graph" and v == NEWGRAPH:
                    self.emit("graphCopyFromNew")
                    return NONE
            if meth in ("Clear", "CopyFrom", "MergeFrom", "ClearField", "extend", "append", "add") and (obj.startswith(ARG) and self.entry == "proto"):
                self.emit("unknown")
                return UNK
        return UNK

    def run_stmt(self, st: ast.stmt):
        if isinstance(st, (ast.Assert, ast.Pass)) or (isinstance(st, ast.Expr) and isinstance(st.value, ast.Constant)):
            return
        if isinstance(st, ast.Return):
            if st.value is None:
                self.emit("retNone")
            else:
                v = self.do_call(st.value, None) if isinstance(st.value, ast.Call) else self.val(st.value)
                if v == ARG or (v == IR and self.entry == "ir"):
                    self.emit("retArg")
                elif v == NEW:
                    self.emit("retNew")
                elif v == RESULT:
                    self.emit("retAux")
                elif v == NONE:
                    self.emit("retNone")
                else:
                    self.emit("unknown")
            self.returned = True
            return
        if isinstance(st, ast.Assign) and len(st.targets) == 1 and isinstance(st.targets[0], ast.Name):
            tgt = st.targets[0].id
            e = st.value
            if isinstance(e, ast.Call):
                name = ast.unparse(e.func)
                if name.endswith("PassManager") or name.endswith("Sequential"):
                    self.pending_pass = e
                    self.env[tgt] = "PASS"
                    return
                v = self.do_call(e, tgt)
                if v == RESULT and self.entry == "ir":
                    v = "RESULT_ARG" if False else RESULT
                self.env[tgt] = v
                if v == UNK:
                    self.exprs[tgt] = e
                return
            if isinstance(e, ast.Attribute) and e.attr == "model" and isinstance(e.value, ast.Call):
                # x = <callee>(m).model : in-place passes hand the same model back
                v = self.do_call(e.value, tgt)
                if v == RESULT:
                    # the first argument of the callee is the model in hand
                    inner = e.value
                    a0 = inner.args[0]
                    self.env[tgt] = self.val(a0)
                else:
                    self.env[tgt] = UNK
                return
            v = self.val(e)
            if v.startswith("OPT:") or v != UNK:
                self.env[tgt] = v
            else:
                self.env[tgt] = UNK
                self.exprs[tgt] = e
            return
        if isinstance(st, ast.Expr) and isinstance(st.value, ast.Call):
            self.do_call(st.value, None)
            return
        if isinstance(st, ast.Delete) and len(st.targets) == 1:
            t = ast.unparse(st.targets[0])
            for name, v in self.env.items():
                if v == ARG and self.entry == "proto":
                    if t == f"{name}.functions[:]":
                        self.emit("delFunctions")
                        return
                    if t == f"{name}.opset_import[:]":
                        self.emit("delOpsets")
                        return
            self.emit("unknown")
            return
        if isinstance(st, ast.For):
            # for domain, version in <ir>.opset_imports.items(): <arg>.opset_import.add(domain=domain, version=version)
            it = ast.unparse(st.iter)
            ok = False
            for name, v in self.env.items():
                if self.is_ir_obj(v) and it == f"{name}.opset_imports.items()" and len(st.body) == 1:
                    b = ast.unparse(st.body[0])
                    for an, av in self.env.items():
                        if av == ARG and b == f"{an}.opset_import.add(domain=domain, version=version)":
                            ok = True
            self.emit("addOpsetsFromIr" if ok else "unknown")
            return
        if isinstance(st, ast.With):
            # with _preserve_tensor_names(<arg>): …   (names of the caller's tensors recorded, restored on exit)
            it = st.items
            if (len(it) == 1 and isinstance(it[0].context_expr, ast.Call) and ast.unparse(it[0].context_expr.func) == "_preserve_tensor_names"
                    and len(it[0].context_expr.args) == 1 and self.val(it[0].context_expr.args[0]) == ARG and self.entry == "proto"
                    and it[0].optional_vars is None):
                self.emit("saveNames")
                self.run_block(st.body)
                if self.returned:
                    self.stmts.append("unknown")  # a return inside the block: restore order not modelled
                else:
                    self.emit("restoreNames")
            else:
                self.emit("unknown")
            return
        if isinstance(st, ast.If):
            # rewrite's preamble: if rules is None: rules = DEFAULT  elif not rules: return model
            if (self.api == "rewrite" and isinstance(st.test, ast.Compare) and self.val(st.test.left).startswith("OPT:")
                    and len(st.orelse) == 1 and isinstance(st.orelse[0], ast.If)):
                inner = st.orelse[0]
                opt = self.val(st.test.left)
                if (isinstance(inner.test, ast.UnaryOp) and isinstance(inner.test.op, ast.Not) and self.val(inner.test.operand) == opt
                        and len(inner.body) == 1 and isinstance(inner.body[0], ast.Return) and self.val(inner.body[0].value) == ARG
                        and not inner.orelse and len(st.body) == 1 and isinstance(st.body[0], ast.Assign)):
                    self.emit("guardEmptyRules")
                    return  # the option keeps its identity (default substitution is part of the callee's semantics)
            # inline: if model.functions: <call>
            if isinstance(st.test, ast.Attribute) and st.test.attr == "functions" and self.is_ir_obj(self.val(st.test.value)) and not st.orelse:
                if len(st.body) == 1 and isinstance(st.body[0], ast.Expr) and isinstance(st.body[0].value, ast.Call) and self.callee_of(st.body[0].value):
                    self.emit("callIfHasFunctions")
                    self.callees.append(self.callee_of(st.body[0].value))
                    return
            # if result.modified: <plumbing>     (result = what the IR-level implementation returned)
            if (isinstance(st.test, ast.Attribute) and st.test.attr == "modified" and self.val(st.test.value) == RESULT
                    and not st.orelse):
                at = len(self.stmts)
                self.run_block(st.body)
                if self.returned:
                    self.stmts.append("unknown")
                else:
                    self.stmts.insert(at, f"skipUnlessModified {len(self.stmts) - at}")
                return
            r = self.test(st.test)
            if r is True:
                self.run_block(st.body)
            elif r is False:
                self.run_block(st.orelse)
            else:
                self.emit("unknown")
            return
        self.emit("unknown")


def _has_function_guard(fn: ast.FunctionDef) -> bool:
    """`if len(<model>.functions) != 0: raise …` as the first effective statement."""
    alias = {}
    for st in fn.body:
        if isinstance(st, ast.Expr) and isinstance(st.value, ast.Constant):
            continue
        if isinstance(st, ast.Assign) and len(st.targets) == 1 and isinstance(st.targets[0], ast.Name):
            alias[st.targets[0].id] = ast.unparse(st.value)
            continue
        if isinstance(st, ast.If) and len(st.body) == 1 and isinstance(st.body[0], ast.Raise) and not st.orelse:
            t = ast.unparse(st.test)
            for k, v in alias.items():
                t = t.replace(k, v)
            first = fn.args.args[0].arg
            return t == f"len({first}.functions) != 0"
        return False
    return False


def _pass_names(node: ast.AST) -> list[str]:
    """Names of the pass classes constructed inside `node`, in source order."""
    found = []

    class V(ast.NodeVisitor):
        def visit_Call(self, c):
            name = ast.unparse(c.func).split(".")[-1]
            if name.endswith("Pass"):
                found.append((c.lineno, c.col_offset, name))
            self.generic_visit(c)

    V().visit(node)
    return [n for _, _, n in sorted(found)]


def pass_lists(trees: dict) -> dict:
    """Pass pipelines of the IR-level implementations, as written in the source."""
    out = {}
    rw = _find(trees["onnxscript/rewriter/__init__.py"], "rewrite")
    out["rewrite"] = []
    if rw is not None:
        for st in ast.walk(rw):
            if isinstance(st, ast.Assign) and isinstance(st.value, ast.Call) and ast.unparse(st.value.func).endswith("PassManager"):
                out["rewrite"] = _pass_names(st.value)
    rp = _find(trees["onnxscript/utils/replace.py"], "replace_functions_inplace")
    out["replace_functions"] = []
    if rp is not None:
        for st in rp.body:
            if isinstance(st, ast.For):
                out["replace_functions"].append("AddFunctions")  # model_functions[func.identifier()] = func
            elif isinstance(st, ast.Expr) and isinstance(st.value, ast.Call):
                out["replace_functions"] += _pass_names(st.value)
    rel = "onnxscript/optimizer/_optimizer.py"
    try:
        tree = ast.parse((core.REPO / rel).read_text())
        fn = _find(tree, "optimize_ir")
        out["optimize_ir"] = _pass_names(fn) if fn is not None else []
    except OSError:
        out["optimize_ir"] = []
    return out


def extract() -> dict:
    out = {"progs": {}, "routes": [], "public": {}, "callees": {}}
    trees = {}
    for api, (rel, fname) in WRAPPERS.items():
        if rel not in trees:
            trees[rel] = ast.parse((core.REPO / rel).read_text())
        tree = trees[rel]
        fn = _find(tree, fname)
        if fn is None:
            for e in ("proto", "ir"):
                out["progs"][(api, e)] = ["unknown"]
            continue
        entries = ("ir",) if api == "inline" else ("proto", "ir")
        for e in entries:
            if api == "replace_functions" and e == "ir":
                # the IR entry *is* replace_functions_inplace
                inner = _find(tree, "replace_functions_inplace")
                stm = (["guardNoFunctions"] if inner is not None and _has_function_guard(inner) else []) + ["call"]
                out["progs"][(api, e)] = stm if inner is not None else ["unknown"]
                out["callees"][(api, e)] = ["replace_functions_inplace"]
                continue
            ex = Exec(api, e, tree, fn)
            ex.run_block(fn.body)
            out["progs"][(api, e)] = ex.stmts
            out["callees"][(api, e)] = ex.callees
            out["public"][api] = ex.public
            for callee, param, src in ex.routes:
                out["routes"].append((api, e, callee, param, src))
    out["passes"] = pass_lists(trees)
    return out


def lean_text(x: dict) -> str:
    def q(s):
        return '"' + s.replace("\\", "\\\\").replace('"', '\\"') + '"'

    L = ["import OV.Model.C15Wrappers",
         "/-! GENERATED by harness/extract_c15.py from the wrappers' source — do not edit. -/",
         "namespace OV.Gen.C15", "open OV.C15", ""]
    L.append("/-- Plumbing program of each wrapper and entry form, symbolically executed from the Python source. -/")
    L.append("def prog : String → String → List Stmt")
    for (api, e), st in sorted(x["progs"].items()):
        L.append(f"  | {q(api)}, {q(e)} => [{', '.join('.' + s for s in st)}]")
    L.append("  | _, _ => [.unknown]")
    L.append("")
    L.append("/-- One row of the routing table. -/") if False else None
    L.append("/-- Option routing at every call of an IR-level implementation: (api, entry, callee, callee parameter, caller option). -/")
    L.append("structure Route where\n  api : String\n  entry : String\n  callee : String\n  param : String\n  src : String\n  deriving DecidableEq, Repr")
    L.append("")
    L.append("def routes : List Route := [")
    L.append(",\n".join(f"  ⟨{q(a)}, {q(e)}, {q(c)}, {q(p)}, {q(s)}⟩" for a, e, c, p, s in x["routes"]))
    L.append("]")
    L.append("")
    L.append("/-- Public options in each wrapper's signature (everything but the model). -/")
    L.append("def publicOptions : List (String × List String) := [")
    L.append(",\n".join(f"  ({q(a)}, [{', '.join(q(o) for o in opts)}])" for a, opts in sorted(x["public"].items())))
    L.append("]")
    L.append("")
    L.append("/-- IR-level implementations invoked by each entry form, in order. -/")
    L.append("def callees : List (String × String × List String) := [")
    L.append(",\n".join(f"  ({q(a)}, {q(e)}, [{', '.join(q(c) for c in cs)}])" for (a, e), cs in sorted(x["callees"].items())))
    L.append("]")
    L.append("")
    L.append("/-- Pass pipelines of the IR-level implementations, as constructed in the source (in order). -/")
    L.append("def passLists : List (String × List String) := [")
    L.append(",\n".join(f"  ({q(a)}, [{', '.join(q(c) for c in ps)}])" for a, ps in sorted(x["passes"].items())))
    L.append("]")
    L.append("")
    L.append("def passesOf (a : String) : List String := ((passLists.find? fun r => r.1 == a).map (·.2)).getD [\"?\"]")
    L.append("")
    L.append("end OV.Gen.C15")
    return "\n".join(L) + "\n"


def regenerate() -> dict:
    x = extract()
    text = lean_text(x)
    p = core.LEAN / "OV" / "Gen" / "C15Plumbing.lean"
    p.parent.mkdir(exist_ok=True)
    if not p.exists() or p.read_text() != text:
        with core.lake_lock():
            p.write_text(text)
    x["sha"] = hashlib.sha1(text.encode()).hexdigest()[:12]
    return x


if __name__ == "__main__":
    x = extract()
    sys.stdout.write(lean_text(x))
