"""C17 — generated opset classes mirror the ONNX operator schemas exactly.

Proof obligations: lean/OV/Props/C17.lean (model lean/OV/Model/C17OpsetGen.lean, lemmas
lean/OV/Lemmas/C17.lean) over tables lean/OV/Gen/C17*.lean that `extract_opsets.py` regenerates on
every run from /repo's generated sources (parsed with `ast`) and the installed onnx.defs.

Tie (every run):
  T1 translator: regenerate the tables, rebuild, `decide +kernel` re-evaluates every (domain, op, class) cell;
  T2 the Python twin of `lookup/resolve/mirrors/cellOk` == the compiled Lean driver on every cell
     (so that a failing cell can be located in Python);
  T3 real code vs model, behaviourally, on every cell: the imported class's MRO and `inspect.signature`,
     the method *executed* under a recording evaluator (which schema it binds, what it forwards) vs the
     model's `eagerNode`; `Opset.__getitem__/__contains__/__getattr__` and `onnx.defs.get_schema` vs `lookup`;
  T4 `Opset._prepare_inputs` vs `prepareInputs` on random lists;
  T5 eager calls with defaults omitted vs explicitly built bare nodes on onnxruntime (numeric);
  T6 in-process regeneration with /repo/opgen; T7 `separate_input_attributes_from_arguments` vs `separate`;
  T8 translation vs eager; T9 lookup histories vs `run`; T10/T11 exported imports vs `convert/exportImports`;
  T12 the whole eager chain (generated method -> Op.__call__ -> BaseEvaluator.eval_op -> the real
     `_prepare_model_and_inputs_for_eager`) captured as a ModelProto on every resolving cell (own methods x 10 argument
     patterns, inherited methods x 2) vs the model's `eagerRun` (driver `emodel`), with its own oracle on the real model.
Oracle of the property, on the real objects only (no model involved): `oracle_cell`.
"""
from __future__ import annotations

import inspect
import re
import json
import math
from collections import Counter
from typing import Any

import numpy as np

from harness import core
from harness import extract_opsets as X
from harness.extract_opsets import dec, enc

PROP_MODULES = ["OV.Props.C17"]
FINDING_DEPRECATED = "C17-F1"

# --------------------------------------------------------------------------- Python twin of the Lean model


def t_lookup(data, d, N, n):
    best = None
    for s in data["schemas"]:
        if s["domain"] == d and s["name"] == n and s["since"] <= N:
            if best is None or best["since"] < s["since"]:
                best = s
    return best


def t_resolve(data, d, N, n):
    best = None
    for c in data["classes"]:
        if c["domain"] != d or c["version"] > N:
            continue
        m = next((m for m in c["methods"] if m["name"] == n), None)
        if m is not None and (best is None or best[0] < c["version"]):
            best = (c["version"], m, c)
    return best


def t_param_name(s, n):
    return n + "_" if any(a["name"] == n for a in s["attrs"]) else n


def t_mirrors(m, s) -> list[str]:
    """Reasons why `mirrors m s` is false (empty list = true)."""
    why = []
    if not m["shape_ok"]:
        why.append("body is not `schema = get_schema(...); op = Op(self, name, schema); return op(...)`")
    if m["name"] != s["name"] or m["op_name"] != s["name"]:
        why.append(f"method/Op name {m['name']}/{m['op_name']} != schema name {s['name']}")
    if m["call"] != [s["name"], s["since"], s["domain"]]:
        why.append(f"get_schema{tuple(m['call'])} != schema in force ({s['name']}, {s['since']}, {s['domain']!r})")
    ins = s["inputs"]
    has_var = any(o == 2 for _, o in ins)
    if any(o == 2 for _, o in ins[:-1]):
        why.append("variadic input not last")
    nonvar = [(n, o) for n, o in ins if o != 2]
    exp_pos = [[t_param_name(s, n), (["absent"] if has_var else (["none"] if o == 1 else ["absent"]))] for n, o in nonvar]
    if m["pos"] != exp_pos:
        why.append(f"positional parameters {m['pos']} != inputs {exp_pos}")
    var = next((n for n, o in ins if o == 2), None)
    exp_var = t_param_name(s, var) if var is not None else None
    if m["vararg"] != exp_var:
        why.append(f"*vararg {m['vararg']} != variadic input {exp_var}")
    kw = m["kwonly"]
    if len(kw) != len(s["attrs"]):
        why.append(f"{len(kw)} keyword-only parameters for {len(s['attrs'])} attributes")
    for a in s["attrs"]:
        got = next((d for k, d in kw if k == a["name"]), None)
        exp = ["absent"] if a["required"] else a["default"]
        if got is None:
            why.append(f"attribute {a['name']} has no keyword-only parameter")
        elif got != exp:
            why.append(f"default of {a['name']}: {show_default(got)} != schema {show_default(exp)}")
    exp_fi = [[p, False] for p, _ in m["pos"]] + ([[m["vararg"], True]] if m["vararg"] else [])
    if m["fwd_inputs"] != exp_fi:
        why.append(f"forwarded inputs {m['fwd_inputs']} != parameters {exp_fi}")
    if not (m["uses_prepare"] or not m["fwd_inputs"]):
        why.append("inputs not passed through _prepare_inputs")
    if m["fwd_attrs"] != [[k, k] for k, _ in kw]:
        why.append(f"forwarded attributes {m['fwd_attrs']} != kw=kw for each keyword-only parameter")
    return why


def t_agrees(s, r) -> bool:
    if s is None and r is None:
        return True
    if s is not None and r is not None:
        m = r[1]
        if s["deprecated"]:
            return bool(m.get("stub"))
        return (not m.get("stub")) and m["call"] == [s["name"], s["since"], s["domain"]]
    if s is not None:
        return bool(s["deprecated"])
    return False


def t_cell(data, d, N, n, listed=frozenset()):
    """(ok, mirrors or None, reasons, stub or None, agrees)"""
    s = t_lookup(data, d, N, n)
    r = t_resolve(data, d, N, n)
    ungen = d in X.UNGENERATED_DOMAINS
    ag = t_agrees(s, r)
    if s is None and r is None:
        return True, None, [], None, ag
    if s is not None and r is not None:
        why = t_mirrors(r[1], s)
        stub = bool(r[1].get("stub"))
        if s["deprecated"]:
            ok = stub or ((d, N, n) in listed)
            return ok, (not why), ([] if ok else [f"deprecated {n}({s['since']}) in force and a live method of {r[2]['name']} is inherited (not listed)"]), stub, ag
        if stub:
            return False, (not why), [f"{r[2]['name']}.{n} is a raising stub although {n}({s['since']}) is in force and not deprecated"], stub, ag
        return (not why), (not why), why, stub, ag
    if s is not None:
        ok = s["deprecated"] or ungen
        return ok, None, ([] if ok else [f"schema {s['name']}({s['since']}) in force, no method on the class"]), None, ag
    return False, None, [f"method {n} (defined in {r[2]['name']}) but no schema {n} in force at {N}"], bool(r[1].get("stub")), ag


def t_structural(data) -> list[str]:
    """Twins of chainOk / exportsOk / classes_generated / schemas_have_class (reasons; empty = all true)."""
    out = []
    cl = data["classes"]
    for c in cl:
        if not (c["class_ok"] and c["imports_ok"]):
            out.append(f"class {c['name']} ({c['file']}): class_ok={c['class_ok']} imports_ok={c['imports_ok']}")
        if c["version"] < 1:
            out.append(f"class {c['name']}: version {c['version']}")
        if c["version"] == 1:
            if c["base"] != "Opset":
                out.append(f"class {c['name']}: base {c['base']} is not Opset")
        elif not any(b["name"] == c["base"] and b["domain"] == c["domain"] and b["version"] + 1 == c["version"] for b in cl):
            out.append(f"class {c['name']}({c['base']}): base is not the class of ({c['domain']!r}, {c['version'] - 1})")
        for c2 in cl:
            if (c2["name"] == c["name"]) != (c2["domain"] == c["domain"] and c2["version"] == c["version"]):
                out.append(f"classes {c['name']} / {c2['name']}: name vs (domain, version) not one-to-one")
        if c["domain"] in X.UNGENERATED_DOMAINS:
            out.append(f"class {c['name']} in a domain listed as ungenerated")
    ex = data["exports"]
    for e in ex:
        if not any(c["name"] == e["cls"] and c["domain"] == e["domain"] and c["version"] == e["version"] for c in cl):
            out.append(f"all_opsets[({e['domain']!r}, {e['version']})] = {e['export']} = {e['cls']}(): no such class with that (domain, version)")
    for c in cl:
        if not any(c["name"] == e["cls"] and c["domain"] == e["domain"] and c["version"] == e["version"] for e in ex):
            out.append(f"class {c['name']} is not exported in all_opsets under ({c['domain']!r}, {c['version']})")
    if len(ex) != len(cl):
        out.append(f"{len(ex)} exports for {len(cl)} classes")
    for s in data["schemas"]:
        if s["domain"] not in X.UNGENERATED_DOMAINS and not any(c["domain"] == s["domain"] and c["version"] == s["since"] for c in cl):
            out.append(f"schema {s['domain']}::{s['name']}({s['since']}): no class for ({s['domain']!r}, {s['since']})")
    return list(dict.fromkeys(out))


def show_default(d) -> str:
    k = d[0]
    if k == "absent":
        return "<required>"
    if k == "none":
        return "None"
    if k == "int":
        return str(d[1])
    if k == "flt":
        import struct

        return repr(struct.unpack("<f", struct.pack("<I", d[1]))[0]) + "f"
    if k == "str":
        return repr(dec(d[1]))
    if k == "list":
        return "(" + ", ".join(show_default(x) for x in d[1]) + ")"
    return "<other>"


# canonical value tokens shared with the driver (showDflt / parseDflt)


def tok_scalar(s) -> str:
    return {"int": "i", "flt": "f", "str": "s"}[s[0]] + str(s[1])


def tok_default(d) -> str:
    k = d[0]
    if k == "absent":
        return "A"
    if k == "none":
        return "N"
    if k in ("int", "flt", "str"):
        return tok_scalar(d)
    if k == "list":
        return "L[" + ",".join(tok_scalar(x) for x in d[1]) + "]"
    return "o" + str(d[1])


def tok_pyvalue(v) -> str:
    """Canonical token of a Python value as received by the evaluator."""
    if v is None:
        return "N"
    if isinstance(v, (tuple, list)):
        el = [X._scalar_of_py(x) for x in v]
        if all(e is not None for e in el):
            return "L[" + ",".join(tok_scalar(e) for e in el) + "]"
        return "o" + str(enc(repr(v)))
    s = X._scalar_of_py(v)
    return tok_scalar(s) if s is not None else "o" + str(enc(repr(v)))


# --------------------------------------------------------------------------- real code access


class Real:
    """The imported package, a recording evaluator, the real schema registry."""

    def __init__(self):
        import onnx.defs
        import onnxscript  # noqa: F401
        from onnxscript import onnx_opset
        from onnxscript._internal import evaluator, values

        self.defs = onnx.defs
        self.onnx_opset = onnx_opset
        self.values = values
        self.evaluator = evaluator
        self.all_opsets = dict(onnx_opset.all_opsets)
        outer = self

        class Rec:
            """records what `Op.__call__` hands over (new interface: eval_op)"""

            def eval_op(self, op, args, kwargs):
                outer.log.append((op, list(args), dict(kwargs)))
                return None

            def eval_function(self, function, args, kwargs):  # pragma: no cover
                raise RuntimeError("unexpected")

        self.rec = Rec()
        self.log: list = []

    def get_schema(self, n, N, d):
        try:
            return self.defs.get_schema(n, N, d)
        except Exception:
            return None

    def call_recorded(self, bound_method, args, kwargs):
        """Execute the real generated method with sentinels; returns (key, inputs, kwargs) or ('ERR', cls)."""
        self.log.clear()
        try:
            with self.evaluator.default_as(self.rec):
                bound_method(*args, **kwargs)
        except Exception as e:  # TypeError of binding etc.
            return ("ERR", type(e).__name__, str(e)[:200])
        if len(self.log) != 1:
            return ("ERR", "calls", str(len(self.log)))
        op, a, k = self.log[0]
        sch = op.op_schema
        key = (sch.name, int(sch.since_version), sch.domain) if sch is not None else ("?", 0, "?")
        return (key, op.name, op.opset, a, k)


def key_str(name, since, domain) -> str:
    return f"{enc(name)} {since} {enc(domain)}"


def sentinel_calls(m: dict, s_attrs_required: list[str]):
    """Argument patterns for one method (as driver tokens and as Python values).
    inputs are the integers 0,1,2,… ; `n` = None."""
    npos = len(m["pos"])
    nreq = sum(1 for _, d in m["pos"] if d[0] == "absent")
    req_kw = [k for k, d in m["kwonly"] if d[0] == "absent"]
    pats = []
    # (a) only what is required, defaults omitted
    pats.append((list(range(nreq)), {k: 7 for k in req_kw}))
    # (b) every positional supplied, optional ones alternately None, all trailing None
    if npos > nreq:
        full = list(range(nreq)) + [None] * (npos - nreq)
        pats.append((full, {k: 7 for k in req_kw}))
        mid = list(range(npos))
        for i in range(nreq, npos - 1):
            mid[i] = None
        pats.append((mid, {k: 7 for k in req_kw}))
    # (c) vararg: two extra, last None
    if m["vararg"]:
        pats.append((list(range(npos)) + [100, None, 101, None], {k: 7 for k in req_kw}))
        pats.append((list(range(npos)), {k: 7 for k in req_kw}))
    # (d) every keyword supplied explicitly (one of them None)
    if m["kwonly"]:
        kws = {k: 7 + i for i, (k, _) in enumerate(m["kwonly"])}
        pats.append((list(range(nreq)), kws))
        k0 = m["kwonly"][-1][0]
        if k0 not in req_kw:
            kws2 = dict(kws)
            kws2[k0] = None
            pats.append((list(range(nreq)), kws2))
    return pats


def pat_tokens(args, kws) -> str:
    a = "a:" + ",".join("n" if x is None else str(x) for x in args)
    return " ".join([a] + [f"{enc(k)}={tok_pyvalue(v)}" for k, v in kws.items()])


def canon_recorded(rec) -> str:
    if rec[0] == "ERR":
        return "ERR"
    key, opname, opset, a, k = rec
    ins = " ".join("n" if x is None else str(x) for x in a)
    attrs = " ".join(f"{enc(kk)}={tok_pyvalue(v)}" for kk, v in k.items())
    return f"{key_str(*key)} | {ins} | {attrs}"


# --------------------------------------------------------------------------- the property's oracle on real objects


def attr_default_py(a):
    """Python value a node without attribute `a` denotes (None if the schema gives no default)."""
    import onnx

    if not a.default_value.name:
        return None
    v = onnx.helper.get_attribute_value(a.default_value)
    if isinstance(v, bytes):
        return v.decode("utf-8")
    if isinstance(v, list):
        return tuple(x.decode("utf-8") if isinstance(x, bytes) else x for x in v)
    return v


def same_attr_value(py, dflt) -> bool:
    """Is the Python default `py` the schema default `dflt` once stored in an AttributeProto?"""
    if py is None or dflt is None:
        return py is None and dflt is None
    if isinstance(dflt, float):
        return isinstance(py, (int, float)) and not isinstance(py, bool) and X.f32bits(float(py)) == X.f32bits(dflt)
    if isinstance(dflt, tuple):
        return isinstance(py, (tuple, list)) and len(py) == len(dflt) and all(same_attr_value(a, b) for a, b in zip(py, dflt))
    return type(py) is type(dflt) and py == dflt


def oracle_cell(real: Real, inst, name: str) -> list[str]:
    """The property on the real objects for one (opset instance, operator name): what the class exposes
    under `name` vs `onnx.defs.get_schema(name, N, domain)`.  Returns discrepancies (strings)."""
    out = []
    d, N = inst.domain, inst.version
    sch = real.get_schema(name, N, d)
    fn = getattr(type(inst), name, None)
    has_method = inspect.isfunction(fn)
    if sch is None:
        if has_method:
            out.append(f"{type(inst).__name__}.{name} exists but get_schema({name!r}, {N}, {d!r}) finds nothing")
        return out
    if sch.deprecated:
        return out  # judged separately (finding C17-F1)
    if not has_method:
        out.append(f"{type(inst).__name__} has no method {name} although {name}({sch.since_version}) is in force at {N}")
        return out
    sig = inspect.signature(fn)
    params = list(sig.parameters.values())[1:]
    pos = [p for p in params if p.kind == p.POSITIONAL_OR_KEYWORD]
    var = [p for p in params if p.kind == p.VAR_POSITIONAL]
    kwo = [p for p in params if p.kind == p.KEYWORD_ONLY]
    if any(p.kind in (p.POSITIONAL_ONLY, p.VAR_KEYWORD) for p in params):
        out.append("unexpected parameter kind")
    attr_names = set(sch.attributes)
    ins = list(sch.inputs)
    has_var = any(i.option.name == "Variadic" for i in ins)
    exp_pos = [(i.name + "_" if i.name in attr_names else i.name, i.option.name) for i in ins if i.option.name != "Variadic"]
    if [p.name for p in pos] != [n for n, _ in exp_pos]:
        out.append(f"positional parameters {[p.name for p in pos]} != schema inputs {[n for n, _ in exp_pos]}")
    else:
        for p, (n, o) in zip(pos, exp_pos):
            if o == "Optional" and not has_var:
                if p.default is not None:
                    out.append(f"optional input {n}: default {p.default!r} is not None")
            elif p.default is not inspect.Parameter.empty:
                out.append(f"input {n} ({o}) has a default {p.default!r}")
    exp_var = [(i.name + "_" if i.name in attr_names else i.name) for i in ins if i.option.name == "Variadic"]
    if [p.name for p in var] != exp_var:
        out.append(f"*vararg {[p.name for p in var]} != variadic input {exp_var}")
    if sorted(p.name for p in kwo) != sorted(attr_names):
        out.append(f"keyword-only parameters {sorted(p.name for p in kwo)} != attributes {sorted(attr_names)}")
    else:
        for p in kwo:
            a = sch.attributes[p.name]
            if a.required:
                if p.default is not inspect.Parameter.empty:
                    out.append(f"required attribute {p.name} has default {p.default!r}")
            elif p.default is inspect.Parameter.empty:
                out.append(f"attribute {p.name} is not required but the parameter has no default")
            elif not same_attr_value(p.default, attr_default_py(a)):
                out.append(f"attribute {p.name}: parameter default {p.default!r} != schema default {attr_default_py(a)!r}")
    if out:
        return out
    # execute the real method: required things only, then everything explicit
    bound = getattr(inst, name)
    nreq = sum(1 for p in pos if p.default is inspect.Parameter.empty)
    req_kw = {p.name: 7 for p in kwo if p.default is inspect.Parameter.empty}
    extra = [100, 101] if var else []
    for args, kws in (
        (list(range(nreq)) + extra, dict(req_kw)),
        (list(range(len(pos))) + extra, {p.name: 20 + i for i, p in enumerate(kwo)}),
    ):
        rec = real.call_recorded(bound, args, kws)
        if rec[0] == "ERR":
            out.append(f"call {name}(*{args}, **{kws}) raised {rec[1]}: {rec[2]}")
            continue
        key, opname, opset, a, k = rec
        if key != (sch.name, int(sch.since_version), sch.domain):
            out.append(f"eager call binds schema {key}, get_schema({name!r}, {N}, {d!r}) is {(sch.name, sch.since_version, sch.domain)}")
        if opname != name or opset is not inst:
            out.append(f"Op built as ({opset!r}, {opname!r}) instead of (self, {name!r})")
        if list(a) != args:
            out.append(f"inputs forwarded as {a} for arguments {args}")
        # the node's attribute meaning vs the bare node's (only what the caller wrote)
        for an, at in sch.attributes.items():
            explicit = k.get(an)
            written = kws.get(an)
            node_means = explicit if explicit is not None else attr_default_py(at)
            bare_means = written if written is not None else attr_default_py(at)
            if not (same_attr_value(node_means, bare_means) or node_means == bare_means):
                out.append(f"attribute {an}: eager node carries {explicit!r} (means {node_means!r}), bare node means {bare_means!r}")
        for kk in k:
            if kk not in sch.attributes:
                out.append(f"keyword {kk} forwarded but {name} has no such attribute")
    return out


# --------------------------------------------------------------------------- numeric: eager (defaults omitted) vs bare node on onnxruntime

F = np.float32


def _x(shape, seed=0, lo=-2.0, hi=2.0):
    r = np.random.RandomState(seed)
    return r.uniform(lo, hi, size=shape).astype(F)


# (operator, inputs builder, required keyword attributes, max version or None)
NUMERIC_SPECS: list[tuple[str, Any, dict]] = [
    ("Softmax", lambda: [_x((2, 3, 4))], {}),
    ("LogSoftmax", lambda: [_x((2, 3, 4))], {}),
    ("Hardmax", lambda: [_x((2, 3, 4))], {}),
    ("LeakyRelu", lambda: [_x((2, 3))], {}),
    ("Elu", lambda: [_x((2, 3))], {}),
    ("Selu", lambda: [_x((2, 3))], {}),
    ("HardSigmoid", lambda: [_x((2, 3))], {}),
    ("ThresholdedRelu", lambda: [_x((2, 3))], {}),
    ("Celu", lambda: [_x((2, 3))], {}),
    ("Shrink", lambda: [_x((2, 3))], {}),
    ("Flatten", lambda: [_x((2, 3, 4))], {}),
    ("LpNormalization", lambda: [_x((2, 3))], {}),
    ("ArgMax", lambda: [_x((2, 3, 4))], {}),
    ("ArgMin", lambda: [_x((2, 3, 4))], {}),
    ("ReduceSum", lambda: [_x((2, 3, 4))], {}),
    ("ReduceMean", lambda: [_x((2, 3, 4))], {}),
    ("ReduceMax", lambda: [_x((2, 3, 4))], {}),
    ("ReduceMin", lambda: [_x((2, 3, 4))], {}),
    ("ReduceProd", lambda: [_x((2, 3, 4))], {}),
    ("ReduceL1", lambda: [_x((2, 3, 4))], {}),
    ("ReduceL2", lambda: [_x((2, 3, 4))], {}),
    ("ReduceLogSumExp", lambda: [_x((2, 3, 4))], {}),
    ("ReduceSumSquare", lambda: [_x((2, 3, 4))], {}),
    ("CumSum", lambda: [_x((2, 3)), np.array(1, dtype=np.int64)], {}),
    ("Transpose", lambda: [_x((2, 3, 4))], {}),
    ("DepthToSpace", lambda: [_x((1, 8, 2, 3))], {"blocksize": 2}),
    ("SpaceToDepth", lambda: [_x((1, 2, 4, 6))], {"blocksize": 2}),
    ("LRN", lambda: [_x((1, 5, 2, 2))], {"size": 3}),
    ("InstanceNormalization", lambda: [_x((2, 3, 4)), _x((3,), 1), _x((3,), 2)], {}),
    ("LpPool", lambda: [_x((1, 2, 4, 4))], {"kernel_shape": (2, 2)}),
    ("MaxPool", lambda: [_x((1, 2, 4, 4))], {"kernel_shape": (2, 2)}),
    ("AveragePool", lambda: [_x((1, 2, 4, 4))], {"kernel_shape": (2, 2)}),
    ("GlobalLpPool", lambda: [_x((1, 2, 3, 3))], {}),
    ("Gelu", lambda: [_x((2, 3))], {}),
    ("IsInf", lambda: [np.array([1.0, np.inf, -np.inf], dtype=F)], {}),
    ("Trilu", lambda: [_x((3, 3))], {}),
    ("EyeLike", lambda: [_x((3, 4))], {}),
    ("Gather", lambda: [_x((3, 4)), np.array([0, 2], dtype=np.int64)], {}),
    ("GatherElements", lambda: [_x((3, 2)), np.array([[0, 1], [1, 0], [0, 0]], dtype=np.int64)], {}),
    ("ScatterElements", lambda: [_x((3, 2)), np.array([[0, 1]], dtype=np.int64), _x((1, 2), 3)], {}),
    ("Concat", lambda: [_x((2, 3)), _x((2, 3), 1)], {"axis": 1}),
    ("Gemm", lambda: [_x((2, 3)), _x((3, 4), 1)], {}),
    ("Gemm", lambda: [_x((2, 3)), _x((3, 4), 1), _x((2, 4), 2)], {}),
    ("OneHot", lambda: [np.array([0, 2], dtype=np.int64), np.array(3, dtype=np.int64), np.array([0, 1], dtype=F)], {}),
    ("TopK", lambda: [_x((2, 5)), np.array([2], dtype=np.int64)], {}),
    ("Mod", lambda: [np.array([5, -7, 8], dtype=np.int64), np.array([3, 3, -3], dtype=np.int64)], {}),
    ("BitShift", lambda: [np.array([1, 2, 4], dtype=np.uint8), np.array([1, 1, 1], dtype=np.uint8)], {"direction": "LEFT"}),
    ("Pad", lambda: [_x((2, 2)), np.array([1, 0, 0, 1], dtype=np.int64)], {}),
    ("Clip", lambda: [_x((2, 3))], {}),
    ("Clip", lambda: [_x((2, 3)), np.array(-0.5, dtype=F), np.array(0.7, dtype=F)], {}),
    ("Clip", lambda: [_x((2, 3)), None, np.array(0.7, dtype=F)], {}),
    ("Cast", lambda: [_x((2, 3))], {"to": 7}),
    ("QuantizeLinear", lambda: [_x((2, 3)), np.array(0.1, dtype=F)], {}),
    ("DequantizeLinear", lambda: [np.array([[1, 2], [3, 4]], dtype=np.uint8), np.array(0.5, dtype=F)], {}),
    ("Compress", lambda: [_x((3, 2)), np.array([True, False, True])], {}),
    ("ReverseSequence", lambda: [_x((4, 3)), np.array([1, 2, 3], dtype=np.int64)], {}),
    ("NonMaxSuppression", lambda: [np.array([[[0, 0, 1, 1], [0, 0.1, 1, 1.1], [0, 2, 1, 3]]], dtype=F), np.array([[[0.9, 0.8, 0.7]]], dtype=F), np.array([3], dtype=np.int64), np.array([0.5], dtype=F)], {}),
    ("MeanVarianceNormalization", lambda: [_x((2, 2, 2, 2))], {}),
    ("Dropout", lambda: [_x((2, 3))], {}),
    ("Einsum", lambda: [_x((2, 3)), _x((3, 4), 1)], {"equation": "ij,jk->ik"}),
    ("LayerNormalization", lambda: [_x((2, 3, 4)), _x((4,), 1)], {}),
    ("BatchNormalization", lambda: [_x((2, 3, 2)), _x((3,), 1), _x((3,), 2), _x((3,), 3), _x((3,), 4, 0.5, 2.0)], {}),
    ("Conv", lambda: [_x((1, 2, 4, 4)), _x((3, 2, 2, 2), 1)], {}),
    ("ConvTranspose", lambda: [_x((1, 2, 3, 3)), _x((2, 3, 2, 2), 1)], {}),
    ("Squeeze", lambda: [_x((1, 3, 1))], {}),
    ("Split", lambda: [_x((4, 2)), np.array([1, 3], dtype=np.int64)], {}),
    ("Unsqueeze", lambda: [_x((2, 3)), np.array([0], dtype=np.int64)], {}),
    ("Mish", lambda: [_x((2, 3))], {}),
    ("HardSwish", lambda: [_x((2, 3))], {}),
    ("Softplus", lambda: [_x((2, 3))], {}),
    ("Range", lambda: [np.array(0, dtype=np.int64), np.array(5, dtype=np.int64), np.array(2, dtype=np.int64)], {}),
    ("Where", lambda: [np.array([True, False]), _x((2,)), _x((2,), 1)], {}),
    ("MatMul", lambda: [_x((2, 3)), _x((3, 2), 1)], {}),
    ("Add", lambda: [_x((2, 3)), _x((2, 3), 1)], {}),
    ("Relu", lambda: [_x((2, 3))], {}),
    ("Resize", lambda: [_x((1, 1, 2, 2)), None, np.array([1, 1, 2, 2], dtype=F)], {}),
    ("RoiAlign", lambda: [_x((1, 1, 6, 6)), np.array([[0, 0, 4, 4]], dtype=F), np.array([0], dtype=np.int64)], {}),
    ("GridSample", lambda: [_x((1, 1, 3, 3)), _x((1, 2, 2, 2), 1, -1.0, 1.0)], {}),
    ("Unique", lambda: [np.array([2.0, 1.0, 1.0, 3.0], dtype=F)], {}),
    ("Upsample", lambda: [_x((1, 1, 2, 2)), np.array([1, 1, 2, 2], dtype=F)], {}),
    ("LinearClassifier", lambda: [_x((2, 3))], {"coefficients": (0.1, 0.2, 0.3, 0.4, 0.5, 0.6)}),
    ("Binarizer", lambda: [_x((2, 3))], {}),
    ("Scaler", lambda: [_x((2, 3))], {}),
    ("Normalizer", lambda: [_x((2, 3))], {}),
    ("ArrayFeatureExtractor", lambda: [_x((2, 3)), np.array([0, 2], dtype=np.int64)], {}),
    ("Imputer", lambda: [_x((2, 3))], {"imputed_value_floats": (0.5,)}),
    ("OneHotEncoder", lambda: [np.array([0, 2, 1], dtype=np.int64)], {"cats_int64s": (0, 1, 2)}),
    ("FeatureVectorizer", lambda: [_x((2, 3))], {"inputdimensions": (3,)}),
]


def ort_run_bare(schema, inputs, attrs):
    """The bare node: exactly the attributes given, at the opset the schema was introduced in, on onnxruntime."""
    import onnx
    import onnxruntime as ort
    from onnx import helper

    ort.set_default_logger_severity(4)
    names = [("" if x is None else f"i{j}") for j, x in enumerate(inputs)]
    while names and names[-1] == "":
        names.pop()
    nout = len(schema.outputs)
    if schema.name == "Split":
        nout = len(inputs[1]) if len(inputs) > 1 and inputs[1] is not None else attrs.get("num_outputs", 2)
    if schema.name == "BatchNormalization" and not attrs.get("training_mode", 0):
        nout = 1
    outs = [f"o{j}" for j in range(nout)]
    node = helper.make_node(schema.name, names, outs, domain=schema.domain, **attrs)
    vis = []
    for nm, x in zip(names, inputs):
        if nm:
            vis.append(helper.make_tensor_value_info(nm, helper.np_dtype_to_tensor_dtype(x.dtype), list(x.shape)))
    g = helper.make_graph([node], "bare", vis, [helper.make_value_info(o, onnx.TypeProto()) for o in outs])
    opsets = [helper.make_opsetid(schema.domain, schema.since_version)]
    if schema.domain != "":
        opsets.append(helper.make_opsetid("", 18))
    from onnxscript._internal import values

    model = helper.make_model(g, opset_imports=opsets, ir_version=values.select_ir_version(schema.since_version, domain=schema.domain))
    model = onnx.shape_inference.infer_shapes(model)
    so = ort.SessionOptions()
    so.log_severity_level = 4
    sess = ort.InferenceSession(model.SerializeToString(), so, providers=["CPUExecutionProvider"])
    return sess.run(None, {nm: x for nm, x in zip(names, inputs) if nm})


def as_list(v):
    from onnxscript import tensor

    if isinstance(v, tensor.Tensor):
        return [np.asarray(v.value)]
    if isinstance(v, (list, tuple)):
        out = []
        for x in v:
            out += as_list(x)
        return out
    return [np.asarray(v)]


def arrays_equal(a, b) -> bool:
    if len(a) != len(b):
        return False
    for x, y in zip(a, b):
        x, y = np.asarray(x), np.asarray(y)
        if x.shape != y.shape or x.dtype != y.dtype:
            return False
        if x.dtype.kind in "fc":
            if not np.array_equal(x, y, equal_nan=True):
                return False
        elif not np.array_equal(x, y):
            return False
    return True


def numeric_compare(real: Real, inst, name: str, inputs, req: dict):
    """('equal'|'differ'|'skip', detail) — eager call through the generated method with every default omitted
    vs the bare node of the schema in force, both on onnxruntime."""
    sch = real.get_schema(name, inst.version, inst.domain)
    if sch is None or sch.deprecated:
        return "skip", "no schema in force"
    try:
        bare = ort_run_bare(sch, inputs, req)
    except Exception as e:
        return "skip", "bare node not runnable: " + str(e)[:120]
    try:
        eager = as_list(getattr(inst, name)(*inputs, **req))
    except Exception as e:
        return "differ", f"bare node runs, eager call raises {type(e).__name__}: {str(e)[:200]}"
    if arrays_equal(eager, bare):
        return "equal", ""
    return "differ", f"eager {[(np.asarray(x).shape, np.asarray(x).reshape(-1)[:4].tolist()) for x in eager]} bare {[(x.shape, x.reshape(-1)[:4].tolist()) for x in bare]}"


# --------------------------------------------------------------------------- main


def all_cells(data):
    names = {}
    for s in data["schemas"]:
        names.setdefault(s["domain"], set()).add(s["name"])
    for c in data["classes"]:
        names.setdefault(c["domain"], set())
        for m in c["methods"]:
            names[c["domain"]].add(m["name"])
    cells = []
    for c in data["classes"]:
        for n in sorted(names[c["domain"]]):
            cells.append((c, n))
    return cells, names


def main(run: core.Run) -> None:
    run.assumptions += [
        "names are compared as numbers: enc(name) = big-endian UTF-8 bytes behind 0x01 (injective by construction; "
        "the driver correspondence T2/T3 exercises it on every cell)",
        "onnx.defs.get_schema(n, N, d) = the registered schema of that name and domain with the largest since_version <= N "
        "(model `lookup`); validated against the installed onnx on every (class, name) cell and on absent names",
        "Python attribute lookup on the generated classes = definition in the class of the largest version <= N; justified by "
        "`chain_is_linear` (kernel-checked on the regenerated tables) and validated against the imported classes' real MRO on every cell",
        "the runtime is a function of (op, version, inputs, attributes) and reads an absent attribute as its schema default (A-op)",
        "float defaults are compared as float32 bit patterns (what an AttributeProto stores)",
    ]
    stats: Counter = Counter()
    import time as _time

    phase: dict[str, float] = {}
    _t = [_time.time()]

    def lap(name: str) -> None:
        now = _time.time()
        phase[name] = round(phase.get(name, 0.0) + now - _t[0], 2)
        _t[0] = now

    # ---------------- T1: translate, build, audit
    data = X.extract_all(core.REPO)
    changed = X.emit_lean(data)
    lap("extract+emit")
    stats["gen_files"] = len(changed)
    stats["gen_files_changed"] = sum(changed.values())
    # the table theorems live in the regenerated modules; they are obligations too (and leanchecker replays them in thorough)
    gen_thm_modules = sorted(
        (f"OV.Gen.{m}" for m in changed if m.startswith(("C17Grid", "C17Cover", "C17Checks"))),
        key=lambda x: (len(x), x),
    )
    audit = run.prove(PROP_MODULES + gen_thm_modules, thorough_checker=True)
    lap("lake build + axiom audit (includes waiting for the shared build lock)")
    cells, names = all_cells(data)
    stats["classes"] = len(data["classes"])
    stats["methods"] = sum(len(c["methods"]) for c in data["classes"])
    stats["schemas"] = len(data["schemas"])
    stats["cells"] = len(cells)

    replay_only = None
    if run.replay_path:
        body = json.loads(open(run.replay_path).read())
        replay_only = body.get("case", {})

    # ---------------- twin on every cell
    twin = {}
    failing = []
    # C17-F1 is fixed (52a48cf): no cell may pair a deprecated schema with a live inherited method any more
    listed = frozenset()
    stats["deprecated_live_cells"] = len(X.dep_live_cells(data["classes"], data["schemas"]))
    for c, n in cells:
        ok, mir, why, stub, ag = t_cell(data, c["domain"], c["version"], n, listed)
        twin[(c["name"], n)] = (ok, mir, stub, ag)
        if stub:
            stats["cell_stub"] += 1
        s = t_lookup(data, c["domain"], c["version"], n)
        r = t_resolve(data, c["domain"], c["version"], n)
        kind = ("S" if s else "-") + ("M" if r else "-") + ("d" if s and s["deprecated"] else "")
        stats["cell_" + kind] += 1
        if r and r[2]["name"] != c["name"]:
            stats["cell_inherited_method"] += 1
        if not ok:
            failing.append((c, n, why))
    structural = t_structural(data)

    # ---------------- T2: twin == compiled Lean model, every cell
    tie_broken: list[str] = []
    drv = None
    try:
        drv = core.Driver("C17")
    except core.Infra as e:
        if audit["ok"]:
            raise
        stats["driver_unavailable"] = 1
    if drv is not None:
        lines = [f"cell {enc(c['domain'])} {c['version']} {enc(n)}" for c, n in cells]
        outs = drv.ask(lines)
        for (c, n), o in zip(cells, outs):
            ok, mir, stub, ag = twin[(c["name"], n)]
            b = lambda x: "-" if x is None else ("true" if x else "false")
            exp = f"ok={b(ok)} mirrors={b(mir)} stub={b(stub)} agrees={b(ag)}"
            if o != exp:
                tie_broken.append(f"twin vs Lean model on cell ({c['name']}, {n}): twin {exp}, model {o}")
        stats["twin_vs_model_cells"] = len(cells)
    lap("driver build + twin vs model")

    # ---------------- T3: real code, every cell
    real = Real()
    oracle_failures: list[tuple[str, str, list[str]]] = []
    known_dep: list[tuple[str, str, str]] = []
    insts = {}
    import onnxscript as _top

    for (d0, n0), inst in real.all_opsets.items():
        # the property on the real exports: the object published under (domain, N) *is* opset N of that domain
        probs = []
        if (inst.domain, inst.version) != (d0, n0):
            probs.append(f"all_opsets[({d0!r}, {n0})] is {inst!r}: domain/version ({inst.domain!r}, {inst.version})")
        ename = "opset" + ("_" + d0.replace(".", "_") if d0 else "") + str(n0)
        if getattr(real.onnx_opset, ename, None) is not inst:
            probs.append(f"onnx_opset.{ename} is not all_opsets[({d0!r}, {n0})]")
        if hasattr(_top, ename) and getattr(_top, ename) is not inst:
            probs.append(f"onnxscript.{ename} is not all_opsets[({d0!r}, {n0})]")
        stats["export_checks"] += 1
        if probs:
            oracle_failures.append((ename, "<export>", probs))
    for c in data["classes"]:
        inst = real.all_opsets.get((c["domain"], c["version"]))
        if inst is None or type(inst).__name__ != c["name"] or (inst.domain, inst.version) != (c["domain"], c["version"]):
            tie_broken.append(f"all_opsets[({c['domain']!r}, {c['version']})] is {inst!r}, extracted class {c['name']}")
            continue
        insts[c["name"]] = inst
    for k, inst in real.all_opsets.items():
        if type(inst).__name__ not in insts:
            tie_broken.append(f"all_opsets has {k} -> {type(inst).__name__}, not among the usable extracted classes")
    # the imported classes define exactly the extracted methods
    for c in data["classes"]:
        inst = insts.get(c["name"])
        if inst is None:
            continue
        own = sorted(k for k, v in vars(type(inst)).items() if inspect.isfunction(v) and k != "__new__")
        if own != sorted(m["name"] for m in c["methods"]):
            diff = set(own) ^ {m["name"] for m in c["methods"]}
            tie_broken.append(f"{c['name']}: imported class defines {sorted(diff)} differently from the parsed source")
    # ---------------- T9: HISTORIES of Opset(...) constructions and dynamic lookups in this one process
    # (the real class-level Opset.cache and anything else the process remembers persist across histories: the answers
    #  must still be the function of (domain, version, name) the model's state machine computes from an empty cache)
    Opset = real.values.Opset

    class UserOpset(Opset):  # a user-defined subclass shares Opset.cache, keyed by class
        pass

    HDOMS = ["", "ai.onnx.ml", "ai.onnx.preview", "ai.onnx.preview.training", "my.domain", "com.microsoft"]
    names_of = {d: sorted({sc["name"] for sc in data["schemas"] if sc["domain"] == d}) for d in HDOMS}
    firsts = {}
    for sc in data["schemas"]:
        firsts.setdefault((sc["domain"], sc["name"]), []).append(sc["since"])
    late_ops = sorted((d, n, sorted(v)) for (d, n), v in firsts.items() if min(v) > 1 or len(v) > 1)
    gen_classes = [(c["name"], c["domain"], c["version"]) for c in data["classes"] if c["name"] in insts]

    def h_new_base(cls_obj, d, v):
        return ("N", cls_obj, d, v)

    def run_history(cmds):
        """Returns (driver tokens, real responses, oracle problems)."""
        toks, resps, probs = [], [], []
        first_bad = [None]

        class _P(list):
            def append(self, x):  # remember where the first problem occurred
                if first_bad[0] is None:
                    first_bad[0] = len(toks)
                super().append(x)

        probs = _P()
        seen: dict[int, int] = {}
        objs: list = []
        want: list = []  # (d, v) requested at construction, per first-sight index
        for cmd in cmds:
            if cmd[0] == "N":
                _, cls_obj, d, v = cmd
                generated = cls_obj not in (Opset, UserOpset)
                obj = cls_obj() if generated else cls_obj(d, v)
                toks.append(f"N:{enc(cls_obj.__name__)}:{enc(d)}:{v}")
                if id(obj) not in seen:
                    seen[id(obj)] = len(objs)
                    objs.append(obj)
                    want.append((d, v))
                k = seen[id(obj)]
                resps.append(f"i{k}:{enc(obj.domain)}:{obj.version}")
                if type(obj) is not cls_obj or (obj.domain, obj.version) != (d, v):
                    probs.append(f"{cls_obj.__name__}({d!r}, {v}) returned {obj!r} of type {type(obj).__name__}")
                stats["hist_new_" + ("generated" if generated else cls_obj.__name__)] += 1
            else:
                kind, k, n = cmd
                if k >= len(objs):
                    continue
                obj = objs[k]
                d, v = want[k]
                truth = real.get_schema(n, v, d)
                tk = None if truth is None else (truth.name, int(truth.since_version), truth.domain)
                toks.append(f"{kind}:{k}:{enc(n)}")
                if kind == "I":
                    r0 = obj[n]
                    got = None if r0 is None else (r0.op_schema.name, int(r0.op_schema.since_version), r0.op_schema.domain)
                    resps.append("s-" if got is None else f"s{enc(got[0])},{got[1]},{enc(got[2])}")
                    if got != tk:
                        probs.append(f"{obj!r}[{n!r}] -> {got}, get_schema({n!r}, {v}, {d!r}) -> {tk}")
                elif kind == "C":
                    got = n in obj
                    resps.append("bT" if got else "bF")
                    if got != (tk is not None):
                        probs.append(f"{n!r} in {obj!r} -> {got}, get_schema({n!r}, {v}, {d!r}) -> {tk}")
                else:
                    try:
                        r0 = Opset.__getattr__(obj, n)
                        got = (r0.op_schema.name, int(r0.op_schema.since_version), r0.op_schema.domain)
                        resps.append(f"s{enc(got[0])},{got[1]},{enc(got[2])}")
                    except AttributeError:
                        got = None
                        resps.append("E")
                    if got != tk:
                        probs.append(f"Opset.__getattr__({obj!r}, {n!r}) -> {got}, get_schema({n!r}, {v}, {d!r}) -> {tk}")
                stats["hist_" + {"I": "getitem", "C": "contains", "A": "getattr"}[kind] + ("_hit" if tk else "_miss")] += 1
                stats["hist_domain_" + (d or "default")] += 1
        return toks, resps, (list(probs), first_bad[0])

    histories = []
    # directed: probe an operator below its first version / across versions, in both orders, base and generated classes
    for d, n, vs in late_ops:
        lo, hi = max(1, vs[0] - 1), vs[-1]
        a = [h_new_base(Opset, d, lo), ("C", 0, n), ("I", 0, n), ("A", 0, n), h_new_base(Opset, d, hi), ("C", 1, n), ("I", 1, n), ("A", 1, n),
             ("C", 0, n), ("I", 0, n), h_new_base(Opset, d, lo), h_new_base(UserOpset, d, hi), ("I", 2, n)]
        b = [h_new_base(Opset, d, hi), ("I", 0, n), h_new_base(Opset, d, lo), ("I", 1, n), ("C", 1, n), ("I", 0, n), ("C", 0, n), ("A", 0, n)]
        histories += [a, b]
        stats["hist_directed_old_then_new"] += 1
        stats["hist_directed_new_then_old"] += 1
    # directed: the same name across domains, and generated instance vs base instance of the same (domain, version)
    for cn, d, v in gen_classes:
        other = [x for x in HDOMS if x != d]
        nm = run.rng.choice(names_of[d]) if names_of[d] else "Abs"
        od = run.rng.choice(other)
        histories.append([h_new_base(type(insts[cn]), d, v), h_new_base(Opset, od, v), ("C", 1, nm), ("I", 1, nm), ("C", 0, nm), ("I", 0, nm),
                          h_new_base(Opset, d, v), ("I", 2, nm), ("A", 2, nm), h_new_base(type(insts[cn]), d, v), ("C", 1, nm)])
        stats["hist_directed_cross_domain"] += 1
    # random
    n_hist = run.size(150, 1500)
    for _ in range(n_hist):
        L = run.rng.randint(4, 30)
        cmds, ninst = [], 0
        pool_d = run.rng.sample(HDOMS, run.rng.randint(1, 3))
        pool_n = []
        for d in pool_d + [run.rng.choice(HDOMS)]:
            if names_of[d]:
                pool_n += run.rng.sample(names_of[d], min(3, len(names_of[d])))
        pool_n += ["NoSuchOp", "abs"]
        for _ in range(L):
            if ninst == 0 or run.rng.random() < 0.3:
                r = run.rng.random()
                if r < 0.25:
                    cn, d, v = run.rng.choice(gen_classes)
                    cmds.append(h_new_base(type(insts[cn]), d, v))
                else:
                    d = run.rng.choice(pool_d)
                    v = run.rng.choice([1, 2, 3, 4, 5]) if d != "" and run.rng.random() < 0.7 else run.rng.randint(1, 27)
                    cmds.append(h_new_base(UserOpset if r > 0.9 else Opset, d, v))
                ninst += 1
            else:
                cmds.append((run.rng.choice("ICA"), run.rng.randrange(ninst), run.rng.choice(pool_n)))
        histories.append(cmds)
    hist_lines, hist_exp, hist_fail = [], [], []
    for cmds in histories:
        toks, resps, (probs, bad_at) = run_history(cmds)
        hist_lines.append("hist " + " ".join(toks))
        hist_exp.append(" ".join(resps))
        if probs and len(hist_fail) < 5:
            hist_fail.append((toks[: (bad_at or len(toks))], probs))
    stats["histories"] = len(histories)
    stats["history_commands"] = sum(len(h) for h in histories)
    if hist_fail:
        toks, probs = hist_fail[0]
        oracle_failures.append(("Opset", "<history>", probs[:3] + ["history: " + " ".join(
            (lambda t: t[0] + ":" + ":".join(dec(int(x)) if i in ((1, 2) if t[0] == "N" else (2,)) else x for i, x in enumerate(t[2:].split(":"), 1)))(t)
            for t in toks)]))
    if drv is not None:
        outs = drv.ask(hist_lines)
        for ln, e, o in zip(hist_lines, hist_exp, outs):
            if e != o:
                tie_broken.append(f"history [{ln[:300]}]: real `{e[:200]}` vs model `{o[:200]}`")
                break
    lap("lookup histories (run before the per-cell lookups, so that a reported history is self-contained)")
    drv_lines: list[str] = []
    drv_expect: list[tuple[str, str, str]] = []
    junk = ["NoSuchOp", "abs", "Abs_", "", "__len__x"]
    for c, n in cells:
        inst = insts.get(c["name"])
        if inst is None:
            continue
        d, N = c["domain"], c["version"]
        # dynamic path: __getitem__, __contains__, __getattr__ (called directly), onnx.defs itself
        sch = real.get_schema(n, N, d)
        item = inst[n]
        try:
            ga = real.values.Opset.__getattr__(inst, n)
        except AttributeError:
            ga = None
        cont = n in inst
        k_true = None if sch is None else (sch.name, int(sch.since_version), sch.domain)
        k_item = None if item is None else (item.op_schema.name, int(item.op_schema.since_version), item.op_schema.domain)
        k_ga = None if ga is None else (ga.op_schema.name, int(ga.op_schema.since_version), ga.op_schema.domain)
        stats["dynamic_lookups"] += 3
        if not (k_item == k_true and k_ga == k_true and cont == (k_true is not None)):
            oracle_failures.append((c["name"], n, [f"dynamic lookup: opset[{n!r}] -> {k_item}, __getattr__ -> {k_ga}, `in` -> {cont}; get_schema({n!r}, {N}, {d!r}) -> {k_true}"]))
        # what the converter builds for `opsetN.n(...)` / a bare name: values.Op(opset, n) without a schema argument
        opx = real.values.Op(inst, n)
        k_opx = None if opx.op_schema is None else (opx.op_schema.name, int(opx.op_schema.since_version), opx.op_schema.domain)
        stats["converter_op_lookups"] += 1
        if k_opx != k_true:
            oracle_failures.append((c["name"], n, [f"values.Op({inst!r}, {n!r}).op_schema -> {k_opx}; get_schema({n!r}, {N}, {d!r}) -> {k_true}"]))
        if item is not None and (item.opset is not inst or item.name != n):
            oracle_failures.append((c["name"], n, [f"opset[{n!r}] built Op({item.opset!r}, {item.name!r})"]))
        m_l = t_lookup(data, d, N, n)
        k_model = None if m_l is None else (m_l["name"], m_l["since"], m_l["domain"])
        if k_model != k_true:
            tie_broken.append(f"model lookup({d!r}, {N}, {n}) = {k_model}, onnx.defs.get_schema = {k_true}")
        if m_l is not None and sch is not None and bool(sch.deprecated) != m_l["deprecated"]:
            tie_broken.append(f"deprecated flag of {n}({m_l['since']})")
        # static path: real MRO
        fn = getattr(type(inst), n, None)
        r = t_resolve(data, d, N, n)
        if inspect.isfunction(fn):
            owner = fn.__qualname__.split(".")[0]
            if r is None or r[2]["name"] != owner:
                tie_broken.append(f"real MRO: {c['name']}.{n} is defined in {owner}, model resolve says {r[2]['name'] if r else None}")
        elif r is not None:
            tie_broken.append(f"model resolves {c['name']}.{n} to {r[2]['name']}, the imported class has no such function")
        # the property on the real objects
        if replay_only is None or (replay_only.get("cls") == c["name"] and replay_only.get("op") == n):
            probs = oracle_cell(real, inst, n)
            stats["oracle_cells"] += 1
            if probs:
                oracle_failures.append((c["name"], n, list(dict.fromkeys(probs))))
        if sch is not None and sch.deprecated and inspect.isfunction(fn) and r is not None:
            args, kws = sentinel_calls(r[1], [])[0]
            rec = real.call_recorded(getattr(inst, n), args, kws)
            if rec[0] == "ERR" and rec[1] == "NotImplementedError":
                stats["deprecated_stub_raises"] += 1  # the class offers nothing callable: agrees with the deprecated schema
                if not r[1].get("stub"):
                    tie_broken.append(f"{c['name']}.{n} raises NotImplementedError but the parsed method is not a stub")
            elif rec[0] != "ERR" and rec[0] != k_true:
                known_dep.append((c["name"], n, f"eager {c['name']}.{n} binds {rec[0]}; translation uses opset[{n!r}] = {k_true} (deprecated)"))
            else:
                oracle_failures.append((c["name"], n, [f"deprecated {n}: calling the method gives {rec[:3]}"]))
        elif sch is not None and not sch.deprecated and r is not None and r[1].get("stub"):
            oracle_failures.append((c["name"], n, [f"{c['name']}.{n} is a raising stub although {n}({sch.since_version}) is in force"]))
        # executed method vs the model's eagerNode, only where the method is the class's own (inherited ones are the same function)
        if r is not None and r[2]["name"] == c["name"] and inspect.isfunction(fn):
            s_m = t_lookup(data, d, N, n)
            for args, kws in sentinel_calls(r[1], []):
                rec = real.call_recorded(getattr(inst, n), args, kws)
                drv_lines.append(f"eager {enc(d)} {N} {enc(n)} {pat_tokens(args, kws)}")
                drv_expect.append((c["name"], n, canon_recorded(rec)))
                stats["executed_method_calls"] += 1
                if rec[0] != "ERR":
                    stats["executed_trim_" + ("yes" if len(rec[3]) < len(args) else "no")] += 1
                else:
                    stats["executed_err"] += 1
    for nm in junk:
        for c in data["classes"]:
            inst = insts.get(c["name"])
            if inst is None:
                continue
            sch = real.get_schema(nm, c["version"], c["domain"])
            if (inst[nm] is None) != (sch is None) or (nm in inst) != (sch is not None):
                oracle_failures.append((c["name"], nm, ["dynamic lookup of an absent name"]))
            if t_lookup(data, c["domain"], c["version"], nm) is not None and sch is None:
                tie_broken.append(f"model lookup finds absent name {nm!r}")
            stats["dynamic_lookups_absent"] += 1
    if drv is not None and drv_lines:
        outs = drv.ask(drv_lines)
        for (cn, n, exp), o, ln in zip(drv_expect, outs, drv_lines):
            if o != exp:
                tie_broken.append(f"executed {cn}.{n} [{ln}]: real `{exp}` vs model eagerNode `{o}`")

    lap("real code on every cell")
    # ---------------- T4: _prepare_inputs
    prep_lines, prep_exp = [], []
    inst0 = next(iter(insts.values()))
    n_prep = run.size(3000, 30000)
    for i in range(n_prep):
        L = run.rng.choice([0, 1, 2, 3, 4, 5, 6, 9])
        pnone = run.rng.choice([0.2, 0.5, 0.8, 1.0])
        xs = [None if run.rng.random() < pnone else run.rng.randint(0, 9) for _ in range(L)]
        got = real.values.Opset._prepare_inputs(inst0, None, *xs)
        prep_lines.append("prep " + " ".join("n" if x is None else str(x) for x in xs))
        prep_exp.append(" ".join(["R"] + ["n" if x is None else str(x) for x in got]))
        stats["prep_trimmed_%d" % min(len(xs) - len(got), 3)] += 1
        # the property's own statement on the real function
        k = len(xs) - len(got)
        if not (list(got) == xs[: len(got)] and all(x is None for x in xs[len(got) :]) and (not got or got[-1] is not None)):
            oracle_failures.append(("Opset", "_prepare_inputs", [f"_prepare_inputs{tuple(xs)} = {got}"]))
    if drv is not None:
        outs = drv.ask(prep_lines)
        for ln, e, o in zip(prep_lines, prep_exp, outs):
            if e != o:
                tie_broken.append(f"_prepare_inputs [{ln}]: real `{e}` vs model `{o}`")
    stats["prepare_cases"] = n_prep

    lap("prepare_inputs")
    # ---------------- T12: the WHOLE eager path up to the one-node model handed to the runtime
    # real generated method -> real Op.__call__ -> real BaseEvaluator.eval_op (op_signature, _adapt_attributes,
    # autocast) -> `_eval` hook -> real evaluator._prepare_model_and_inputs_for_eager  vs  the model's `eagerRun`
    import numpy as _np12
    import onnx as _onnx12
    from onnxscript import tensor as _tensor12

    _AT = real.defs.OpSchema.AttrType
    em_captured: list = []

    class _CapEval(real.evaluator.BaseEvaluator):
        def _eval(self, schema, inputs, attributes, closure):
            model, feeds, in_names = real.evaluator._prepare_model_and_inputs_for_eager(schema, inputs, attributes, closure)
            em_captured.append((schema, model, feeds, in_names))
            return [None] * len(model.graph.output)

    _cap_eval = _CapEval()

    def _attr_val(a, i):
        tt = a.type
        if tt == _AT.INT:
            return 7 + i
        if tt == _AT.FLOAT:
            return 0.5 + i
        if tt == _AT.STRING:
            return "s%d" % i
        if tt == _AT.INTS:
            return [1, 2 + i]
        if tt == _AT.FLOATS:
            return [0.25, 1.0 + i]
        if tt == _AT.STRINGS:
            return ["a", "b%d" % i]
        return None  # tensors, graphs, type protos: not sent (a required one skips the method)

    def _arr(k):
        return _tensor12.Tensor(_np12.full((2,), k, _np12.float32))

    def _em_patterns(mm, sch):
        """(args as index-or-None list, kwargs) patterns: defaults omitted / inner None / all-trailing None / variadic with
        an inner None / every simple keyword explicit / one keyword explicitly None / only inputs None (boundary)."""
        npos = len(mm["pos"])
        nreq = sum(1 for _, dd in mm["pos"] if dd[0] == "absent")
        kw_all, kw_req = {}, {}
        for i, (k, dd) in enumerate(mm["kwonly"]):
            v = _attr_val(sch.attributes[k], i) if k in sch.attributes else None
            if v is None:
                if dd[0] == "absent":
                    return None
                continue
            kw_all[k] = v
            if dd[0] == "absent":
                kw_req[k] = v
        pats = [("defaults_omitted", list(range(nreq)), dict(kw_req))]
        if npos > nreq:
            pats.append(("all_trailing_none", list(range(nreq)) + [None] * (npos - nreq), dict(kw_req)))
            if npos - nreq >= 2:
                mid = list(range(npos))
                for i in range(nreq, npos - 1):
                    mid[i] = None
                pats.append(("inner_none", mid, dict(kw_req)))
            if nreq == 0:
                pats.append(("only_none", [None] * npos, dict(kw_req)))
        if mm["vararg"]:
            pats.append(("variadic_inner_none", list(range(npos)) + [100, None, 101, None], dict(kw_req)))
            pats.append(("variadic_empty", list(range(npos)), dict(kw_req)))
        if nreq >= 2 and not kw_req:
            # a Python scalar as the second input: `autocast.dynamic_cast_inputs` turns it into a tensor in place
            pats.append(("py_scalar_input", list(range(nreq)), {}))
        if kw_all:
            pats.append(("all_keywords", list(range(nreq)), dict(kw_all)))
            opt = [k for k in kw_all if k not in kw_req]
            if opt:
                k0 = opt[run.rng.randrange(len(opt))]
                kws2 = dict(kw_all)
                kws2[k0] = None
                pats.append(("keyword_none", list(range(nreq)), kws2))
        return pats

    def _attr_tok(ap):
        v = _onnx12.helper.get_attribute_value(ap)
        if isinstance(v, bytes):
            v = v.decode("utf-8")
        elif isinstance(v, list):
            v = [x.decode("utf-8") if isinstance(x, bytes) else x for x in v]
        return tok_pyvalue(v)

    em_lines, em_expect = [], []
    # every cell in which a method resolves: the class's own methods with every pattern; INHERITED methods (class version
    # above the bound schema's since_version — the only cells where "import = since_version" and "import = class version"
    # differ) with the first pattern and one seeded other
    em_resolved: dict = {}
    for c, n in cells:
        r = t_resolve(data, c["domain"], c["version"], n)
        if r is not None:
            em_resolved.setdefault(c["name"], []).append((r[1], r[2]["name"] != c["name"]))
    for c in data["classes"]:
        inst = insts.get(c["name"])
        if inst is None:
            continue
        d, N = c["domain"], c["version"]
        for mm, inherited in em_resolved.get(c["name"], []):
            n = mm["name"]
            if mm.get("stub"):
                continue
            if replay_only is not None and not (replay_only.get("cls") == c["name"] and replay_only.get("op") == n):
                continue
            sch = real.get_schema(n, N, d)
            if sch is None or sch.deprecated:
                continue
            pats = _em_patterns(mm, sch)
            if pats is None:
                stats["emodel_skipped_complex_required_attr"] += 1
                continue
            if inherited:
                pats = [pats[0]] + ([pats[1 + run.rng.randrange(len(pats) - 1)]] if len(pats) > 1 else [])
            for kind, aidx, kws in pats:
                args = [None if k is None else _arr(k) for k in aidx]
                if kind == "py_scalar_input":
                    args[1] = float(aidx[1])
                em_captured.clear()
                try:
                    with real.evaluator.default_as(_cap_eval):
                        getattr(inst, n)(*args, **kws)
                    err = None
                except Exception as e:  # noqa: BLE001
                    err = e
                if err is not None or len(em_captured) != 1:
                    msg = f"{type(err).__name__}: {str(err)[:120]}" if err is not None else f"{len(em_captured)} models"
                    # documented refusals outside the modelled path: `compute_num_outputs` cannot tell Split's number of outputs
                    # from these sentinel calls (no `split` values / `num_outputs=None`); four schemas have no OpSignature in
                    # onnx_ir (duplicate parameter name / map types)
                    if err is not None and ((n == "Split" and d == "") or "Duplicate parameter name" in str(err)
                                            or (isinstance(err, KeyError) and d == "ai.onnx.ml")):
                        stats["emodel_refused_documented"] += 1
                        continue
                    # onnx's own validation of the finished one-node model (e.g. a variadic input with no argument at all):
                    # the call did reach `_prepare_model_and_inputs_for_eager`; min-arity is the schema's business, not modelled
                    if err is not None and type(err).__name__ in ("InferenceError", "ValidationError"):
                        stats["emodel_refused_by_onnx_inference"] += 1
                        continue
                    stats["emodel_raised"] += 1
                    oracle_failures.append((c["name"], n, [f"eager call {c['name']}.{n}(inputs {aidx}, {kws}) does not reach the runtime: {msg}"]))
                    continue
                schema_used, model, feeds, in_names = em_captured[0]
                node = model.graph.node[0]
                imports = [(o.domain, int(o.version)) for o in model.opset_import]
                names = list(node.input)
                idx = ["-" if x == "" else (x[5:] if x.startswith("input") else "?" + x) for x in names]
                feed_toks = []
                for fk, fv in feeds.items():
                    fv = _np12.asarray(fv)
                    feed_toks.append(f"{fk[5:] if fk.startswith('input') else '?' + fk}={int(fv.reshape(-1)[0])}")
                real_line = (
                    f"{enc(node.op_type)} {enc(node.domain)} | " + " ".join(idx) + " | "
                    + " ".join(f"{enc(a.name)}={_attr_tok(a)}" for a in node.attribute)
                    + " | " + " ".join(f"{enc(dd)}:{vv}" for dd, vv in imports) + f" | {int(model.ir_version)} | " + " ".join(feed_toks)
                )
                em_lines.append(f"emodel {enc(d)} {N} {enc(n)} {pat_tokens(aidx, kws)}")
                em_expect.append((c["name"], n, real_line, aidx, kws))
                stats["emodel_calls"] += 1
                stats["emodel_kind_" + kind] += 1
                stats["emodel_domain_" + (d or "default")] += 1
                if inherited:
                    stats["emodel_inherited_method"] += 1
                if imports and imports[0][1] < N:
                    stats["emodel_import_below_class_version"] += 1
                if "" in names:
                    stats["emodel_empty_input_name"] += 1
                if len(names) < len(aidx):
                    stats["emodel_trimmed"] += 1
                if any(v is None for v in kws.values()):
                    stats["emodel_none_keyword_dropped"] += 1
                if int(model.ir_version) == 10:
                    stats["emodel_ir_floor_10"] += 1
                elif int(model.ir_version) > 10:
                    stats["emodel_ir_above_10"] += 1
                # --- the property's own statement on the real model (independent of the Lean model)
                probs = []
                try:
                    sch_rt = real.defs.get_schema(node.op_type, imports[0][1], node.domain) if len(imports) == 1 else None
                except Exception:  # noqa: BLE001
                    sch_rt = None
                k_true = (sch.name, int(sch.since_version), sch.domain)
                k_rt = None if sch_rt is None else (sch_rt.name, int(sch_rt.since_version), sch_rt.domain)
                if k_rt != k_true:
                    probs.append(f"the one-node model (op_type {node.op_type!r}, domain {node.domain!r}, opset_import {imports}) denotes {k_rt}; "
                                 f"get_schema({n!r}, {N}, {d!r}) is {k_true}")
                want = list(aidx)
                while want and want[-1] is None:
                    want.pop()
                want_names = ["" if k is None else f"input{i}" for i, k in enumerate(want)]
                if names != want_names:
                    probs.append(f"node inputs {names}, arguments {aidx} (expected {want_names})")
                want_feeds = {f"input{i}": k for i, k in enumerate(want) if k is not None}
                got_feeds = {fk: int(_np12.asarray(fv).reshape(-1)[0]) for fk, fv in feeds.items()}
                if got_feeds != want_feeds:
                    probs.append(f"session feeds {got_feeds}, arguments {aidx} (expected {want_feeds})")
                carried = {a.name: _attr_tok(a) for a in node.attribute}
                for k, v in kws.items():
                    if v is None and k in carried:
                        dv = attr_default_py(sch.attributes[k])
                        if dv is None or tok_pyvalue(dv) != carried[k]:
                            probs.append(f"keyword {k}=None arrives as attribute {carried[k]}")
                    if v is not None and carried.get(k) != tok_pyvalue(v):
                        probs.append(f"keyword {k}={v!r} arrives as {carried.get(k)}")
                for k, tokv in carried.items():
                    if k not in kws:
                        dv = attr_default_py(sch.attributes[k]) if k in sch.attributes else None
                        if dv is None or tok_pyvalue(dv) != tokv:
                            probs.append(f"attribute {k}={tokv} on the node: not written by the caller and not the schema default")
                if probs:
                    oracle_failures.append((c["name"], n, [f"eager {c['name']}.{n}(inputs {aidx}, {kws}): " + probs[0]] + probs[1:]))
    if drv is not None and em_lines:
        outs = drv.ask(em_lines)
        for (cn, n, exp, aidx, kws), o, ln in zip(em_expect, outs, em_lines):
            if o != exp:
                tie_broken.append(f"one-node eager model of {cn}.{n} [{ln}]: real `{exp}` vs model eagerRun `{o}`")
    lap("whole eager path: one-node models")
    # ---------------- T5: numeric eager vs bare node
    numeric_failures = []
    n_numeric = 0
    spec_jobs = []
    flagged = {(a["name"], b) for a, b, _ in failing} | {(a, b) for a, b, _ in oracle_failures}
    for (op, build, req) in NUMERIC_SPECS:
        owners = [c for c in data["classes"] if any(m["name"] == op for m in c["methods"]) and c["name"] in insts]
        if run.tier == "quick" and replay_only is None and len(owners) > 3:
            # quick: first, last and one seeded version of the operator — plus every class the twin or the oracle flagged
            mid = run.rng.choice(owners[1:-1])
            keep = {owners[0]["name"], owners[-1]["name"], mid["name"]} | {cn for cn, n in flagged if n == op}
            owners = [c for c in owners if c["name"] in keep]
        for c in owners:
            spec_jobs.append((c, op, build, req))
    spec_jobs.sort(key=lambda j: (j[0]["name"], j[1]) not in flagged)
    # failing cells first, then every (class defining op) pair; quick and thorough are the same finite list
    for c, op, build, req in spec_jobs:
        if replay_only is not None and not (replay_only.get("cls") == c["name"] and replay_only.get("op") == op):
            continue
        try:
            inputs = build()
        except Exception as e:  # pragma: no cover
            raise core.Infra(f"numeric spec {op} broken: {e}")
        verdict, detail = numeric_compare(real, insts[c["name"]], op, inputs, dict(req))
        stats["numeric_" + verdict] += 1
        if verdict == "equal":
            n_numeric += 1
        elif verdict == "differ":
            numeric_failures.append((c["name"], op, detail, [None if x is None else (str(x.dtype), list(x.shape)) for x in inputs], req))
            if len(numeric_failures) >= 5:
                break  # enough witnesses; failing eager calls are slow (the runtime formats the whole model)
    # numeric probes on failing cells that inherit (class does not define op itself)
    for c, n, why in failing[:20]:
        for (op, build, req) in NUMERIC_SPECS:
            if op == n and c["name"] in insts and not any(m["name"] == op for m in c["methods"]):
                verdict, detail = numeric_compare(real, insts[c["name"]], op, build(), dict(req))
                stats["numeric_" + verdict] += 1
                if verdict == "differ":
                    numeric_failures.append((c["name"], op, detail, [], req))

    lap("numeric eager vs bare on onnxruntime")
    # ---------------- T7: separate_input_attributes_from_arguments (translation path) vs the model, on real signatures
    from onnxscript import ir as _ir
    from onnxscript._internal import param_manipulation as _pm

    sep_lines, sep_exp, sep_cases = [], [], []
    per_schema = run.size(4, 40)
    all_real_schemas = sorted(real.defs.get_all_schemas_with_history(), key=lambda z: (z.domain, z.name, z.since_version))
    for sch in all_real_schemas:
        try:
            sig = _ir.schemas.OpSignature.from_op_schema(sch)
        except Exception:
            stats["sep_signature_unavailable"] += 1
            continue
        params = list(sig.params)
        ptoks = []
        dtok = {}
        for j, prm in enumerate(params):
            is_in = bool(prm.is_param())
            has_d = (not is_in) and bool(prm.has_default())
            if has_d:
                dtok[prm.name] = 900000 + j
            ptoks.append(f"{enc(prm.name)}:{int(is_in)}:{int(bool(is_in and prm.variadic))}:{int(bool(prm.required))}:{dtok.get(prm.name, '-')}")
        for _ in range(per_schema):
            nargs = run.rng.choice([0, 1, 2, len(params), len(params) + 1, run.rng.randint(0, len(params) + 2)])
            args = [1000 + i for i in range(nargs)]
            kwargs = {}
            for prm in params:
                if run.rng.random() < 0.3:
                    kwargs[prm.name] = 2000 + len(kwargs)
            if run.rng.random() < 0.08:
                kwargs["no_such_parameter"] = 2999
            fill, akw, aargs = (run.rng.random() < 0.5), (run.rng.random() < 0.3), (run.rng.random() < 0.6)
            try:
                ins, attrs = _pm.separate_input_attributes_from_arguments(
                    sig, list(args), dict(kwargs), fill_defaults=fill, allow_extra_kwargs=akw, allow_extra_args=aargs
                )
                def tokv(k, v):
                    return v if isinstance(v, int) and not isinstance(v, bool) and v >= 1000 and v < 900000 and (v in args or v in kwargs.values()) else dtok.get(k, 899999)
                exp = "ok | " + " ".join(str(x) for x in ins) + " | " + " ".join(f"{enc(k)}={tokv(k, v)}" for k, v in attrs.items())
                stats["sep_ok_fill" if fill else "sep_ok_nofill"] += 1
                if any(x is None for x in ins):
                    stats["sep_inner_placeholder"] += 1  # an omitted optional input before one given by keyword (b7afd5e)
                if ins and ins[-1] is None:
                    oracle_failures.append((f"{sch.name}({sch.since_version})", "separate_input_attributes_from_arguments",
                                            [f"inputs end in a None placeholder: {ins} for args={args} kwargs={kwargs}"]))
                if not fill:
                    # the property's statement on the real function: nothing but written values
                    if any(not (isinstance(v, int) and (v in args or kwargs.get(k) == v)) for k, v in attrs.items()):
                        oracle_failures.append((f"{sch.name}({sch.since_version})", "separate_input_attributes_from_arguments",
                                                [f"fill_defaults=False produced attributes {dict(attrs)} for args={args} kwargs={kwargs}"]))
            except TypeError as e:
                msg = str(e)
                kind = "unexpectedKw" if msg.startswith("Unexpected keyword") else "missingRequired" if msg.startswith("Required input") else "tooManyArgs" if msg.startswith("Too many positional") else "other:" + msg[:40]
                exp = "ERR:" + kind
                stats["sep_err_" + kind.split(":")[0]] += 1
            sep_lines.append(f"sep {int(fill)} {int(akw)} {int(aargs)} P {' '.join(ptoks)} A {' '.join(map(str, args))} K " + " ".join(f"{enc(k)}={v}" for k, v in kwargs.items()))
            sep_exp.append(exp)
            sep_cases.append((sch.name, sch.since_version))
    if drv is not None:
        outs = drv.ask(sep_lines)
        for ln, e, o, cse in zip(sep_lines, sep_exp, outs, sep_cases):
            if e.rstrip() != o.rstrip():
                tie_broken.append(f"separate_input_attributes_from_arguments on {cse}: real `{e}` vs model `{o}` [{ln[:200]}]")
    stats["separate_cases"] = len(sep_lines)
    lap("separate_input_attributes")
    # ---------------- T8: translation of `op.X(inputs, required attrs)` is the bare node, and computes what eager computes
    from harness import scriptgen

    ANN = {"float32": "FLOAT", "int64": "INT64", "bool": "BOOL", "uint8": "UINT8"}
    bodies, metas = [], []
    tr_versions = [18] if run.tier == "quick" else [13, 17, 18, 19, 20, 21, 22, 23]
    tr_ml = [3, 5] if run.tier == "quick" else [1, 2, 3, 4, 5]
    tr_plan = [("", N, f"opset{N}") for N in tr_versions] + [("ai.onnx.ml", N, f"opset_ai_onnx_ml{N}") for N in tr_ml]
    for si, (op, build, req) in enumerate(NUMERIC_SPECS):
        inputs = build()
        if any(x is None for x in inputs) or any(str(x.dtype) not in ANN for x in inputs):
            continue
        for dom, N, oname in tr_plan:
            sch = real.get_schema(op, N, dom)
            if sch is None or sch.deprecated or len(sch.outputs) != 1 or (dom, N) not in real.all_opsets:
                continue
            sig_s = ", ".join(f"i{j}: {ANN[str(x.dtype)]}[{','.join(map(str, x.shape))}]" if x.shape else f"i{j}: {ANN[str(x.dtype)]}" for j, x in enumerate(inputs))
            call = ", ".join([f"i{j}" for j in range(len(inputs))] + [f"{k}={list(v) if isinstance(v, tuple) else v!r}" for k, v in req.items()])
            name = f"t{si}_{oname}"
            bodies.append((name, f"@script(default_opset={oname})\ndef {name}({sig_s}):\n    return {oname}.{op}({call})\n"))
            metas.append((name, op, (dom, N), inputs, req, sch))
    fn, err, modname = scriptgen.compile_functions(bodies, header_extra="from onnxscript.onnx_opset import " + ", ".join(o for _, _, o in tr_plan) + "\n")
    translation_failures = []
    import onnxruntime as _ort

    for name, op, (dom, N), inputs, req, sch in metas:
        cname = type(real.all_opsets[(dom, N)]).__name__
        if name in err:
            stats["translation_refused"] += 1
            continue
        mp = fn[name].to_model_proto()
        nodes = [nd for nd in mp.graph.node if nd.op_type == op]
        if len(nodes) != 1:
            stats["translation_shape_unexpected"] += 1
            continue
        nd = nodes[0]
        got_attrs = sorted(a.name for a in nd.attribute)
        ver = {o.domain: o.version for o in mp.opset_import}.get(dom)
        stats["translation_nodes"] += 1
        stats["translation_nodes_" + (dom or "default")] += 1
        if got_attrs != sorted(req) or ver != N or nd.domain != dom:
            translation_failures.append((cname, op, f"translated node {nd.domain!r}::{op} carries attributes {got_attrs} at opset {ver}; the call wrote {sorted(req)} with {cname} ({dom!r}, {N})"))
            continue
        try:
            if dom != "" and all(x.domain == dom for x in mp.graph.node):
                # the converter also imports the newest default-domain opset, which this onnxruntime refuses to load;
                # no default-domain node is present, so the import is lowered for the run only
                for o in mp.opset_import:
                    if o.domain == "" and o.version > 21:
                        o.version = 21
            so = _ort.SessionOptions()
            so.log_severity_level = 4
            so.graph_optimization_level = _ort.GraphOptimizationLevel.ORT_DISABLE_ALL
            sess = _ort.InferenceSession(mp.SerializeToString(), so, providers=["CPUExecutionProvider"])
            g = sess.run(None, {f"i{j}": x for j, x in enumerate(inputs)})
        except Exception:
            stats["translation_not_runnable"] += 1
            continue
        try:
            e = as_list(getattr(real.all_opsets[(dom, N)], op)(*inputs, **req))
        except Exception as ex:
            translation_failures.append((cname, op, f"translated model runs, eager call raises {type(ex).__name__}"))
            continue
        if arrays_equal(e, g):
            stats["translation_equal"] += 1
            stats["translation_equal_" + (dom or "default")] += 1
        else:
            translation_failures.append((cname, op, f"eager {[np.asarray(x).reshape(-1)[:4].tolist() for x in e]} vs translated graph {[x.reshape(-1)[:4].tolist() for x in g]}"))
    scriptgen.release(modname)
    lap("translation vs eager")
    # ---------------- T10: the exported model means the opset CLASS used in the body
    # (a) exported with an explicit `opset_version` different from the class (documented: only "if it cannot be inferred");
    # (b) two opset classes of one domain mixed in one function (the converter refuses; if it translates, every node must
    #     still mean what its class binds).  Version-sensitive operators, so a re-stamped node computes something else.
    VS = [  # (operator, class version, extra call arguments, input shape)
        ("Softmax", 11, "axis=1", (2, 3, 4)), ("LogSoftmax", 11, "axis=1", (2, 3, 4)), ("Hardmax", 11, "axis=1", (2, 3, 4)),
        ("Softmax", 11, "", (2, 3, 4)), ("LogSoftmax", 11, "", (2, 3, 4)),
        ("Softmax", 13, "axis=1", (2, 3, 4)), ("LogSoftmax", 13, "axis=1", (2, 3, 4)), ("Hardmax", 13, "axis=1", (2, 3, 4)),
        ("Softmax", 1, "axis=1", (2, 3, 4)),
        ("ReduceSum", 11, "axes=[1], keepdims=0", (2, 3, 4)), ("ReduceSum", 1, "axes=[1]", (2, 3, 4)),
        ("Squeeze", 11, "axes=[0]", (1, 3, 4)), ("Unsqueeze", 11, "axes=[0]", (3, 4)),
        ("ReduceMean", 13, "axes=[1]", (2, 3, 4)), ("Relu", 13, "", (2, 3)), ("Relu", 6, "", (2, 3)),
    ]
    if run.tier == "thorough":
        VS += [("ReduceMax", 13, "axes=[1]", (2, 3, 4)), ("ReduceProd", 11, "axes=[2]", (2, 3, 4)), ("Softmax", 13, "", (2, 3, 4)),
               ("Hardmax", 11, "", (2, 3, 4)), ("ReduceL2", 13, "axes=[0]", (2, 3, 4)), ("Squeeze", 1, "axes=[0]", (1, 3, 4))]
    t10_bodies, t10_meta = [], []
    used_versions = sorted({v for _, v, _, _ in VS} | {18})

    def _shape_ann(shape):
        return f"FLOAT[{','.join(map(str, shape))}]"

    for k, (op, N, extra, shape) in enumerate(VS):
        call = "x" + (", " + extra if extra else "")
        # (a) plain single-class function; exported below with several explicit versions, and once via the decorator
        name = f"v{k}"
        t10_bodies.append((name, f"@script(default_opset=opset{N})\ndef {name}(x: {_shape_ann(shape)}):\n    return opset{N}.{op}({call})\n"))
        t10_meta.append((name, "explicit", op, N, shape, None))
        other = 13 if N != 13 else 11
        named = f"d{k}"
        t10_bodies.append((named, f"@script(default_opset=opset{N}, opset_version={other})\ndef {named}(x: {_shape_ann(shape)}):\n    return opset{N}.{op}({call})\n"))
        t10_meta.append((named, "decorator", op, N, shape, other))
        # (b) mixed with opset18.Identity, both orders
        if N != 18:
            m1 = f"m{k}"
            t10_bodies.append((m1, f"@script(default_opset=opset18)\ndef {m1}(x: {_shape_ann(shape)}):\n    y = opset18.Identity(x)\n    return opset{N}.{op}({call.replace('x', 'y', 1)})\n"))
            t10_meta.append((m1, "mixed", op, N, shape, None))
            m2 = f"n{k}"
            t10_bodies.append((m2, f"@script(default_opset=opset{N})\ndef {m2}(x: {_shape_ann(shape)}):\n    y = opset{N}.{op}({call})\n    return opset18.Identity(y)\n"))
            t10_meta.append((m2, "mixed", op, N, shape, None))
    # the documented use of the option: no default-domain operator in the body
    t10_bodies.append(("u0", "@script(default_opset=opset_ai_onnx_ml3)\ndef u0(x: FLOAT[2,3]):\n    return opset_ai_onnx_ml3.Scaler(x)\n"))
    t10_meta.append(("u0", "option-applies", "Scaler", 3, (2, 3), None))
    import warnings as _warnings

    with _warnings.catch_warnings():
        _warnings.simplefilter("ignore")
        fn10, err10, mod10 = scriptgen.compile_functions(
            t10_bodies, header_extra="from onnxscript.onnx_opset import opset_ai_onnx_ml3, " + ", ".join(f"opset{v}" for v in used_versions) + "\n")

    def _since(op, ver):
        sc = real.get_schema(op, ver, "")
        return None if sc is None else int(sc.since_version)

    def _judge(label, name, op, N, shape, mp, f):
        """exported model `mp` of function `f` whose body used OpsetN.op: import vs class, numbers vs eager"""
        x = _x(shape, seed=3)
        imp = {o.domain: o.version for o in mp.opset_import}.get("")
        nodes = [nd for nd in mp.graph.node if nd.op_type == op and nd.domain == ""]
        stats["t10_models"] += 1
        bad_import = bool(nodes) and _since(op, imp) != _since(op, N)
        detail_num = None
        try:
            with _warnings.catch_warnings():
                _warnings.simplefilter("ignore")
                e = as_list(f(x))
        except Exception as ex:
            e = None
            stats["t10_eager_raises"] += 1
        try:
            so = _ort.SessionOptions()
            so.log_severity_level = 4
            so.graph_optimization_level = _ort.GraphOptimizationLevel.ORT_DISABLE_ALL
            g = _ort.InferenceSession(mp.SerializeToString(), so, providers=["CPUExecutionProvider"]).run(None, {"x": x})
        except Exception as ex:
            g = None
            stats["t10_model_not_runnable"] += 1
        if e is not None and g is not None:
            if arrays_equal(e, g):
                stats["t10_equal"] += 1
            else:
                md = float(np.max(np.abs(np.asarray(e[0], dtype=np.float64) - np.asarray(g[0], dtype=np.float64)))) if np.asarray(e[0]).shape == np.asarray(g[0]).shape else float("nan")
                detail_num = f"eager {np.asarray(e[0]).reshape(-1)[:4].tolist()} vs exported model on onnxruntime {np.asarray(g[0]).reshape(-1)[:4].tolist()} (max abs diff {md:.3g}, shapes {np.asarray(e[0]).shape}/{np.asarray(g[0]).shape})"
        if bad_import or detail_num:
            what = f"{label}: body uses opset{N}.{op} = {op}({_since(op, N)}); exported model imports opset {imp}, where {op} means {op}({_since(op, imp)})"
            if detail_num:
                what += "; " + detail_num
            elif e is not None and g is None:
                what += "; eager runs, the exported model is not loadable"
            translation_failures.append((f"Opset{N}", op, what + f"; input float32{list(shape)} seed 3"))
        else:
            stats["t10_import_means_class"] += 1

    for name, kind, op, N, shape, other in t10_meta:
        if name in err10:
            stats[f"t10_{kind}_refused"] += 1
            if kind in ("explicit", "decorator", "option-applies"):
                tie_broken.append(f"T10 script {name} ({kind}, opset{N}.{op}) refused: {err10[name]}")
            continue
        f = fn10[name]
        try:
            if kind == "explicit":
                for V in sorted({11, 13, 18} - {N}):
                    _judge(f"to_model_proto(opset_version={V})", name, op, N, shape, f.to_model_proto(opset_version=V), f)
                    stats["t10_explicit_version_exports"] += 1
                _judge("to_model_proto()", name, op, N, shape, f.to_model_proto(), f)
            elif kind == "decorator":
                _judge(f"@script(opset_version={other})", name, op, N, shape, f.to_model_proto(), f)
                stats["t10_decorator_version_exports"] += 1
            elif kind == "mixed":
                stats["t10_mixed_translated"] += 1
                _judge("two opset classes in one function (opset18.Identity + this)", name, op, N, shape, f.to_model_proto(), f)
            else:
                mp = f.to_model_proto(opset_version=15)
                imp = {o.domain: o.version for o in mp.opset_import}
                stats["t10_option_applies"] += 1
                if imp.get("") != 15 or imp.get("ai.onnx.ml") != 3:
                    translation_failures.append(("Opset_ai_onnx_ml3", "Scaler", f"no default-domain operator in the body, to_model_proto(opset_version=15) imports {imp}"))
        except Exception as ex:
            translation_failures.append((f"Opset{N}", op, f"{kind}: exporting {name} raised {type(ex).__name__}: {str(ex)[:200]}"))
    scriptgen.release(mod10)
    lap("exported model means the class used (explicit opset_version, mixed classes)")
    # ---------------- T11: converter default opset / exported imports vs the model `convert` + `exportImports`
    ML = "ai.onnx.ml"
    POOL = [("", 11, "opset11", "Relu"), ("", 13, "opset13", "Relu"), ("", 18, "opset18", "Relu"), ("", 18, "opset18", "Identity"),
            (ML, 3, "opset_ai_onnx_ml3", "Scaler"), (ML, 2, "opset_ai_onnx_ml2", "Binarizer"), (ML, 3, "opset_ai_onnx_ml3", "Normalizer")]
    DECL = [None, ("", 11, "opset11"), ("", 13, "opset13"), ("", 18, "opset18"), (ML, 3, "opset_ai_onnx_ml3")]
    HDR11 = "from onnxscript.onnx_opset import opset11, opset13, opset18, opset_ai_onnx_ml2, opset_ai_onnx_ml3\n"
    cur_ver = int(real.defs.onnx_opset_version())
    conv_cases = []
    # directed: every declared option x {one class, same class twice, two '' versions, ml only, ml two versions, implicit first/last}
    directed_bodies = [[0], [0, 0], [0, 1], [1, 0], [2, 3], [4], [4, 4], [4, 5], [5, 4, 0], [4, "i"], ["i", 1], ["i"], [0, "i", 0], [4, 0, 5, "i"], [2, 4, 1]]
    for decl in DECL:
        for body in directed_bodies:
            conv_cases.append((decl, body))
    for _ in range(run.size(60, 600)):
        body = [("i" if run.rng.random() < 0.15 else run.rng.randrange(len(POOL))) for _ in range(run.rng.randint(1, 5))]
        conv_cases.append((run.rng.choice(DECL), body))
    conv_lines, conv_exp, conv_src = [], [], []
    for ci, (decl, body) in enumerate(conv_cases):
        lines_, evs = [], []
        for ev in body:
            if ev == "i":
                lines_.append("    y = -y")
                evs.append("i")
            else:
                d, v, oname, opn = POOL[ev]
                lines_.append(f"    y = {oname}.{opn}(y)")
                evs.append(f"c:{enc(d)}:{v}")
        deco = "@script()" if decl is None else f"@script(default_opset={decl[2]})"
        src = f"{deco}\ndef k{ci}(x: FLOAT[2,3]):\n    y = x\n" + "\n".join(lines_) + "\n    return y\n"
        with _warnings.catch_warnings(record=True) as wlist:
            _warnings.simplefilter("always")
            fn11, err11, mod11 = scriptgen.compile_functions([(f"k{ci}", src)], header_extra=HDR11)
        scriptgen.release(mod11)
        conflicts = []
        for w in wlist:
            mm = re.match(r"Version conflict: domain: '([^']*)', versions (\d+) and (\d+) used\.", str(w.message))
            if mm:
                conflicts.append(f"{enc(mm.group(1))}:{mm.group(2)}:{mm.group(3)}")
        for opt in (None, 15):
            if f"k{ci}" in err11:
                cls_, msg_ = err11[f"k{ci}"]
                if "Two distincts opset were used" in msg_:
                    exp = "ERR:twoOpsets"
                elif "default_opset must be specified" in msg_:
                    exp = "ERR:noDefault"
                else:
                    exp = f"ERR:other:{cls_}:{msg_[:60]}"
                stats["conv_" + exp.split(":")[1]] += 1
            else:
                try:
                    mp = fn11[f"k{ci}"].to_model_proto(opset_version=opt) if opt is not None else fn11[f"k{ci}"].to_model_proto()
                    imps = [(o.domain, int(o.version)) for o in mp.opset_import]
                    exp = "ok " + " ".join(f"{enc(d)}:{v}" for d, v in imps) + " | " + " ".join(conflicts)
                    stats["conv_ok"] += 1
                    if conflicts:
                        stats["conv_ok_with_version_conflict_warning"] += 1
                    # the clause itself, on the real export: every default-domain class called in the body is the '' import;
                    # the option is used only when nothing of the default domain was emitted
                    used = sorted({POOL[ev][1] for ev in body if ev != "i" and POOL[ev][0] == ""})
                    got = dict(imps).get("")
                    has_default_node = any(nd.domain == "" for nd in mp.graph.node)
                    if used and got not in used:
                        oracle_failures.append((f"Opset{used[0]}", "<export>", [f"body calls default-domain opset class(es) {used}, exported '' import is {got} (opset_version={opt}); script:\n{src}"]))
                    elif not has_default_node and got != (opt if opt is not None else cur_ver):
                        oracle_failures.append(("OnnxFunction", "<export>", [f"no default-domain node, opset_version={opt}, exported '' import is {got}; script:\n{src}"]))
                    if not has_default_node:
                        stats["conv_option_applies"] += 1
                    elif opt is not None:
                        stats["conv_option_ignored"] += 1
                except Exception as ex:
                    exp = f"ERR:export:{type(ex).__name__}"
            decl_tok = "-" if decl is None else f"{enc(decl[0])}:{decl[1]}"
            conv_lines.append(f"conv {decl_tok} {'-' if opt is None else opt} {cur_ver} " + " ".join(evs))
            conv_exp.append(exp)
            conv_src.append(src)
    if drv is not None:
        outs = drv.ask(conv_lines)
        for ln, e, o, src in zip(conv_lines, conv_exp, outs, conv_src):
            if e.rstrip() != o.rstrip():
                tie_broken.append(f"converter opset imports [{ln}]: real `{e}` vs model `{o}`; script:\n{src}")
                break
    stats["conv_cases"] = len(conv_lines)
    lap("converter default opset / exported imports")
    # ---------------- T6: the generator in /repo/opgen, run in-process, regenerates exactly these classes
    generator_failures: list[tuple[str, str, list[str]]] = []
    generator_stale: list[str] = []
    try:
        regen = X.regenerate(core.REPO)
    except Exception as e:
        regen = None
        generator_stale.append(f"opgen.onnx_opset_builder.OpsetsBuilder.build() raised {type(e).__name__}: {str(e)[:200]}")
    if regen is not None:
        a, b = X.strip_positions(regen["classes"]), X.strip_positions(data["classes"])
        stats["generator_methods"] = sum(len(c["methods"]) for c in regen["classes"])
        if a != b or regen["exports"] != data["exports"]:
            for k in sorted(set(a) | set(b)):
                if k not in a or k not in b:
                    generator_stale.append(f"class {k}: {'only in the checked-in files' if k in b else 'only in the generator output'}")
                elif a[k] != b[k]:
                    for mk in sorted(set(a[k]["methods"]) | set(b[k]["methods"])):
                        if a[k]["methods"].get(mk) != b[k]["methods"].get(mk):
                            generator_stale.append(f"{k}.{mk}: generator output differs from the checked-in method")
                    if {x: a[k][x] for x in ("base", "domain", "version", "ok")} != {x: b[k][x] for x in ("base", "domain", "version", "ok")}:
                        generator_stale.append(f"class {k}: header differs")
            if regen["exports"] != data["exports"]:
                generator_stale.append("onnx_opset/__init__.py: exports differ from the generator output")
            data_regen = dict(data, classes=regen["classes"], exports=regen["exports"])
            cells_r, _ = all_cells(data_regen)
            # a generator that stops emitting the stubs of 52a48cf fails the deprecated cells here
            listed_regen = frozenset()
            for c, n in cells_r:
                ok, mir, why, _st, _ag = t_cell(data_regen, c["domain"], c["version"], n, listed_regen)
                if not ok:
                    generator_failures.append((c["name"], n, why))
            for w in t_structural(data_regen):
                generator_failures.append(("<classes>", "<structure>", [w]))
    lap("generator regeneration")
    run.coverage["phase_seconds"] = phase
    # ---------------- verdict
    findings = {f["id"]: f for f in run.open_findings()}
    reported = False
    if known_dep:
        stats["known_deprecated_inherited_cells"] = len(known_dep)
        if FINDING_DEPRECATED in findings:
            cn, n, what = known_dep[0]
            run.known(FINDING_DEPRECATED, f"{what}  (+{len(known_dep) - 1} more cells: {sorted({x[1] for x in known_dep})})")
            allowed = set(findings[FINDING_DEPRECATED].get("predicate", {}).get("ops", []))
            extra = sorted({x[1] for x in known_dep} - allowed)
            if extra:
                run.violation({"cls": known_dep[0][0], "op": extra[0], "kind": "deprecated-inherited", "ops": extra},
                              f"deprecated operator(s) {extra} still callable through an inherited method, outside the listed finding")
        else:
            cn, n, what = known_dep[0]
            run.violation({"cls": cn, "op": n, "kind": "deprecated-inherited (regression of the fixed finding C17-F1)", "detail": what,
                           "cells": [(a, b) for a, b, _ in known_dep[:40]]}, what)
            reported = True

    if numeric_failures:
        cn, op, detail, shapes, req = numeric_failures[0]
        run.violation(
            {"cls": cn, "op": op, "kind": "numeric", "inputs": shapes, "required_attrs": {k: (list(v) if isinstance(v, tuple) else v) for k, v in req.items()},
             "detail": detail, "others": [(a, b) for a, b, *_ in numeric_failures[1:10]]},
            f"{cn}.{op} called eagerly with defaults left out differs from the bare node on onnxruntime: {detail}",
        )
        reported = True
    if oracle_failures:
        oracle_failures.sort(key=lambda t: (t[1] != "<export>", t[1] != "<history>", len(t[2])))
        cn, n, probs = oracle_failures[0]
        run.violation(
            {"cls": cn, "op": n, "kind": "signature/forwarding on the imported class vs onnx.defs", "problems": probs,
             "others": [(a, b) for a, b, _ in oracle_failures[1:15]], "count": len(oracle_failures)},
            f"{cn}.{n}: " + "; ".join(probs[:3]),
        )
        reported = True
    if translation_failures:
        cn, n, detail = translation_failures[0]
        run.violation({"cls": cn, "op": n, "kind": "translation", "detail": detail, "others": translation_failures[1:10]},
                      f"{cn}.{n} in a script: {detail}")
        reported = True
    if generator_failures:
        cn, n, why = generator_failures[0]
        sc = t_lookup(data, next((c["domain"] for c in data["classes"] if c["name"] == cn), ""),
                      next((c["version"] for c in data["classes"] if c["name"] == cn), 0), n)
        run.violation(
            {"kind": "generator", "cls": cn, "op": n, "why": why,
             "input": f"schema {sc['domain']}::{sc['name']}({sc['since']})" if sc else None,
             "how": "X.regenerate: /repo/opgen OpsetsBuilder(module_base_name='onnxscript.onnx_opset', min_default_opset_version=14, "
                    "exclude ai.onnx.preview.training/1).build(), rendered by pygen.PythonWriter, nothing written",
             "others": [(a, b) for a, b, _ in generator_failures[1:15]], "count": len(generator_failures)},
            f"the generator in /repo/opgen, run on the installed onnx schemas, emits {cn}.{n} that does not mirror the schema: {'; '.join(why[:2])}",
        )
        reported = True
    lean_failed = not audit["ok"]
    if (failing or structural or tie_broken or lean_failed or generator_stale) and not reported:
        what = []
        case: dict[str, Any] = {"kind": "table/tie"}
        if failing:
            c, n, why = failing[0]
            case.update(cls=c["name"], op=n, why=why, failing_cells=[(a["name"], b) for a, b, _ in failing[:20]])
            what.append(f"cell ({c['name']}, {n}) of the regenerated table fails `cellOk`: {'; '.join(why[:2])}")
        if structural:
            case["structural"] = structural[:10]
            what.append(structural[0])
        if tie_broken:
            case["tie"] = tie_broken[:10]
            what.append("model != implementation: " + tie_broken[0])
        if generator_stale:
            case["generator"] = generator_stale[:10]
            what.append("checked-in generated classes != what /repo/opgen generates today (both mirror the schemas): " + generator_stale[0])
        if lean_failed:
            case["lean"] = audit["problems"][:5]
            case["log"] = audit["build_log"][-1200:]
            what.append("Lean obligations of OV.Props.C17 do not check: " + "; ".join(audit["problems"][:2]))
        run.violation(case, " | ".join(what) + " — no call found on which the real class disagrees with onnx.defs", no_input=True)
    elif lean_failed and reported:
        stats["lean_failed_with_replay"] = 1

    for c, n in (cells[:: max(1, len(cells) // 6)])[:6]:
        ok, mir, _stub, _ag = twin[(c["name"], n)]
        run.sample({"cls": c["name"], "op": n, "cellOk": ok, "mirrors": mir})
    run.coverage.update(
        evaluations=len(cells) + stats["executed_method_calls"] + stats["dynamic_lookups"] + n_prep + stats["numeric_equal"] + stats["numeric_differ"],
        distinct_nontrivial=stats["cell_SM"] + stats["cell_SMd"] + stats["cell_S-"] + stats["cell_S-d"] + stats["cell_-M"],
        rule="(generated class, operator name) cells in which a schema is in force or a method resolves; every cell of the grid "
        "classes x names-of-the-domain is evaluated by the kernel, by the twin, and against the imported class",
        traces_validated_against_impl=stats["oracle_cells"] + stats["executed_method_calls"] + n_prep,
        distribution=dict(stats),
        exhaustive=True,
        explanation="the quantifier of the table theorems is the finite grid (33 classes x all operator names of the domain), enumerated "
        "completely in both tiers; names outside the grid are covered by the general theorem `cell_all`",
    )
    if replay_only is None:
        required = ["hist_directed_old_then_new", "hist_directed_new_then_old", "hist_directed_cross_domain", "hist_getitem_hit",
                    "hist_getitem_miss", "hist_contains_hit", "hist_contains_miss", "hist_getattr_hit", "hist_getattr_miss",
                    "hist_new_generated", "hist_new_UserOpset", "hist_domain_ai.onnx.ml", "hist_domain_ai.onnx.preview",
                    "hist_domain_my.domain", "executed_trim_yes", "executed_trim_no", "sep_ok_nofill", "sep_ok_fill",
                    "sep_inner_placeholder", "sep_err_missingRequired", "sep_err_unexpectedKw", "sep_err_tooManyArgs", "translation_equal_default",
                    "translation_equal_ai.onnx.ml", "t10_explicit_version_exports", "t10_decorator_version_exports", "t10_equal",
                    "t10_import_means_class", "t10_mixed_refused", "t10_option_applies", "conv_ok", "conv_twoOpsets", "conv_noDefault",
                    "conv_ok_with_version_conflict_warning", "conv_option_applies", "conv_option_ignored", "deprecated_stub_raises", "cell_stub", "emodel_kind_defaults_omitted", "emodel_kind_all_trailing_none",
                    "emodel_kind_inner_none", "emodel_kind_only_none", "emodel_kind_variadic_inner_none", "emodel_kind_variadic_empty",
                    "emodel_kind_all_keywords", "emodel_kind_keyword_none", "emodel_kind_py_scalar_input", "emodel_domain_default", "emodel_domain_ai.onnx.ml",
                    "emodel_domain_ai.onnx.preview", "emodel_empty_input_name", "emodel_trimmed", "emodel_none_keyword_dropped",
                    "emodel_ir_floor_10", "emodel_ir_above_10", "emodel_inherited_method", "emodel_import_below_class_version", "prep_trimmed_0", "prep_trimmed_1", "prep_trimmed_3", "cell_SM", "cell_--"]
        zero = [k for k in required if not stats[k]]
        # a zero counter with a clean verdict means the generator degenerated; with a violation already printed it is a consequence
        if zero and not run.violations:
            raise core.Infra(f"coverage counters at zero: {zero}")
    if stats["numeric_equal"] + stats["numeric_differ"] < 100 and replay_only is None and not run.violations:
        raise core.Infra(f"numeric stream degenerated: only {stats['numeric_equal']} comparable eager/bare pairs")
