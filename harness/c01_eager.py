"""C01 — the eager calling convention (OnnxFunction.__call__ → eval_function): tie and oracle.

Three voices on every generated call `fn(*args, **kwargs)`:
  real    the real `eval_function` (tag_arguments_with_signature, _adapt_to_eager_mode, _adapt_to_user_mode), with the
          Python function of the OnnxFunction replaced by a recorder that binds its arguments with the *original*
          function's own signature (CPython's binding) and returns the values of the tensor parameters;
  model   `drv_c01 eager …` (OV/Model/C01Eager.lean; theorems `eager_is_python`, `eager_tagging_is_python_binding`, …);
  python  the property's reference, written here independently of /repo: bind the caller's arguments with
          `inspect.signature(original).bind`, then promote the value of every tensor parameter.
real ≠ python where python is defined → property failure with the call as input; python refuses and real accepts →
property failure too (that was finding C01-D49 until 29a1f68; its two witnesses are must-be-refused regression cases).  real ≠ model → correspondence broken.  Signatures come from real `script()` decorations (the
`op_signature` the converter derived and `inspect.signature` of the function are sent separately; Lean decides the
hypothesis `sigMatch` of the theorems on each).  Each OnnxFunction object is called many times in sequence.
"""
from __future__ import annotations

import inspect
from collections import Counter

import numpy as np

from harness import core, scriptgen

TENSORS = ["A", "B", "C", "X"]
ATTRS = [("alpha", "float", 2.0), ("beta", "float", 0.5), ("k", "int", 3), ("flag", "bool", True), ("axis", "int", -1)]


def gen_signature(rng, name: str) -> tuple[str, dict]:
    nt = rng.choice([1, 2, 2, 3])
    na = rng.choice([0, 1, 1, 2])
    tens = rng.sample(TENSORS, nt)
    attrs = rng.sample(ATTRS, na)
    required = []
    defaulted = []
    for a in attrs:
        (defaulted if rng.random() < 0.6 else required).append(a)
    front = [("t", t) for t in tens] + [("a", a) for a in required]
    if required and rng.random() < 0.6:
        rng.shuffle(front)  # a required attribute between / before the tensor parameters
    parts = []
    for kind, p in front:
        if kind == "t":
            ann = "FLOAT[...]" if rng.random() < 0.8 else "INT64[...]"
            parts.append(f"{p}: {ann}")
        else:
            parts.append(f"{p[0]}: {p[1]}")
    for a in defaulted:
        parts.append(f"{a[0]}: {a[1]} = {a[2]!r}")
    first = tens[0]
    src = f"@script(default_opset=op)\ndef {name}({', '.join(parts)}):\n    return op.Identity({first})\n"
    return src, {"name": name, "src": src, "interleaved": [k for k, _ in front] != sorted([k for k, _ in front], reverse=True)}


class Vals:
    """Python values and their wire form, built together."""

    def __init__(self, rng):
        self.rng = rng
        self.arrays: list[np.ndarray] = []
        self.ids: dict[int, int] = {}
        self.kinds: Counter = Counter()

    def new_array(self) -> int:
        k = len(self.arrays)
        a = np.array([float(k), 1.0], dtype=np.float32)
        self.arrays.append(a)
        self.ids[id(a)] = k
        return k

    def tensor_value(self, depth=0, p_other=0.06):
        """→ (python value, sexp) for a tensor parameter"""
        from onnxscript import tensor

        r = self.rng.random()
        if r < 0.45:
            k = self.new_array()
            self.kinds["arr"] += 1
            return self.arrays[k], f"(arr {k})"
        if r < 0.60:
            k = self.new_array()
            self.kinds["ten"] += 1
            return tensor.Tensor(self.arrays[k]), f"(ten {k})"
        if r < 0.66:
            b = self.rng.random() < 0.5
            self.kinds["bool"] += 1
            return b, f"(bool {int(b)})"
        if r < 0.72:
            x = self.rng.choice([0.0, 2.5, -1.0, 1e-3, 3.0])
            self.kinds["float"] += 1
            return x, f"(flt {x!r})"
        if r < 0.78:
            i = self.rng.choice([0, 1, -1, 7, 2 ** 40, -(2 ** 63), 2 ** 63 - 1])
            self.kinds["int"] += 1
            return i, f"(int {i})"
        if r < 0.82:
            self.kinds["none"] += 1
            return None, "none"
        if r < 0.82 + p_other:
            which = self.rng.choice(["str", "float32", "dict", "int64", "complex"])
            self.kinds["other"] += 1
            v = {"str": "x", "float32": np.float32(1.5), "dict": {}, "int64": np.int64(3), "complex": 1j}[which]
            return v, f"(other {type(v).__name__})"
        if depth >= 2:
            k = self.new_array()
            self.kinds["arr"] += 1
            return self.arrays[k], f"(arr {k})"
        n = self.rng.choice([0, 1, 2, 3])
        items = [self.tensor_value(depth + 1, p_other=0.03) for _ in range(n)]
        if self.rng.random() < 0.5:
            self.kinds["list"] += 1
            return [v for v, _ in items], "(list" + "".join(" " + s for _, s in items) + ")"
        self.kinds["tuple"] += 1
        return tuple(v for v, _ in items), "(tuple" + "".join(" " + s for _, s in items) + ")"

    def attr_value(self, ty: str):
        r = self.rng.random()
        if r < 0.1:
            self.kinds["attr-foreign"] += 1
            return "s", "(other str)"
        if r < 0.15:
            k = self.new_array()
            self.kinds["attr-array"] += 1
            return self.arrays[k], f"(arr {k})"
        if ty == "float":
            x = self.rng.choice([0.0, 1.5, -2.0])
            return x, f"(flt {x!r})"
        if ty == "int":
            i = self.rng.choice([0, 1, -1, 5])
            return i, f"(int {i})"
        b = self.rng.random() < 0.5
        return b, f"(bool {int(b)})"

    # canonical form of a value observed on the real side
    def canon(self, v) -> str:
        from onnxscript import tensor

        if isinstance(v, tensor.Tensor):
            a = v.value
            if id(a) in self.ids:
                return f"(ten {self.ids[id(a)]})"
            return f"(ten np:{a.dtype}:{a.item()!r})" if a.ndim == 0 else f"(ten np:{a.dtype}:{a.tolist()!r})".replace(" ", "")
        if isinstance(v, np.ndarray):
            if id(v) in self.ids:
                return f"(arr {self.ids[id(v)]})"
            return f"(arr np:{v.dtype}:{v.item()!r})" if v.ndim == 0 else f"(arr np:{v.dtype}:{v.tolist()!r})".replace(" ", "")
        if v is None:
            return "none"
        if isinstance(v, bool):
            return f"(bool {int(v)})"
        if isinstance(v, float):
            return f"(flt {v!r})"
        if isinstance(v, int):
            return f"(int {v})"
        if isinstance(v, list):
            return "(list" + "".join(" " + self.canon(x) for x in v) + ")"
        if isinstance(v, tuple):
            return "(tuple" + "".join(" " + self.canon(x) for x in v) + ")"
        return f"(other {type(v).__name__})"


def err_kind(e: BaseException) -> str:
    m = str(e)
    cls = type(e).__name__
    if "Unexpected keyword arguments" in m:
        k = "unexpectedKw"
    elif "was not provided" in m or "missing" in m and "required" in m:
        k = "missing"
    elif "Unexpected input type" in m:
        k = "badInput"
    elif "Unexpected type" in m:
        k = "badOutput"
    elif "positional argument" in m and "given" in m or "too many positional" in m.lower():
        k = "tooMany"
    elif "unexpected keyword argument" in m or "multiple values" in m:
        k = "badKw"
    else:
        k = "other:" + m[:60].replace(" ", "_")
    return f"{cls}:{k}"


def real_call(fn, orig, osig, sig_params, args, kwargs, vals: "Vals", allow: bool, retbool: bool) -> dict:
    """the real eval_function on this call; the Python function is replaced by a recorder for the duration"""
    from onnxscript._internal import evaluator

    rec = {}

    def recorder(*a, **k):
        ba = osig.bind(*a, **k)  # CPython's own binding rules for the original `def`
        ba.apply_defaults()
        rec["env"] = dict(ba.arguments)
        out = tuple(ba.arguments[p["name"]] for p in sig_params if p["in"])
        return out + (True,) if retbool else out

    def env_s():
        return "(env" + "".join(f" ({n} {vals.canon(v)})" for n, v in rec["env"].items()) + ")"

    fn.function = recorder
    try:
        ev = evaluator.ORTEvaluator(ignore_unknown_function_kwargs=allow)
        with evaluator.default_as(ev):
            try:
                out = fn(*args, **kwargs)
                if "env" not in rec:
                    return {"ok": False, "err": "NoError:body-not-reached"}
                return {"ok": True, "env": env_s(), "out": "ok:" + vals.canon(out)}
            except Exception as e:  # noqa: BLE001
                if "env" in rec:
                    return {"ok": True, "env": env_s(), "out": "err:" + err_kind(e)}
                return {"ok": False, "err": err_kind(e)}
    finally:
        fn.function = orig


def model_driver() -> core.Driver:
    """the compiled driver (already built under the lock by the main stream of the check)"""
    path = core.LEAN / ".lake" / "build" / "bin" / "drv_c01"
    if not path.exists():
        return core.Driver("C01")
    d = core.Driver.__new__(core.Driver)
    d.prop, d.path, d.lines = "C01", path, 0
    return d


def _parse(s: str):
    toks = s.replace("(", " ( ").replace(")", " ) ").split()
    pos = [0]

    def rd():
        t = toks[pos[0]]
        pos[0] += 1
        if t != "(":
            return t
        out = []
        while toks[pos[0]] != ")":
            out.append(rd())
        pos[0] += 1
        return out

    return rd()


def decode_value(t, vals: "Vals"):
    """wire form → Python value (arrays are re-created under the same numbers)"""
    from onnxscript import tensor

    def arr(k: int):
        while len(vals.arrays) <= k:
            vals.new_array()
        return vals.arrays[k]

    if t == "none":
        return None
    tag = t[0]
    if tag == "arr":
        return arr(int(t[1]))
    if tag == "ten":
        return tensor.Tensor(arr(int(t[1])))
    if tag == "bool":
        return t[1] == "1"
    if tag == "flt":
        return float(t[1])
    if tag == "int":
        return int(t[1])
    if tag == "list":
        return [decode_value(x, vals) for x in t[1:]]
    if tag == "tuple":
        return tuple(decode_value(x, vals) for x in t[1:])
    return {"str": "x", "float32": np.float32(1.5), "dict": {}, "int64": np.int64(3), "complex": 1j}[t[1]]


def gen_call(rng, vals: Vals, sig_params, py_params):
    """One call shape; returns (args, kwargs, args_sexp, kwargs_sexp, tags)."""
    n = len(py_params)
    names = [p[0] for p in py_params]
    is_input = {p["name"]: p["in"] for p in sig_params}
    ty = {a[0]: a[1] for a in ATTRS}
    tags = []
    shape = rng.choice(["pos", "pos", "kw", "mixed", "mixed", "mixed", "surplus", "dup", "unknown", "missing", "few"])
    npos = {"pos": n, "kw": 0, "surplus": n + rng.choice([1, 2])}.get(shape, rng.randrange(0, n + 1))
    if shape == "dup" and npos == 0:
        npos = 1
    if shape == "few":
        npos = rng.randrange(0, n)

    def value_for(name):
        if is_input.get(name, True):
            return vals.tensor_value()
        return vals.attr_value(ty.get(name, "float"))

    args, args_s = [], []
    for i in range(npos):
        v, s = value_for(names[i]) if i < n else vals.tensor_value()
        args.append(v)
        args_s.append(s)
    kw_names = []
    for i in range(min(npos, n), n):
        has_default = py_params[i][1]
        if shape == "few":
            continue
        if has_default and rng.random() < 0.5:
            tags.append("default-omitted")
            continue
        if shape == "missing" and not kw_names and rng.random() < 0.7:
            tags.append("left-out")
            continue
        kw_names.append(names[i])
    if shape == "dup":
        kw_names.append(rng.choice(names[:min(npos, n)]))
        tags.append("duplicate-keyword")
    if shape == "unknown":
        kw_names.append(rng.choice(["zeta", "Y", "alpha_", "a"]))
        tags.append("unknown-keyword")
    rng.shuffle(kw_names)
    if [x for x in kw_names if x in names] != sorted([x for x in kw_names if x in names], key=names.index) and len(kw_names) > 1:
        tags.append("keywords-out-of-order")
    kwargs, kw_s = {}, []
    for k in kw_names:
        v, s = value_for(k) if k in names else vals.tensor_value()
        kwargs[k] = v
        kw_s.append(f"({k} {s})")
    if npos > n:
        tags.append("surplus-positional")
    if any(not is_input.get(names[i], True) for i in range(min(npos, n))):
        tags.append("attribute-given-positionally")
    return args, kwargs, args_s, kw_s, tags


def describe(fn):
    """the two views of one decorated function: `op_signature` and `inspect.signature` of the Python function"""
    orig = fn.function
    osig = inspect.signature(orig)
    sig_params = []
    for p in fn.op_signature.params:
        is_in = type(p).__name__ == "Parameter"
        sig_params.append({"name": p.name, "in": is_in, "variadic": bool(getattr(p, "variadic", False)),
                           "required": bool(p.required), "default": bool(p.has_default())})
    v0 = Vals(None)
    py_params, py_s = [], []
    for p in osig.parameters.values():
        if p.kind is not inspect.Parameter.POSITIONAL_OR_KEYWORD:
            raise core.Infra("eager stream: unexpected parameter kind in a generated signature")
        has = p.default is not inspect.Parameter.empty
        py_params.append((p.name, has))
        py_s.append(f"({p.name} {v0.canon(p.default) if has else '_'})")
    sig_s = " ".join(f"({p['name']} {'in' if p['in'] else 'attr'} {int(p['variadic'])} {int(p['required'])} {int(p['default'])})"
                     for p in sig_params)
    return orig, osig, sig_params, py_params, sig_s, " ".join(py_s)


# C01-D49 (fixed by 29a1f68), regression: `ef0(A, B, 3.0, 2, C)` (five positionals for four parameters) and
# `ef0(A, B, A=C)` (keyword repeats a positional) must be refused with TypeError
D49_WITNESSES = [(["(arr 0)", "(arr 1)", "(flt 3.0)", "(int 2)", "(arr 2)"], []),
                 (["(arr 0)", "(arr 1)"], ["(A (arr 2))"])]

FIXED = [
    "@script(default_opset=op)\ndef ef0(A: FLOAT[...], B: FLOAT[...], alpha: float = 2.0, k: int = 1):\n    return op.Identity(A)\n",
    "@script(default_opset=op)\ndef ef1(A: FLOAT[...], beta: float, B: FLOAT[...]):\n    return op.Identity(A)\n",
    "@script(default_opset=op)\ndef ef2(flag: bool, A: FLOAT[...]):\n    return op.Identity(A)\n",
    "@script(default_opset=op)\ndef ef3(A: FLOAT[...]):\n    return op.Identity(A)\n",
]


def stream(run: core.Run, n_sigs: int, calls_per_sig: int) -> dict:
    """→ {"stats": Counter, "failures": [...], "ties": [...], "known": [...]}"""
    rng = run.rng
    stats: Counter = Counter()
    sigs = [gen_signature(rng, f"e{k}") for k in range(n_sigs)]
    sigs += [(s, {"name": f"ef{i}", "src": s, "interleaved": i in (1, 2)}) for i, s in enumerate(FIXED)]
    fns, errs, _mod = scriptgen.compile_functions([(m["name"], s) for s, m in sigs])
    if errs:
        raise core.Infra(f"eager stream: signature functions refused by script(): {list(errs.items())[:2]}")
    cases = []
    for _src, meta in sigs:
        fn = fns[meta["name"]]
        orig, osig, sig_params, py_params, sig_s, py_s = describe(fn)
        stats["eager_signatures"] += 1
        if meta["interleaved"]:
            stats["eager_signature_attribute_before_tensor"] += 1
        witnesses = list(D49_WITNESSES) if meta["name"] == "ef0" else []
        for c in range(calls_per_sig + len(witnesses)):
            vals = Vals(rng)
            if c < len(witnesses):
                args_s, kw_s = witnesses[c]
                args = [decode_value(_parse(a), vals) for a in args_s]
                kwargs = {_parse(k)[0]: decode_value(_parse(k)[1], vals) for k in kw_s}
                tags, allow, retbool = ["witness-C01-D49"], False, False
            else:
                args, kwargs, args_s, kw_s, tags = gen_call(rng, vals, sig_params, py_params)
                allow = rng.random() < 0.25
                retbool = rng.random() < 0.1
            real = real_call(fn, orig, osig, sig_params, args, kwargs, vals, allow, retbool)
            # the reference: CPython binds the caller's own arguments; tensor parameters promoted (independent code)
            py = python_reference(osig, sig_params, args, kwargs, vals, retbool, allow)
            line = f"eager (call (sig {sig_s}) (py {py_s}) (args {' '.join(args_s)}) (kw {' '.join(kw_s)}) {int(allow)} {int(retbool)})"
            cases.append({"meta": {"src": meta["src"], "kind": "eager-call", "name": meta["name"]},
                          "call": {"args": args_s, "kwargs": kw_s, "ignore_unknown_function_kwargs": allow,
                                   "recorder_returns_bool": retbool, "nth_call_on_object": c},
                          "real": real, "python": py, "tags": tags, "line": line})
            stats["eager_calls"] += 1
            for t in tags:
                stats["eager_" + t] += 1
            for k, v in vals.kinds.items():
                stats["eager_value_" + k] += v
            if allow:
                stats["eager_ignore_unknown_kwargs"] += 1
            if c >= 1:
                stats["eager_second_or_later_call_on_same_object"] += 1
    return judge(cases, stats)


def replay(case: dict) -> dict:
    """re-run one recorded call (`--replay`): same source, same call, all three voices again"""
    meta, call = case["meta"], case["call"]
    fns, errs, _mod = scriptgen.compile_functions([(meta["name"], meta["src"])])
    if errs:
        raise core.Infra(f"eager replay: {errs}")
    fn = fns[meta["name"]]
    orig, osig, sig_params, _py_params, sig_s, py_s = describe(fn)
    vals = Vals(None)
    args = [decode_value(_parse(a), vals) for a in call["args"]]
    kwargs = {}
    for k in call["kwargs"]:
        t = _parse(k)
        kwargs[t[0]] = decode_value(t[1], vals)
    allow, retbool = call["ignore_unknown_function_kwargs"], call["recorder_returns_bool"]
    real = real_call(fn, orig, osig, sig_params, args, kwargs, vals, allow, retbool)
    py = python_reference(osig, sig_params, args, kwargs, vals, retbool, allow)
    line = f"eager (call (sig {sig_s}) (py {py_s}) (args {' '.join(call['args'])}) (kw {' '.join(call['kwargs'])}) {int(allow)} {int(retbool)})"
    return judge([dict(case, real=real, python=py, line=line)], Counter())


def judge(cases: list[dict], stats: Counter) -> dict:
    failures, ties, known = [], [], []
    lines = [c["line"] for c in cases]
    answers = model_driver().ask(lines)
    for case, ans in zip(cases, answers):
        real, py = case["real"], case["python"]
        if ans == "bad-input" or " | " not in ans:
            raise core.Infra(f"eager stream: driver answered {ans!r} for {case['line'][:200]}")
        head, eager_s, out_s, py_s = [x.strip() for x in ans.split(" | ")]
        eager_s, out_s, py_s = eager_s[len("eager="):], out_s[len("out="):], py_s[len("python="):]
        if "sigmatch=true nodup=true" in head:
            stats["eager_sigmatch_holds"] += 1
        else:
            ties.append(dict(case, tie=f"hypothesis sigMatch/nodupP of eager_is_python fails on a real signature: {head}", model=ans))
            continue
        # --- tie: model vs real
        if real["ok"]:
            if not eager_s.startswith("ok:"):
                tie = f"real call reaches the body, model raises {eager_s}"
            elif eager_s.split(":", 2)[2] != real["env"]:
                tie = f"body environment differs: real {real['env']} model {eager_s.split(':', 2)[2]}"
            elif out_s != real["out"]:
                tie = f"result / has_array differs: real {real['out']} model {out_s}"
            else:
                tie = None
            stats["eager_reaches_body"] += 1
            if real["out"].startswith("err:"):
                stats["eager_bad_output"] += 1
            if eager_s.startswith("ok:0:"):
                stats["eager_has_array_false"] += 1
        else:
            stats["eager_refused_" + real["err"].split(":")[1]] += 1
            tie = None if eager_s == "err:" + real["err"] else f"real raises {real['err']}, model {eager_s}"
        if tie:
            ties.append(dict(case, tie=tie, model=ans))
        # --- the theorem's own reading on this case: hypothesis `pyBind = ok` holds → conclusion must be what the
        #     driver computed for the eager side (a run-time instance of `eager_is_python`)
        if "witness-C01-D49" in case["tags"]:
            stats["eager_witness_C01-D49_" + ("accepted" if real["ok"] else "refused")] += 1
        if py_s.startswith("ok"):
            stats["eager_python_defined"] += 1
            want = py_s if py_s.startswith("ok:") else "err:" + py_s.split(":", 1)[1]
            if want != eager_s:
                ties.append(dict(case, tie=f"driver: eagerCall {eager_s} but the right-hand side of eager_is_python is {py_s}", model=ans))
        # --- oracle: real vs the independent reference
        if py["ok"]:
            want_env, want_out = py["env"], py["out"]
            if not real["ok"]:
                if py.get("adapt_error"):
                    if real["err"] != "TypeError:badInput":
                        failures.append(dict(case, what=f"eager call raises {real['err']} where promoting the arguments raises TypeError (bad input)"))
                else:
                    failures.append(dict(case, what=f"eager call raises {real['err']}; as a plain Python call the body starts from {want_env}"))
            elif py.get("adapt_error"):
                failures.append(dict(case, what=f"eager call reaches the body with {real['env']} although a tensor argument cannot be promoted"))
            elif real["env"] != want_env:
                failures.append(dict(case, what=f"eager call starts the body from {real['env']}; as a plain Python call: {want_env}"))
            elif real["out"] != want_out:
                failures.append(dict(case, what=f"eager call returns {real['out']}; expected {want_out}"))
        else:
            stats["eager_python_refuses"] += 1
            if real["ok"]:
                known.append(dict(case, what=f"CPython refuses this call ({py['err']}), eager mode runs the body from {real['env']}",
                                  finding="C01-D49"))
                stats["eager_accepts_what_python_refuses"] += 1
    stats["driver_lines_eager"] += len(lines)
    return {"stats": stats, "failures": failures, "ties": ties, "known": known}


def python_reference(osig, sig_params, args, kwargs, vals: Vals, retbool: bool, allow: bool = False) -> dict:
    from onnxscript import tensor

    if allow:
        # the documented meaning of `ignore_unknown_function_kwargs`: keywords that name no parameter are dropped
        kwargs = {k: v for k, v in kwargs.items() if k in osig.parameters}
    try:
        ba = osig.bind(*args, **kwargs)
    except TypeError as e:
        return {"ok": False, "err": err_kind(e)}
    ba.apply_defaults()
    seen = [False]

    def promote(v) -> str:
        if isinstance(v, np.ndarray):
            seen[0] = True
            return f"(ten {vals.ids[id(v)]})"
        if isinstance(v, tensor.Tensor):
            return f"(ten {vals.ids[id(v.value)]})"
        if isinstance(v, bool):
            return f"(ten np:bool:{v!r})"
        if isinstance(v, float):
            return f"(ten np:float64:{v!r})"
        if isinstance(v, int):
            return f"(ten np:int64:{v!r})"
        if v is None:
            return "none"
        if isinstance(v, list):
            return "(list" + "".join(" " + promote(x) for x in v) + ")"
        if isinstance(v, tuple):
            return "(tuple" + "".join(" " + promote(x) for x in v) + ")"
        raise TypeError("not a tensor value")

    is_in = {p["name"]: p["in"] for p in sig_params}
    env, outs = [], []
    try:
        for n, v in ba.arguments.items():
            if is_in[n]:
                s = promote(v)
                outs.append(s)
            else:
                s = vals.canon(v)
            env.append(f"({n} {s})")
    except TypeError:
        return {"ok": True, "adapt_error": True, "env": None, "out": None}
    env_s = "(env" + "".join(" " + e for e in env) + ")"
    if seen[0]:
        # results come back as numpy arrays: every Tensor → its array; a Python bool in the result is a TypeError
        if retbool:
            out = "err:TypeError:badOutput"
        else:
            out = "ok:(tuple" + "".join(" " + o.replace("(ten ", "(arr ") for o in outs) + ")"
    else:
        out = "ok:(tuple" + "".join(" " + o for o in outs) + (" (bool 1)" if retbool else "") + ")"
    return {"ok": True, "env": env_s, "out": out}


REQUIRED = ["eager_witness_C01-D49_refused", "eager_refused_tooMany", "eager_refused_badKw", "eager_calls", "eager_signatures", "eager_signature_attribute_before_tensor", "eager_sigmatch_holds",
            "eager_python_defined", "eager_python_refuses", "eager_reaches_body", "eager_has_array_false",
            "eager_bad_output", "eager_refused_missing", "eager_refused_unexpectedKw", "eager_refused_badInput",
            "eager_keywords-out-of-order", "eager_default-omitted", "eager_surplus-positional",
            "eager_duplicate-keyword", "eager_unknown-keyword", "eager_attribute-given-positionally",
            "eager_ignore_unknown_kwargs", "eager_second_or_later_call_on_same_object", "eager_value_arr",
            "eager_value_ten", "eager_value_bool", "eager_value_float", "eager_value_int", "eager_value_none",
            "eager_value_list", "eager_value_tuple", "eager_value_other"]


# --------------------------------------------------------------------------- separate_input_attributes_from_arguments
# (`Converter._translate_call_expr`: inputs by position, attributes by name).  Model: OV/Model/C01Separate.lean, theorems
# `separate_inputs_attributes_spec`, `separate_keeps_positions`.  Values are opaque tokens.

SEP_OPS = ["Clip", "Pad", "Slice", "Resize", "Dropout", "Sum", "Concat", "Gemm", "Conv", "LayerNormalization", "TopK",
           "Split", "Add", "Cast", "Squeeze", "Where", "MaxPool", "Max", "ReduceSum", "Gather", "Identity", "BatchNormalization"]


def sep_signatures():
    from onnxscript import opset18
    from onnxscript._internal import values

    out = []
    for name in SEP_OPS:
        sig = values.Op(opset18, name).op_signature  # what `_translate_callee_expr` hands to `_translate_call_expr`
        if sig is None:
            raise core.Infra(f"separate stream: no signature for op.{name}")
        ps = [{"name": p.name, "in": type(p).__name__ == "Parameter", "variadic": bool(getattr(p, "variadic", False)),
               "required": bool(p.required), "default": bool(p.has_default())} for p in sig.params]
        out.append((name, sig, ps))
    return out


def ref_separate(ps, args, kwargs, akw, aargs):
    """the specification, written directly (no loop state): one slot per input parameter in signature order, trailing
    omitted slots removed; attributes given, in signature order.  Only for signatures without a variadic parameter and
    fill_defaults=False.  → ("ok", ins, attrs) | ("err", kind)"""
    names = [p["name"] for p in ps]
    if any(k not in names for k in kwargs) and not akw:
        return ("err", "unexpectedKw")
    slots, attrs = [], []
    for i, p in enumerate(ps):
        v = args[i] if i < len(args) else kwargs.get(p["name"])
        if v is None and p["required"] and not (not p["in"] and p["default"]):
            return ("err", "missing")
        if p["in"]:
            slots.append(v)
        elif v is not None:
            attrs.append((p["name"], v))
    while slots and slots[-1] is None:
        slots.pop()
    if not aargs and len(args) > len(ps):
        return ("err", "tooMany")
    return ("ok", slots, attrs)


def separate_stream(run: core.Run, n_calls: int) -> dict:
    from onnxscript._internal import param_manipulation as pm

    rng = run.rng
    stats: Counter = Counter()
    sigs = sep_signatures()
    cases, lines = [], []
    for c in range(n_calls):
        name, sig, ps = sigs[c % len(sigs)] if c < 2 * len(sigs) else rng.choice(sigs)
        n = len(ps)
        tok = iter(f"v{k}" for k in range(100))
        shape = rng.choice(["pos", "kw", "mixed", "mixed", "mixed", "surplus", "dup", "unknown", "sparse", "sparse", "sparse"])
        if c < len(sigs):
            shape = "sparse"  # every signature once: first argument positional, one later input by keyword, the rest omitted
        npos = {"pos": n, "kw": 0, "surplus": n + rng.choice([1, 2])}.get(shape, rng.randrange(0, n + 1))
        if shape == "sparse":
            npos = min(1, n)
        args = [next(tok) for _ in range(npos)]
        kwargs = {}
        later_inputs = [i for i in range(min(npos, n) + 1, n) if ps[i]["in"] and not ps[i]["variadic"]]
        forced = rng.choice(later_inputs) if shape == "sparse" and later_inputs else None
        for i in range(min(npos, n), n):
            if shape == "sparse":
                if i == forced or (ps[i]["required"] and not ps[i]["default"] and rng.random() < 0.8):
                    kwargs[ps[i]["name"]] = next(tok)
            elif rng.random() < 0.55:
                kwargs[ps[i]["name"]] = next(tok)
        if shape == "dup" and npos and n:
            kwargs[ps[rng.randrange(0, min(npos, n))]["name"]] = next(tok)
        if shape == "unknown":
            kwargs[rng.choice(["zeta", "axis_", "X9"])] = next(tok)
        items = list(kwargs.items())
        rng.shuffle(items)
        kwargs = dict(items)
        fill, akw, aargs = rng.random() < 0.3, rng.random() < 0.25, rng.random() < 0.7
        real = sep_real(sig, ps, args, kwargs, fill, akw, aargs)
        line = sep_line(ps, args, kwargs, fill, akw, aargs)
        lines.append(line)
        variadic = any(p["in"] and p["variadic"] for p in ps)
        ref = None if (variadic or fill) else ref_separate(ps, args, kwargs, akw, aargs)
        cases.append({"meta": {"src": f"op.{name}", "kind": "separate-call", "name": f"op.{name}"},
                      "call": {"args": args, "kwargs": [f"({k} {v})" for k, v in kwargs.items()], "fill_defaults": fill,
                               "allow_extra_kwargs": akw, "allow_extra_args": aargs},
                      "real": real, "ref": ref, "line": line})
        stats["sep_calls"] += 1
        stats["sep_variadic_signature"] += variadic
        stats["sep_fill_defaults"] += fill
        if any(not ps[i]["in"] for i in range(min(npos, n))):
            stats["sep_attribute_given_positionally"] += 1
    return judge_separate(cases, stats)


def sep_line(ps, args, kwargs, fill, akw, aargs) -> str:
    sig_s = " ".join(f"({p['name']} {'in' if p['in'] else 'attr'} {int(p['variadic'])} {int(p['required'])} {int(p['default'])})" for p in ps)
    return (f"separate (call (sig {sig_s}) (args {' '.join(args)}) (kw {' '.join(f'({k} {v})' for k, v in kwargs.items())}) "
            f"{int(fill)} {int(akw)} {int(aargs)})")


def sep_real(sig, ps, args, kwargs, fill, akw, aargs):
    from onnxscript._internal import param_manipulation as pm

    try:
        ins, attrs = pm.separate_input_attributes_from_arguments(sig, list(args), dict(kwargs), fill_defaults=fill,
                                                                 allow_extra_kwargs=akw, allow_extra_args=aargs)
        canon = lambda k, v: v if isinstance(v, str) and v.startswith("v") and v[1:].isdigit() else f"default:{k}"  # noqa: E731
        return "ok (ins " + " ".join("_" if v is None else v for v in ins) + ") (attrs " + \
            " ".join(f"({k} {canon(k, v)})" for k, v in attrs.items()) + ")"
    except Exception as e:  # noqa: BLE001
        return "err " + err_kind(e)


def replay_separate(case: dict) -> dict:
    call = case["call"]
    name = case["meta"]["name"][3:]
    sig, ps = next((s, p) for n, s, p in sep_signatures() if n == name)
    kwargs = dict(k.strip("()").split(" ", 1) for k in call["kwargs"])
    fill, akw, aargs = call["fill_defaults"], call["allow_extra_kwargs"], call["allow_extra_args"]
    real = sep_real(sig, ps, call["args"], kwargs, fill, akw, aargs)
    variadic = any(p["in"] and p["variadic"] for p in ps)
    ref = None if (variadic or fill) else ref_separate(ps, call["args"], kwargs, akw, aargs)
    return judge_separate([dict(case, real=real, ref=ref, line=sep_line(ps, call["args"], kwargs, fill, akw, aargs))], Counter())


def judge_separate(cases: list[dict], stats: Counter) -> dict:
    lines = [c["line"] for c in cases]
    answers = model_driver().ask(lines)
    failures, ties = [], []
    for case, ans in zip(cases, answers):
        real, ref = case["real"], case["ref"]
        model = ans.split(" spec=")[0]
        if " spec=same" in ans:
            stats["sep_closed_form_checked"] += 1
        if " spec=differs" in ans:
            ties.append(dict(case, tie="driver: separate differs from the closed form of separate_inputs_attributes_spec", model=ans))
        if real.startswith("err"):
            stats["sep_err_" + real.split(":")[-1]] += 1
        else:
            inner = real[len("ok (ins "):real.index(") (attrs")].split()
            if "_" in inner:
                stats["sep_placeholder_before_a_keyword_input"] += 1
        if model != real:
            ties.append(dict(case, tie=f"real {real} model {model}", model=ans))
        if ref is not None:
            want = "err TypeError:" + ref[1] if ref[0] == "err" else \
                "ok (ins " + " ".join("_" if v is None else v for v in ref[1]) + ") (attrs " + " ".join(f"({k} {v})" for k, v in ref[2]) + ")"
            stats["sep_reference_compared"] += 1
            if ref[0] == "ok" and len(ref[1]) < sum(1 for p in sep_by_name(case) if p["in"]):
                stats["sep_trailing_omitted_inputs_trimmed"] += 1
            if want != real:
                failures.append(dict(case, what=f"separate_input_attributes_from_arguments returns {real}; every input belongs at the "
                                                f"position of its parameter: {want}"))
    stats["driver_lines_separate"] += len(lines)
    return {"stats": stats, "failures": failures, "ties": ties, "known": []}


_SEP_CACHE: dict = {}


def sep_by_name(case):
    if not _SEP_CACHE:
        for name, _sig, ps in sep_signatures():
            _SEP_CACHE["op." + name] = ps
    return _SEP_CACHE[case["meta"]["name"]]


REQUIRED_SEP = ["sep_calls", "sep_variadic_signature", "sep_fill_defaults", "sep_attribute_given_positionally",
                "sep_closed_form_checked", "sep_err_missing", "sep_err_unexpectedKw", "sep_err_tooMany",
                "sep_placeholder_before_a_keyword_input", "sep_reference_compared", "sep_trailing_omitted_inputs_trimmed"]
